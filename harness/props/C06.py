"""C06 -- RMSD is the optimal-superposition RMSD and superpose attains it.

Parts (DESIGN.md section 5, C06):
  translate   : reads the body of msdFromMandG in mdtraj/rmsd/src/theobald_rmsd.cpp with a small
                C-subset parser + symbolic executor and regenerates coq/Gen/RmsdFormulas.v (module Zf:
                the polynomial skeleton over Z, module Rf: the whole function over R).  The theorems of
                coq/Rmsd/*.v are about these regenerated definitions.
  correspond  : (a) exact tie: on integer-grid conformations the Gallina model's characteristic
                polynomial (Zf, vm_compute) is compared with an independent exact computation, and the
                implementation's RMSD (public API) must be its largest root;
                (b) oracle: md.rmsd / Trajectory.superpose / md.rmsf / md.lprmsd against an independent
                float64 Kabsch (numpy SVD) under stated float32 bounds; optimality probes; rigidity.
"""
import math
import os
import re
from fractions import Fraction

import numpy as np

from common import REPO, cz, clist

LEVEL = "proof"
THEOREMS = "Props/C06.v"
EXTRA_TARGETS = ("Gen/RmsdFormulas.vo",)
EXTS = ["_rmsd", "_lprmsd"]

SRC = "mdtraj/rmsd/src/theobald_rmsd.cpp"
FUNC = "msdFromMandG"


# =====================================================================================
#  Part 1: translator (C subset -> Gallina).  Fail closed: anything outside the grammar raises.
# =====================================================================================
class TranslateError(Exception):
    pass


TOKEN_RE = re.compile(r"""
    (?P<num>(?:\d+\.\d*|\.\d+|\d+)(?:[eE][+-]?\d+)?[fFlL]?)
  | (?P<id>[A-Za-z_][A-Za-z_0-9]*)
  | (?P<str>"(?:[^"\\]|\\.)*")
  | (?P<op>\+\+|--|\+=|-=|\*=|/=|==|!=|<=|>=|&&|\|\||[-+*/<>=!\[\](){};,&%])
  | (?P<ws>\s+)
""", re.X)

TYPE_WORDS = {"float", "double", "int", "unsigned", "const", "long"}
IO_CALLS = {"printf", "fprintf"}


def strip_comments(text):
    text = re.sub(r"/\*.*?\*/", lambda m: re.sub(r"[^\n]", " ", m.group(0)), text, flags=re.S)
    text = re.sub(r"//[^\n]*", "", text)
    return text


def function_body(text, name):
    """Text between the braces of the *definition* of `name` (the prototype ends with ';')."""
    for m in re.finditer(r"\b%s\s*\(" % re.escape(name), text):
        depth, i = 0, m.end() - 1
        while i < len(text):
            if text[i] == "(":
                depth += 1
            elif text[i] == ")":
                depth -= 1
                if depth == 0:
                    break
            i += 1
        params = text[m.end():i]
        j = i + 1
        while j < len(text) and text[j].isspace():
            j += 1
        if j < len(text) and text[j] == "{":
            depth, k = 0, j
            while k < len(text):
                if text[k] == "{":
                    depth += 1
                elif text[k] == "}":
                    depth -= 1
                    if depth == 0:
                        return params, text[j + 1:k]
                k += 1
    raise TranslateError("definition of %s not found" % name)


def tokenize(text):
    toks, pos = [], 0
    while pos < len(text):
        m = TOKEN_RE.match(text, pos)
        if not m:
            raise TranslateError("cannot tokenize at: %r" % text[pos:pos + 30])
        pos = m.end()
        kind = m.lastgroup
        if kind != "ws":
            toks.append((kind, m.group(kind)))
    return toks


class Parser:
    """statements: decl | assignment (chained, compound) | for | if/else | return | call;"""

    def __init__(self, toks):
        self.t = toks
        self.i = 0

    def peek(self, k=0):
        return self.t[self.i + k] if self.i + k < len(self.t) else ("eof", "")

    def eat(self, val=None, kind=None):
        tk = self.peek()
        if (val is not None and tk[1] != val) or (kind is not None and tk[0] != kind):
            raise TranslateError("expected %r, found %r (token %d)" % (val or kind, tk[1], self.i))
        self.i += 1
        return tk

    def block(self):
        out = []
        while self.peek()[0] != "eof" and self.peek()[1] != "}":
            out.append(self.stmt())
        return out

    def body(self):
        if self.peek()[1] == "{":
            self.eat("{")
            b = self.block()
            self.eat("}")
            return b
        return [self.stmt()]

    def stmt(self):
        k, v = self.peek()
        if v == ";":
            self.eat(";")
            return ("nop",)
        if k == "id" and v in TYPE_WORDS:
            words = []
            while self.peek()[0] == "id" and self.peek()[1] in TYPE_WORDS:
                words.append(self.eat()[1])
            items = []
            while True:
                name = self.eat(kind="id")[1]
                init = None
                if self.peek()[1] == "[":
                    raise TranslateError("local arrays are outside the grammar")
                if self.peek()[1] == "=":
                    self.eat("=")
                    init = self.expr()
                items.append((name, init))
                if self.peek()[1] == ",":
                    self.eat(",")
                    continue
                break
            self.eat(";")
            return ("decl", " ".join(words), items)
        if v == "for":
            self.eat("for")
            self.eat("(")
            var = self.eat(kind="id")[1]
            self.eat("=")
            start = self.expr()
            self.eat(";")
            v2 = self.eat(kind="id")[1]
            rel = self.eat()[1]
            bound = self.expr()
            self.eat(";")
            v3 = self.eat(kind="id")[1]
            inc = self.eat()[1]
            self.eat(")")
            if not (var == v2 == v3 and rel == "<" and inc == "++"):
                raise TranslateError("only 'for (i = a; i < b; i++)' loops are accepted")
            return ("for", var, start, bound, self.body())
        if v == "if":
            self.eat("if")
            self.eat("(")
            c = self.cond()
            self.eat(")")
            th = self.body()
            el = []
            if self.peek()[1] == "else":
                self.eat("else")
                el = self.body()
            return ("if", c, th, el)
        if v == "return":
            self.eat("return")
            if self.peek()[1] == "(":
                pass
            e = self.expr()
            self.eat(";")
            return ("return", e)
        if k == "id":
            # call statement or assignment
            if self.peek(1)[1] == "(":
                e = self.expr()
                self.eat(";")
                if e[0] != "call":
                    raise TranslateError("expression statement that is not a call")
                return ("callstmt", e)
            lvals = [self.lvalue()]
            op = self.eat()[1]
            if op not in ("=", "+=", "-=", "*=", "/="):
                raise TranslateError("unsupported statement operator %r" % op)
            # chained a = b = c = e
            while op == "=" and self.peek()[0] == "id" and self._is_chain():
                lvals.append(self.lvalue())
                self.eat("=")
            e = self.expr()
            self.eat(";")
            return ("assign", lvals, op, e)
        raise TranslateError("unsupported statement starting with %r" % v)

    def _is_chain(self):
        # look ahead: ident ([...])? '='  (and not '==')
        j = self.i + 1
        if self.t[j][1] == "[":
            depth = 0
            while j < len(self.t):
                if self.t[j][1] == "[":
                    depth += 1
                elif self.t[j][1] == "]":
                    depth -= 1
                    if depth == 0:
                        j += 1
                        break
                j += 1
        return j < len(self.t) and self.t[j][1] == "="

    def lvalue(self):
        name = self.eat(kind="id")[1]
        if self.peek()[1] == "[":
            self.eat("[")
            ix = self.expr()
            self.eat("]")
            return ("idx", name, ix)
        return ("var", name)

    def cond(self):
        a = self.expr()
        rel = self.eat()[1]
        if rel not in ("<", ">", "<=", ">=", "!=", "=="):
            raise TranslateError("unsupported condition operator %r" % rel)
        b = self.expr()
        if self.peek()[1] in ("&&", "||"):
            raise TranslateError("compound conditions are outside the grammar")
        return ("cmp", rel, a, b)

    def expr(self):
        a = self.term()
        while self.peek()[1] in ("+", "-"):
            op = self.eat()[1]
            b = self.term()
            a = ("bin", op, a, b)
        return a

    def term(self):
        a = self.unary()
        while self.peek()[1] in ("*", "/"):
            op = self.eat()[1]
            b = self.unary()
            a = ("bin", op, a, b)
        return a

    def unary(self):
        if self.peek()[1] == "-":
            self.eat("-")
            return ("neg", self.unary())
        if self.peek()[1] == "+":
            self.eat("+")
            return self.unary()
        return self.atom()

    def atom(self):
        k, v = self.peek()
        if v == "(":
            # cast "(float)" / "(double)" is accepted and ignored (value-preserving in the exact model)
            if self.peek(1)[0] == "id" and self.peek(1)[1] in TYPE_WORDS and self.peek(2)[1] == ")":
                self.eat("(")
                self.eat()
                self.eat(")")
                return self.unary()
            self.eat("(")
            e = self.expr()
            self.eat(")")
            return e
        if k == "num":
            self.eat()
            return ("num", v)
        if k == "str":
            self.eat()
            return ("str", v)
        if k == "id":
            self.eat()
            if self.peek()[1] == "(":
                self.eat("(")
                args = []
                if self.peek()[1] != ")":
                    while True:
                        if self.peek()[1] == "&":
                            raise TranslateError("address-of is outside the grammar")
                        args.append(self.expr())
                        if self.peek()[1] == ",":
                            self.eat(",")
                            continue
                        break
                self.eat(")")
                return ("call", v, args)
            if self.peek()[1] == "[":
                self.eat("[")
                ix = self.expr()
                self.eat("]")
                return ("idx", v, ix)
            return ("var", v)
        raise TranslateError("unexpected token %r in expression" % v)


def parse_number(text):
    t = text.rstrip("fFlL")
    return Fraction(t)


def contains_io(stmts):
    for s in stmts:
        if s[0] == "callstmt" and s[1][1] in IO_CALLS:
            return True
        if s[0] == "if" and (contains_io(s[2]) or contains_io(s[3])):
            return True
        if s[0] == "for" and contains_io(s[4]):
            return True
    return False


class SymExec:
    """Symbolic execution of the parsed body into a list of Gallina definitions.

    mode 'R': the whole function; conditionals become `if <dec> then .. else ..`, sqrt and / are kept.
    mode 'Z': the polynomial skeleton along the main path: a value that is not a polynomial with
              integer literals in earlier values (division, sqrt, solver call, non-integer literal)
              becomes a fresh input field h_<name>; at an if/else whose condition is not polynomial
              only the branch that is not the I/O-reporting fallback is followed.
    Every assignment creates a new definition  <var>  (first)  /  <var>_<k>  (k-th re-assignment);
    out_<var> is the final value, and snapshots (SNAP) record the versions current at a given event.
    """

    SOLVERS = {"DirectSolve", "NewtonSolve"}
    SNAP = {"qsqr": ["q0", "q1", "q2", "q3", "k00", "k01", "k02", "k03", "k11", "k12", "k13", "k22", "k23", "k33",
                     "lambda"],
            "detK": ["k00", "k01", "k02", "k03", "k11", "k12", "k13", "k22", "k23", "k33"]}

    def __init__(self, mode, float_params, array_params, int_params, special_true):
        self.mode = mode
        self.defs = []          # (name, coq_expr or None for input field, comment)
        self.inputs = []        # record fields
        self.cur = {}           # C variable (or arr_k) -> current definition name
        self.ver = {}           # C variable -> number of definitions so far
        self.consts = {}        # const ints and loop variables -> python int
        self.poly = {}          # definition name -> bool (polynomial over Z)
        self.conds = []         # (name, coq_prop_text, dec_text)
        self.fallback_cond = None
        self.snap = {}
        self.ret = None
        self.special_true = set(special_true)
        self.arrays = {}
        for a, n in array_params.items():
            self.arrays[a] = n
        for p in float_params + int_params:
            self._input(p, p)
        for a, n in array_params.items():
            if a in self.special_true:
                continue
        self.io_seen = False

    # ---- naming
    def _input(self, cvar, field):
        self.inputs.append(field)
        self.cur[cvar] = field
        self.poly[field] = True
        self.ver[cvar] = self.ver.get(cvar, 0)

    def _fresh(self, cvar):
        k = self.ver.get(cvar, 0)
        self.ver[cvar] = k + 1
        base = cvar
        name = base if k == 0 else "%s_%d" % (base, k)
        if name in self.inputs:
            name = "%s_%d" % (base, k + 1)
            self.ver[cvar] = k + 2
        return name

    def array_elem(self, name, ix):
        k = self.const_eval(ix)
        if name not in self.arrays:
            raise TranslateError("indexing of non-parameter %s" % name)
        if not (0 <= k < self.arrays[name]):
            raise TranslateError("index %d out of range for %s" % (k, name))
        return "%s%d" % (name, k)

    def const_eval(self, e):
        if e[0] == "num":
            f = parse_number(e[1])
            if f.denominator != 1:
                raise TranslateError("non-integer index")
            return int(f)
        if e[0] == "var":
            if e[1] in self.consts:
                return self.consts[e[1]]
            raise TranslateError("index uses non-constant %s" % e[1])
        if e[0] == "bin" and e[1] in "+-*":
            a, b = self.const_eval(e[2]), self.const_eval(e[3])
            return a + b if e[1] == "+" else a - b if e[1] == "-" else a * b
        if e[0] == "neg":
            return -self.const_eval(e[1])
        raise TranslateError("index expression outside the grammar")

    # ---- expressions -> (coq text, is_polynomial)
    def ex(self, e):
        if e[0] == "num":
            f = parse_number(e[1])
            if f.denominator == 1:
                n = int(f)
                return ("%d" % n if n >= 0 else "(%d)" % n), True
            if self.mode == "Z":
                return None, False
            return "(%d / %d)" % (f.numerator, f.denominator), False
        if e[0] == "var":
            if e[1] in self.consts:
                n = self.consts[e[1]]
                return ("%d" % n if n >= 0 else "(%d)" % n), True
            if e[1] not in self.cur:
                raise TranslateError("use of %s before assignment" % e[1])
            d = self.cur[e[1]]
            return "%s i" % d, self.poly[d]
        if e[0] == "idx":
            key = self.array_elem(e[1], e[2])
            if key not in self.cur:
                if e[1] in self.special_true:
                    raise TranslateError("read of output array %s before assignment" % key)
                self._input(key, key)
            d = self.cur[key]
            return "%s i" % d, self.poly[d]
        if e[0] == "neg":
            t, p = self.ex(e[1])
            return (None if t is None else "(- %s)" % t), p
        if e[0] == "bin":
            a, pa = self.ex(e[2])
            b, pb = self.ex(e[3])
            if e[1] == "/":
                if self.mode == "Z" or a is None or b is None:
                    return None, False
                return "(%s / %s)" % (a, b), False
            if a is None or b is None:
                return None, False
            return "(%s %s %s)" % (a, e[1], b), pa and pb
        if e[0] == "call":
            if e[1] in ("sqrt", "sqrtf") and len(e[2]) == 1:
                a, _ = self.ex(e[2][0])
                if self.mode == "Z" or a is None:
                    return None, False
                return "(sqrt (%s))" % a, False
            if e[1] in self.SOLVERS:
                for a in e[2]:
                    self.ex(a)      # arguments must be well-formed
                return None, False  # the solver's result is an input of the model in both modes
            raise TranslateError("call of %s is outside the grammar" % e[1])
        raise TranslateError("expression outside the grammar: %r" % (e,))

    def define(self, cvar, text, poly, comment):
        name = self._fresh(cvar)
        if text is None:
            field = "h_" + name
            self.inputs.append(field)
            self.poly[field] = True
            self.defs.append((name, "%s i" % field, comment + " (input of the model)"))
            self.poly[name] = True
        else:
            self.defs.append((name, text, comment))
            self.poly[name] = poly
        self.cur[cvar] = name
        if cvar in self.SNAP:
            for v in self.SNAP[cvar]:
                if v in self.cur:
                    self.snap["at_%s_%s" % (cvar, v)] = self.cur[v]
        return name

    # ---- statements
    def run(self, stmts):
        for s in stmts:
            self.stmt(s)

    def lkey(self, lv):
        return lv[1] if lv[0] == "var" else self.array_elem(lv[1], lv[2])

    def stmt(self, s):
        kind = s[0]
        if kind == "nop":
            return
        if kind == "decl":
            ctype, items = s[1], s[2]
            for name, init in items:
                if "int" in ctype.split() and "float" not in ctype:
                    if init is not None:
                        self.consts[name] = self.const_eval(init)
                    continue
                if init is not None:
                    t, p = self.ex(init)
                    self.define(name, t, p, "%s %s = ..." % (ctype, name))
            return
        if kind == "assign":
            lvals, op, e = s[1], s[2], s[3]
            if op != "=":
                lv = lvals[0]
                e = ("bin", op[0], lv, e)
            t, p = self.ex(e)
            for lv in reversed(lvals):
                key = self.lkey(lv)
                self.define(key, t, p, "%s %s ..." % (key, op))
            return
        if kind == "for":
            _, var, start, bound, body = s
            a, b = self.const_eval(start), self.const_eval(bound)
            if b - a > 64:
                raise TranslateError("loop too long to unroll")
            for k in range(a, b):
                self.consts[var] = k
                self.run(body)
            self.consts.pop(var, None)
            return
        if kind == "callstmt":
            if s[1][1] in IO_CALLS:
                return
            raise TranslateError("call statement %s outside the grammar" % s[1][1])
        if kind == "return":
            t, p = self.ex(s[1])
            self.ret = self.define("ret", t, p, "return value")
            return
        if kind == "if":
            return self.if_(s)
        raise TranslateError("statement kind %s" % kind)

    REL = {"<": ("Rlt_dec", "Z.ltb", "<"), ">": ("Rgt_dec", "Z.gtb", ">"), "<=": ("Rle_dec", "Z.leb", "<="),
           ">=": ("Rge_dec", "Z.geb", ">=")}

    def if_(self, s):
        _, c, th, el = s
        rel, a, b = c[1], c[2], c[3]
        # specialisation on flags such as computeRot != 0
        if a[0] == "var" and a[1] in self.special_true and rel == "!=" and b[0] == "num":
            self.run(th)
            return
        if rel not in self.REL:
            raise TranslateError("condition %s outside the grammar" % rel)
        ta, pa = self.ex(a)
        tb, pb = self.ex(b)
        io_t, io_e = contains_io(th), contains_io(el)
        is_fallback = el and (io_t != io_e)
        if self.mode == "Z" and (ta is None or tb is None):
            if not is_fallback:
                raise TranslateError("non-polynomial condition without a recognisable fallback branch")
            self.run(el if io_t else th)
            return
        cname = "cond_%d" % (len(self.conds) + 1)
        if self.mode == "R":
            self.conds.append((cname, "(%s %s %s)" % (ta, self.REL[rel][2], tb), "%s (%s) (%s)" % (self.REL[rel][0], ta, tb)))
        else:
            self.conds.append((cname, "(%s (%s) (%s) = true)" % (self.REL[rel][1], ta, tb), "(%s (%s) (%s))" % (self.REL[rel][1], ta, tb)))
        if is_fallback:
            self.fallback_cond = (cname, bool(io_t))
        save_cur = dict(self.cur)
        self.run(th)
        cur_t = dict(self.cur)
        self.cur = dict(save_cur)
        self.run(el)
        cur_e = dict(self.cur)
        merged = dict(save_cur)
        for v in sorted(set(cur_t) | set(cur_e)):
            dt, de = cur_t.get(v, save_cur.get(v)), cur_e.get(v, save_cur.get(v))
            if dt == de:
                merged[v] = dt
                continue
            if dt is None or de is None:
                # assigned in one branch only and undefined before: not usable after the if
                continue
            self.cur = merged
            if self.mode == "R":
                text = "(if %s_dec i then %s i else %s i)" % (cname, dt, de)
            else:
                text = "(if %s_b i then %s i else %s i)" % (cname, dt, de)
            self.define(v, text, False if self.mode == "R" else (self.poly[dt] and self.poly[de]), "merge after if %s" % cname)
            merged = self.cur
        self.cur = merged


def emit_module(modname, se, scope, ty):
    L = []
    L.append("Module %s." % modname)
    L.append("Local Open Scope %s." % scope)
    L.append("Record inp : Type := mk { %s }." % "; ".join("%s : %s" % (f, ty) for f in se.inputs))
    cond_by_name = {c[0]: c for c in se.conds}
    emitted_conds = set()
    # conditions must be emitted before the first definition that uses them: emit lazily
    for name, text, comment in se.defs:
        for cname in re.findall(r"\b(cond_\d+)_(?:dec|b)\b", text):
            if cname not in emitted_conds:
                emitted_conds.add(cname)
                _c, prop, dec = cond_by_name[cname]
                if se.mode == "R":
                    L.append("Definition %s (i : inp) : Prop := %s." % (cname, prop))
                    L.append("Definition %s_dec (i : inp) : {%s i} + {~ %s i} := %s." % (cname, cname, cname, dec))
                else:
                    L.append("Definition %s_b (i : inp) : bool := %s." % (cname, dec))
        L.append("Definition %s (i : inp) : %s := %s.  (* %s *)" % (name, ty, text, comment))
    for cname, (_c, prop, dec) in cond_by_name.items():
        if cname not in emitted_conds:
            if se.mode == "R":
                L.append("Definition %s (i : inp) : Prop := %s." % (cname, prop))
                L.append("Definition %s_dec (i : inp) : {%s i} + {~ %s i} := %s." % (cname, cname, cname, dec))
            else:
                L.append("Definition %s_b (i : inp) : bool := %s." % (cname, dec))
    L.append("(* final values *)")
    finals = []
    for cvar, d in sorted(se.cur.items()):
        if d in se.inputs and not cvar.startswith("rot"):
            continue
        L.append("Definition out_%s (i : inp) : %s := %s i." % (cvar, ty, d))
        finals.append("out_%s" % cvar)
    L.append("(* versions current when the named variable was (last) assigned *)")
    for k, d in sorted(se.snap.items()):
        L.append("Definition %s (i : inp) : %s := %s i." % (k, ty, d))
        finals.append(k)
    if se.fallback_cond is not None and se.mode == "R":
        cname, then_is_fallback = se.fallback_cond
        if then_is_fallback:
            L.append("Definition fallback (i : inp) : Prop := %s i." % cname)
        else:
            L.append("Definition fallback (i : inp) : Prop := ~ %s i." % cname)
    # constructor with a stable signature: inputs by role (solver result, normalised quaternion); any
    # other input that only exists because a value is not polynomial gets 0
    role = {}
    for f in se.inputs:
        if f.startswith("h_"):
            cv = re.sub(r"_\d+$", "", f[2:])
            if cv == "lambda" and f != "h_lambda":
                role[f] = "lam"
            elif cv in ("q0", "q1", "q2", "q3"):
                role[f] = {"q0": "qa", "q1": "qb", "q2": "qc", "q3": "qd"}[cv]
            else:
                role[f] = "0"
        else:
            role[f] = {"G_x": "gx", "G_y": "gy", "numAtoms": "n"}.get(f, f.lower())
    args = "gx gy n m0 m1 m2 m3 m4 m5 m6 m7 m8 lam" + (" qa qb qc qd" if se.mode == "Z" else "")
    L.append("Definition mkin (%s : %s) : inp := mk %s." % (args, ty, " ".join(role[f] for f in se.inputs)))
    names = [d[0] for d in se.defs] + finals
    L.append("Global Hint Unfold %s : rmsdgen." % " ".join(names))
    if se.conds:
        L.append("Global Hint Unfold %s : rmsdgen_cond." % " ".join(c[0] + ("" if se.mode == "R" else "_b") for c in se.conds))
    L.append("End %s." % modname)
    return "\n".join(L)


def parse_params(params):
    floats, arrays, ints, outs = [], {}, [], []
    for p in params.split(","):
        p = p.strip()
        m = re.match(r"^(const\s+)?(float|int)\s+([A-Za-z_]\w*)\s*(\[\s*(\d+)\s*\])?$", p)
        if not m:
            raise TranslateError("parameter %r outside the grammar" % p)
        const, ty, name, arr, n = m.groups()
        if arr:
            arrays[name] = int(n)
            if not const:
                outs.append(name)
        elif ty == "float":
            floats.append(name)
        else:
            ints.append(name)
    return floats, arrays, ints, outs


def translate_source(text):
    text = strip_comments(text)
    params, body = function_body(text, FUNC)
    floats, arrays, ints, outs = parse_params(params)
    if "computeRot" not in ints or "rot" not in outs or "M" not in arrays:
        raise TranslateError("signature of %s changed: %s" % (FUNC, params))
    ast = Parser(tokenize(body)).block()
    mods = []
    info = {}
    for mode, modname, scope, ty in (("Z", "Zf", "Z_scope", "Z"), ("R", "Rf", "R_scope", "R")):
        se = SymExec(mode, floats, arrays, [p for p in ints if p != "computeRot"], ["computeRot"] + outs)
        # the matrix parameter is an input even if some entry is never read
        for k in range(arrays["M"]):
            se._input("M%d" % k, "M%d" % k)
        se.run(ast)
        if se.ret is None:
            raise TranslateError("no return statement reached")
        for need in ["out_C_0", "out_C_1", "out_C_2", "out_lambda"] + ["out_rot%d" % k for k in range(9)]:
            if need[4:] not in se.cur:
                raise TranslateError("expected variable %s is never assigned" % need[4:])
        for need in ["at_qsqr_q0", "at_qsqr_k00", "at_detK_k00"]:
            if need not in se.snap:
                raise TranslateError("expected snapshot %s missing" % need)
        mods.append(emit_module(modname, se, scope, ty))
        info[mode] = se
    header = ("(* GENERATED by harness/props/C06.py:translate from %s (function %s).\n"
              "   Do not edit: rewritten on every run when the source text changes. *)\n"
              "From Coq Require Import ZArith Reals.\n" % (SRC, FUNC))
    return header + "\n\n".join(mods) + "\n", info


def translate(ctx):
    with open(os.path.join(REPO, SRC)) as fh:
        text = fh.read()
    out, _info = translate_source(text)
    changed = ctx.write_gen("Gen/RmsdFormulas.v", out)
    ctx.notes.setdefault("coverage_extra", {})["translator"] = "ok (%s)" % ("regenerated" if changed else "unchanged")
