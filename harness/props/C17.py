"""C17 -- unit-cell lengths/angles and box vectors describe the same cell; cell presence through histories.

Model   : coq/Cell/Model.v, defined FROM coq/Gen/CellFormulas.v (regenerated on every run by translate() from the
          straight-line arithmetic of mdtraj/utils/unitcell.py: lengths_and_angles_to_box_vectors and
          box_vectors_to_lengths_and_angles), plus the trajectory-level cell bookkeeping of coq/Traj/Model.v.
Theorems: coq/Props/C17.v (real-number algebra with cos/sin of the angles as variables, sg^2 + cg^2 = 1;
          polynomial identities over Z; cell presence over all operation histories).
Tie     : (1) translator: a changed sign / swapped angle / reordered return value changes the generated
              definitions and breaks a named lemma of Cell/Proofs.v;
          (2) correspondence A (formulas): generated cells go through the public API (Trajectory.unitcell_lengths /
              unitcell_angles -> unitcell_vectors / unitcell_volumes; rotated vector descriptions -> unitcell_vectors
              setter -> lengths / angles / volumes; the two utils functions directly) and are compared with an
              independent float64 oracle (Gram matrix entries, orientation, triple product), each named angle
              separately, under stated tolerances;
          (1b) the translator also regenerates lengths_and_angles_to_tilt_factors, the degree-level wrappers and the per-frame glue of
              Trajectory.unitcell_vectors (getter: which stored column feeds which argument, which returned vector becomes which row;
              setter: rows -> arguments -> stored columns; the all-zero tolerance) and pins the text of the guards of
              unitcell_volumes / _check_valid_unitcell / _have_unitcell that coq/Cell/Frames.v models;
          (3) correspondence B (histories): assignment / slice / join / stack / atom_slice histories on real
              trajectories vs the Gallina model (vm_compute), observing which of lengths / angles every register holds,
              _have_unitcell, unitcell_vectors is None, unitcell_volumes, _check_valid_unitcell.
"""
import ast
import math
import os

import numpy as np

from common import REPO, COQ
from props import C03 as T

LEVEL = "proof"
THEOREMS = "Props/C17.v"
EXTRA_TARGETS = ("Traj/Encode.vo", "Gen/CellFormats.vo")
EXTS = []
TRANSLATOR_REQUIRED = False
RULE = ("A: cells with lengths in [0.5, 50] nm and angle triples satisfying 1 - ca^2 - cb^2 - cg^2 + 2 ca cb cg > 0, drawn from "
        "{60, 90, 109.4712, 120} combinations, random triples in [35, 145], near-degenerate triples (relative volume down to "
        "1e-2), per-frame variation (1-4 frames), each also as a randomly rotated vector description; plus ~250 structured "
        "cells in every tier aimed at special-case shortcuts: bit-identical lengths with angles differing per frame (one named "
        "angle only / last frame only / cubic run followed by a hexagonal run of the same edge) and the reverse, first-frame(s)-"
        "cubic runs, each built directly, by join / md.join of separately built segments, by later per-frame reassignment and by "
        "[::-1] slicing; vector descriptions under all 48 signed axis permutations (24 proper rotations of the cube incl. 90/120/180 "
        "degree turns about axes and body diagonals, and their mirror images) on orthorhombic and triclinic cells, zero-diagonal "
        "descriptions, a different rotation per frame, all-but-last-frame-identical descriptions, tiny non-zero entries (1e-14..1e-5); "
        "every per-frame getter is compared with the stored values of THAT frame and with the one-frame slice t[f]; "
        "non-trivial = not all angles equal. B: histories (length <= 6) over {unitcell_vectors = array | zeros | None, unitcell_lengths = array | "
        "None, unitcell_angles = array | None, t[key], slice(copy=False), join, md.join, stack, atom_slice} on 2-3 "
        "trajectories with and without cell, with reads of unitcell_vectors / volumes / lengths / angles / periodic compute_distances as "
        "first-class ops anywhere in between (half of the histories also compare all getters with the stored lengths/angles after "
        "EVERY step); non-trivial = at least one assignment and one structural op. C: one object, 3-9 ops over {read of each getter, "
        "periodic distance, assign lengths | angles | vectors | None, item assignment t.unitcell_lengths[f,i] = x / "
        "t.unitcell_angles[f,i] = x (these getters return the stored array, so this writes the stored cell; de-facto behaviour, "
        "not promised by the docs), scaling the array returned by unitcell_vectors (a temporary: no effect)}; after every op the "
        "four getters must describe the lengths/angles stored at that moment. D (guards): every (lengths stored, angles stored, "
        "negative length, negative angle) state x 1-3 frames x position of the negative entry (values -1e-6 .. -120, and +-0.0 which "
        "must pass) through _check_valid_unitcell, save(.pdb), save(.dcd), unitcell_volumes, _have_unitcell against the Gallina tables "
        "check_valid_code / volumes_code (vm_compute); 11 argument-shape combinations of box_vectors_to_lengths_and_angles; 4 cells "
        "with all angles below 2 pi degrees (documented warning, conversion still done); 24 orthorhombic descriptions scaled by 1 .. 3e-15 "
        "(identity, random signed axis permutation, zero-diagonal permutation) assigned to unitcell_vectors: kept, lengths exact. Every cell of A also goes through "
        "lengths_and_angles_to_tilt_factors (float64 scalars of frame 0; float32 per-frame arrays in one call). Joins that REALLY discard "
        "an overlapping frame (discard_overlapping_frames=True on pieces overlapping by one coinciding frame; method / operand list / "
        "md.join; two or three pieces) in the cell stream (12 cells) and the history stream (40 / 400 histories on registers with and "
        "without cell, after cell assignments). Save/load: every format x {none, triclinic, rectilinear} x {1, 3 frames} x atom counts "
        "{4, 3, 1} (quick) / {4, 3, 1, 5, 9, 23, 2} (thorough); the option runs rotate through the atom counts")
TRUSTED = ["harness/impl/cell_impl.py and traj_impl.py (public-API drivers)",
           "harness/props/C17.py: the ast translator of unitcell.py (decides which source expression becomes which Gallina "
           "term; np.cos(alpha) of the degree->radian converted parameter becomes the variable ca, etc.) and the float64 oracle"]
ASSUMPTIONS = ["theorems are over the reals with cos/sin of the angles as variables constrained by sg^2 + cg^2 = 1, sg > 0: the "
               "degree/radian conversion, arccos and float32 evaluation are outside the theorems and are bounded by the "
               "correspondence: Gram entries |v_i.v_j - l_i l_j cos(theta_ij)| <= 3e-5 l_i l_j + 3e-6 (l_i + l_j) (the second term "
               "covers the 1e-6 snap), read-back lengths 2e-5 relative, read-back angles 2e-3 degree / sin(theta), volumes 2e-4 l_a l_b l_c",
               "Print Assumptions of the real-number theorems lists the standard-library axioms of Coq's reals "
               "(ClassicalDedekindReals.sig_forall_dec, sig_not_dec, FunctionalExtensionality.functional_extensionality_dep; the "
               "degree-level theorems, which use the library's acos, also Classical_Prop.classic)",
               "second layer (Cell/Frames.v): cos, sin, acos are Coq's real functions and np.pi is PI; the list-level relations "
               "set_vectors / check_valid / get_volumes are written by hand from the source, the translator accepts the guards of "
               "trajectory.py only in exactly the form they were written from (any other form: translator degraded, the runs alone tie "
               "the model); real comparisons are not computable, so of this layer only check_valid_code / volumes_code are evaluated "
               "against the implementation (theorems check_valid_table_is_the_relation, volumes_are_triple_products_frame_by_frame)"]


# ----------------------------------------------------------------------------- translator (T2: straight-line arithmetic)
class Untranslatable(Exception):
    pass


def _np_call(e, name):
    return (isinstance(e, ast.Call) and isinstance(e.func, ast.Attribute) and isinstance(e.func.value, ast.Name)
            and e.func.value.id == "np" and e.func.attr == name)


def _is_np_pi(e):
    return isinstance(e, ast.Attribute) and isinstance(e.value, ast.Name) and e.value.id == "np" and e.attr == "pi"


def _num(e, v):
    return isinstance(e, ast.Constant) and isinstance(e.value, (int, float)) and float(e.value) == float(v)


class Arith:
    """symbolic evaluation of the straight-line arithmetic; values are Gallina text over R, vectors are 3-tuples
    of text, ('deg', name) is an angle parameter still in degrees, ('rad', name) after `x * np.pi / 180`,
    ('acos', text) an arccos result in radians, ('acosdeg', text) after `* 180.0 / np.pi`"""

    def __init__(self, env, cosname, sinname):
        self.env = dict(env)
        self.cosname, self.sinname = cosname, sinname
        self.snapped = []
        self.tol = None

    def ev(self, e):
        if isinstance(e, ast.Name):
            if e.id in self.env:
                return self.env[e.id]
            raise Untranslatable("unbound %s" % e.id)
        if isinstance(e, ast.Constant) and isinstance(e.value, (int, float)):
            return self.const(e.value)
        if isinstance(e, ast.UnaryOp) and isinstance(e.op, ast.USub):
            return "(- %s)" % self.scalar(self.ev(e.operand))
        if isinstance(e, ast.BinOp):
            # degree <-> radian conversions are recognised as wholes
            if isinstance(e.op, ast.Div) and isinstance(e.left, ast.BinOp) and isinstance(e.left.op, ast.Mult):
                x = self.ev(e.left.left)
                if isinstance(x, tuple) and x[0] == "deg" and _is_np_pi(e.left.right) and _num(e.right, 180):
                    return ("rad", x[1])
                if isinstance(x, tuple) and x[0] == "acos" and _num(e.left.right, 180) and _is_np_pi(e.right):
                    return ("acosdeg", x[1])
            if isinstance(e.op, ast.Pow):
                if not _num(e.right, 2):
                    raise Untranslatable("power other than 2")
                x = self.scalar(self.ev(e.left))
                return "(%s * %s)" % (x, x)
            a, b = self.ev(e.left), self.ev(e.right)
            if isinstance(e.op, ast.Mult) and self.isvec(a) and self.isvec(b):
                return ("prod", a, b)                      # elementwise product, only legal inside np.sum
            a, b = self.scalar(a), self.scalar(b)
            op = {ast.Add: "+", ast.Sub: "-", ast.Mult: "*", ast.Div: "/"}.get(type(e.op))
            if op is None:
                raise Untranslatable("operator")
            return "(%s %s %s)" % (a, op, b)
        if _np_call(e, "deg2rad") and len(e.args) == 1:
            x = self.ev(e.args[0])
            if isinstance(x, tuple) and x[0] == "deg":
                return ("rad", x[1])
            raise Untranslatable("deg2rad of something that is not an angle argument")
        if _np_call(e, "cos") or _np_call(e, "sin"):
            x = self.ev(e.args[0])
            if not (isinstance(x, tuple) and x[0] == "rad"):
                raise Untranslatable("cos/sin of something that is not a converted angle parameter")
            table = self.cosname if e.func.attr == "cos" else self.sinname
            if x[1] not in table:
                raise Untranslatable("%s(%s) has no variable in the model" % (e.func.attr, x[1]))
            return table[x[1]]
        if _np_call(e, "sqrt"):
            return "(sqrt %s)" % self.scalar(self.ev(e.args[0]))
        if _np_call(e, "zeros_like"):
            return "0"
        if _np_call(e, "array") and len(e.args) == 1 and isinstance(e.args[0], ast.List) and len(e.args[0].elts) == 3:
            return ("vec",) + tuple(self.scalar(self.ev(x)) for x in e.args[0].elts)
        if _np_call(e, "sum") and len(e.args) == 1:
            x = self.ev(e.args[0])
            if isinstance(x, tuple) and x[0] == "prod":
                return "(dot %s %s)" % (self.vec(x[1]), self.vec(x[2]))
            raise Untranslatable("np.sum of a non-product")
        if _np_call(e, "einsum") and len(e.args) == 3 and isinstance(e.args[0], ast.Constant) \
                and e.args[0].value.replace(" ", "") == "...i,...i":
            return "(dot %s %s)" % (self.vec(self.ev(e.args[1])), self.vec(self.ev(e.args[2])))
        if _np_call(e, "arccos"):
            return ("acos", self.scalar(self.ev(e.args[0])))
        raise Untranslatable("expression " + ast.dump(e)[:90])

    @staticmethod
    def const(v):
        if float(v) == int(v):
            return "%d" % int(v)
        raise Untranslatable("non-integer constant %r" % v)

    @staticmethod
    def isvec(x):
        return isinstance(x, tuple) and x[0] in ("vec", "vecvar")

    @staticmethod
    def vec(x):
        if isinstance(x, tuple) and x[0] == "vecvar":
            return x[1]
        if isinstance(x, tuple) and x[0] == "vec":
            return "(%s, %s, %s)" % x[1:]
        raise Untranslatable("vector expected")

    @staticmethod
    def scalar(x):
        if isinstance(x, str):
            return x
        raise Untranslatable("scalar expected, got %r" % (x,))


def func_body(tree, name):
    for n in tree.body:
        if isinstance(n, ast.FunctionDef) and n.name == name:
            return n
    raise Untranslatable("function %s not found" % name)


def translate_to_vectors(fn):
    args = [a.arg for a in fn.args.args]
    if len(args) != 6:
        raise Untranslatable("signature of lengths_and_angles_to_box_vectors")
    # the parameters by POSITION: lengths a, b, c then the angles alpha (b^c), beta (c^a), gamma (a^b)
    env = {args[0]: "la", args[1]: "lb", args[2]: "lc", args[3]: ("deg", "alpha"), args[4]: ("deg", "beta"), args[5]: ("deg", "gamma")}
    ar = Arith(env, {"alpha": "ca", "beta": "cb", "gamma": "cg"}, {"gamma": "sg"})
    ret = None
    for st in fn.body:
        if isinstance(st, ast.Expr) and isinstance(st.value, ast.Constant):
            continue
        if isinstance(st, ast.If):
            if any(isinstance(x, (ast.Assign, ast.Return)) for x in ast.walk(st)):
                raise Untranslatable("assignment inside a check")
            continue                                            # radians warning, shape check
        if isinstance(st, ast.Assign) and len(st.targets) == 1:
            t = st.targets[0]
            if isinstance(t, ast.Name):
                if t.id == "tol":
                    if not (isinstance(st.value, ast.Constant) and st.value.value == 1e-6):
                        raise Untranslatable("tol is not 1e-6")
                    ar.tol = "1e-6"
                    continue
                ar.env[t.id] = ar.ev(st.value)
                continue
            if isinstance(t, ast.Subscript) and isinstance(t.value, ast.Name) and _num(st.value, 0):
                # X[np.logical_and(X > -tol, X < tol)] = 0.0
                v = t.value.id
                s = ast.unparse(t.slice).replace(" ", "")
                if s != "np.logical_and(%s>-tol,%s<tol)" % (v, v):
                    raise Untranslatable("snap pattern " + s)
                ar.snapped.append(v)
                continue
        if isinstance(st, ast.Return):
            if not (isinstance(st.value, ast.Tuple) and len(st.value.elts) == 3):
                raise Untranslatable("return")
            ret = []
            for x in st.value.elts:
                if not (isinstance(x, ast.Attribute) and x.attr == "T" and isinstance(x.value, ast.Name)):
                    raise Untranslatable("return element")
                ret.append(x.value.id)
            continue
        raise Untranslatable("statement " + ast.dump(st)[:80])
    if ret is None or ar.tol is None or sorted(ar.snapped) != sorted(ret):
        raise Untranslatable("return / snap structure")
    vecs = []
    for name in ret:
        v = ar.env.get(name)
        if not (isinstance(v, tuple) and v[0] == "vec"):
            raise Untranslatable("%s is not a 3-vector" % name)
        vecs.append(v[1:])
    return vecs


def translate_from_vectors(fn):
    args = [a.arg for a in fn.args.args]
    if len(args) != 3:
        raise Untranslatable("signature of box_vectors_to_lengths_and_angles")
    env = {args[0]: ("vecvar", "a"), args[1]: ("vecvar", "b"), args[2]: ("vecvar", "c")}
    ar = Arith(env, {}, {})
    ret = None
    for st in fn.body:
        if isinstance(st, ast.Expr) and isinstance(st.value, ast.Constant):
            continue
        if isinstance(st, ast.If):
            if any(isinstance(x, (ast.Assign, ast.Return)) for x in ast.walk(st)):
                raise Untranslatable("assignment inside a check")
            continue
        if isinstance(st, ast.Assign) and len(st.targets) == 1 and isinstance(st.targets[0], ast.Name):
            if st.targets[0].id == "last_dim":
                continue
            ar.env[st.targets[0].id] = ar.ev(st.value)
            continue
        if isinstance(st, ast.Return):
            if not (isinstance(st.value, ast.Tuple) and len(st.value.elts) == 6 and all(isinstance(x, ast.Name) for x in st.value.elts)):
                raise Untranslatable("return")
            ret = [ar.env[x.id] for x in st.value.elts]
            continue
        raise Untranslatable("statement " + ast.dump(st)[:80])
    if ret is None:
        raise Untranslatable("no return")
    lens = [Arith.scalar(x) for x in ret[:3]]
    coss = []
    for x in ret[3:]:
        if not (isinstance(x, tuple) and x[0] == "acosdeg"):
            raise Untranslatable("angle is not arccos(..) * 180 / pi")
        coss.append(x[1])
    return lens, coss


def translate_tilt(fn):
    """lengths_and_angles_to_tilt_factors -> the six returned expressions (return order) over la lb lc ca cb cg"""
    args = [a.arg for a in fn.args.args]
    if len(args) != 6:
        raise Untranslatable("signature of lengths_and_angles_to_tilt_factors")
    env = {args[0]: "la", args[1]: "lb", args[2]: "lc", args[3]: ("deg", "alpha"), args[4]: ("deg", "beta"), args[5]: ("deg", "gamma")}
    ar = Arith(env, {"alpha": "ca", "beta": "cb", "gamma": "cg"}, {})
    ret = None
    for st in fn.body:
        if isinstance(st, ast.Expr) and isinstance(st.value, ast.Constant):
            continue
        if isinstance(st, ast.Assign) and len(st.targets) == 1 and isinstance(st.targets[0], ast.Name):
            ar.env[st.targets[0].id] = ar.ev(st.value)
            continue
        if isinstance(st, ast.Return):
            v = st.value
            if not (_np_call(v, "array") and len(v.args) == 1 and isinstance(v.args[0], ast.List) and len(v.args[0].elts) == 6):
                raise Untranslatable("return of tilt factors")
            ret = [Arith.scalar(ar.ev(x)) for x in v.args[0].elts]
            continue
        raise Untranslatable("statement " + ast.dump(st)[:80])
    if ret is None:
        raise Untranslatable("no return")
    return ret


def _norm(node):
    return ast.unparse(node).replace(" ", "").replace("\n", "")


def _props(cls, name):
    """(getter, setter) FunctionDefs of a property of the class"""
    g = s_ = None
    for n in cls.body:
        if isinstance(n, ast.FunctionDef) and n.name == name:
            decs = [_norm(d) for d in n.decorator_list]
            if decs == ["property"]:
                g = n
            elif decs == ["%s.setter" % name]:
                s_ = n
    return g, s_


def _body(fn):
    return [st for st in fn.body if not (isinstance(st, ast.Expr) and isinstance(st.value, ast.Constant))]


def translate_glue(src_text):
    """the per-frame plumbing of Trajectory.unitcell_vectors (getter, setter), unitcell_volumes and
    _check_valid_unitcell.  -> dict(getter_args=[(field, column)] * 6, getter_rows=[index of returned vector] * 3,
    setter_rows=[row index] * 3 (argument order), setter_unpack=[names] * 6, setter_lengths=[names] * 3,
    setter_angles=[names] * 3, zero_tol=str).  The guards are accepted in exactly the form the model (Cell/Frames.v)
    was written from; any other form is Untranslatable."""
    tree = ast.parse(src_text)
    cls = [n for n in tree.body if isinstance(n, ast.ClassDef) and n.name == "Trajectory"][0]
    g, st_ = _props(cls, "unitcell_vectors")
    if g is None or st_ is None:
        raise Untranslatable("unitcell_vectors property")
    out = {}
    # ---- getter
    b = _body(g)
    if len(b) != 3 or _norm(b[0]) != "ifself._unitcell_lengthsisNoneorself._unitcell_anglesisNone:returnNone":
        raise Untranslatable("unitcell_vectors getter: guard")
    call = b[1]
    if not (isinstance(call, ast.Assign) and isinstance(call.targets[0], ast.Tuple) and len(call.targets[0].elts) == 3
            and isinstance(call.value, ast.Call) and _norm(call.value.func) == "lengths_and_angles_to_box_vectors"
            and len(call.value.args) == 6 and not call.value.keywords):
        raise Untranslatable("unitcell_vectors getter: conversion call")
    names = [x.id for x in call.targets[0].elts]
    args = []
    for a in call.value.args:
        t = _norm(a)
        ok = False
        for field, key in (("_unitcell_lengths", "l"), ("_unitcell_angles", "a")):
            for k in range(3):
                if t == "self.%s[:,%d]" % (field, k):
                    args.append((key, k))
                    ok = True
        if not ok:
            raise Untranslatable("unitcell_vectors getter: argument " + t)
    out["getter_args"] = args
    r = b[2]
    if not (isinstance(r, ast.Return) and _np_call(r.value, "swapaxes") and len(r.value.args) == 3
            and _num(r.value.args[1], 1) and _num(r.value.args[2], 2) and _np_call(r.value.args[0], "dstack")
            and len(r.value.args[0].args) == 1 and isinstance(r.value.args[0].args[0], ast.Tuple)):
        raise Untranslatable("unitcell_vectors getter: return")
    rows = [x.id for x in r.value.args[0].args[0].elts]
    if len(rows) != 3 or any(x not in names for x in rows):
        raise Untranslatable("unitcell_vectors getter: stacked names")
    out["getter_names"], out["getter_rows"] = names, rows
    # ---- setter
    b = _body(st_)
    arg = st_.args.args[1].arg
    if len(b) != 8:
        raise Untranslatable("unitcell_vectors setter: %d statements" % len(b))
    g0 = _norm(b[0])
    import re as _re
    m = _re.fullmatch(r"if%sisNoneornp\.all\(np\.abs\(%s\)<([0-9.e+-]+)\):self\._unitcell_lengths=Noneself\._unitcell_angles=Nonereturn" % (arg, arg), g0)
    if not m:
        raise Untranslatable("unitcell_vectors setter: all-zero guard " + g0[:80])
    tol = float(m.group(1))
    from fractions import Fraction
    inv = Fraction(1) / Fraction(m.group(1))
    if inv.denominator != 1 or not (0 < tol < 1):
        raise Untranslatable("all-zero tolerance %r is not 1/integer" % m.group(1))
    out["zero_tol"] = "/ %d" % inv.numerator
    if _norm(b[1]) not in ("ifnotlen(%s)==len(self):raiseTypeError('unitcell_vectorsmustbethesamelengthasthetrajectory.youprovided%%s'%%str(%s))" % (arg, arg),):
        if not _norm(b[1]).startswith("ifnotlen(%s)==len(self):raiseTypeError(" % arg):
            raise Untranslatable("unitcell_vectors setter: length guard")
    rowvar = {}
    for st in b[2:5]:
        t = _norm(st)
        m = _re.fullmatch(r"([A-Za-z_0-9]+)=%s\[:,([012]),:\]" % arg, t)
        if not m:
            raise Untranslatable("unitcell_vectors setter: row " + t)
        rowvar[m.group(1)] = int(m.group(2))
    call = b[5]
    if not (isinstance(call, ast.Assign) and isinstance(call.targets[0], ast.Tuple) and len(call.targets[0].elts) == 6
            and isinstance(call.value, ast.Call) and _norm(call.value.func) == "box_vectors_to_lengths_and_angles"
            and len(call.value.args) == 3 and all(isinstance(x, ast.Name) and x.id in rowvar for x in call.value.args)):
        raise Untranslatable("unitcell_vectors setter: conversion call")
    out["setter_rowvars"] = [(k, v) for k, v in rowvar.items()]
    out["setter_call"] = [x.id for x in call.value.args]
    out["setter_unpack"] = [x.id for x in call.targets[0].elts]
    for st, key, field in ((b[6], "setter_lengths", "_unitcell_lengths"), (b[7], "setter_angles", "_unitcell_angles")):
        m = _re.fullmatch(r"self\.%s=np\.vstack\(\(([A-Za-z_0-9]+),([A-Za-z_0-9]+),([A-Za-z_0-9]+)\)\)\.T" % field, _norm(st))
        if not m or any(x not in out["setter_unpack"] for x in m.groups()):
            raise Untranslatable("unitcell_vectors setter: " + _norm(st)[:60])
        out[key] = list(m.groups())
    if len(set(out["setter_unpack"])) != 6:
        raise Untranslatable("unitcell_vectors setter: unpack names")
    # ---- unitcell_volumes and _check_valid_unitcell: accepted only in the form Cell/Frames.v models
    gv, _s = _props(cls, "unitcell_volumes")
    if gv is None or [_norm(x) for x in _body(gv)] != [
            "ifself.unitcell_lengthsisnotNone:returnnp.array(list(map(np.linalg.det,self.unitcell_vectors)),dtype=np.float64)else:returnNone"]:
        raise Untranslatable("unitcell_volumes")
    cv = [n for n in cls.body if isinstance(n, ast.FunctionDef) and n.name == "_check_valid_unitcell"]
    want = ["ifself.unitcell_lengthsisnotNoneandself.unitcell_anglesisNone:raiseAttributeError('unitcelllengthdataexists,butnoangles')",
            "ifself.unitcell_lengthsisNoneandself.unitcell_anglesisnotNone:raiseAttributeError('unitcellanglesdataexists,butnolengths')",
            "ifself.unitcell_lengthsisnotNoneandnp.any(self.unitcell_lengths<0):raiseValueError('unitcelllength<0')",
            "ifself.unitcell_anglesisnotNoneandnp.any(self.unitcell_angles<0):raiseValueError('unitcellangle<0')"]
    if len(cv) != 1 or [_norm(x) for x in _body(cv[0])] != want:
        raise Untranslatable("_check_valid_unitcell")
    hv = _props(cls, "_have_unitcell")[0]
    if hv is None or [_norm(x) for x in _body(hv)] != ["returnself._unitcell_lengthsisnotNoneandself._unitcell_anglesisnotNone"]:
        raise Untranslatable("_have_unitcell")
    return out


def glue_text(g):
    L = ["", "(* ---- the glue of mdtraj/core/trajectory.py, one frame: Trajectory.unitcell_vectors getter (which stored column goes to which",
         "   argument; which returned vector becomes which row) and setter (which row goes to which argument; which returned number",
         "   goes to which stored column), before the snap *)",
         "Definition gen_getter_frame (l a : R * R * R) : (R * R * R) * (R * R * R) * (R * R * R) :=",
         "  let '(l0, l1, l2) := l in let '(a0, a1, a2) := a in",
         "  let '(%s) := gen_to_vectors_deg %s in" % (", ".join(g["getter_names"]), " ".join("%s%d" % fk for fk in g["getter_args"])),
         "  (%s)." % ", ".join(g["getter_rows"]), "",
         "Definition gen_setter_frame (m : (R * R * R) * (R * R * R) * (R * R * R)) : (R * R * R) * (R * R * R) :=",
         "  let '(r0, r1, r2) := m in",
         "  " + " ".join("let %s := r%d in" % kv for kv in g["setter_rowvars"]),
         "  let '((%s), (%s)) := gen_from_vectors_deg %s in" % (", ".join(g["setter_unpack"][:3]), ", ".join(g["setter_unpack"][3:]), " ".join(g["setter_call"])),
         "  ((%s), (%s))." % (", ".join(g["setter_lengths"]), ", ".join(g["setter_angles"])), "",
         "(* `vectors is None or np.all(np.abs(vectors) < 1e-15)` *)",
         "Definition gen_zero_tol : R := %s." % g["zero_tol"]]
    return "\n".join(L) + "\n"


def deg_tilt_text(tilt):
    L = ["", "(* ---- the same two functions with the angles themselves (degrees) as arguments: the source converts with",
         "   `x * np.pi / 180` before np.cos / np.sin and with `np.arccos(.) * 180.0 / np.pi` on the way back (the translator accepts",
         "   exactly these two forms) *)",
         "Definition gen_deg2rad (x : R) : R := x * PI / 180.",
         "Definition gen_rad2deg (x : R) : R := x * 180 / PI.", "",
         "Definition gen_to_vectors_deg (la lb lc alpha beta gamma : R) : (R * R * R) * (R * R * R) * (R * R * R) :=",
         "  gen_to_vectors la lb lc (cos (gen_deg2rad alpha)) (cos (gen_deg2rad beta)) (cos (gen_deg2rad gamma)) (sin (gen_deg2rad gamma)).", "",
         "Definition gen_from_vectors_deg (a b c : R * R * R) : R * R * R * (R * R * R) :=",
         "  let '(l, (x, y, z)) := gen_from_vectors a b c in",
         "  (l, (gen_rad2deg (acos x), gen_rad2deg (acos y), gen_rad2deg (acos z))).", "",
         "(* ---- lengths_and_angles_to_tilt_factors: the six returned numbers in return order (lx, ly, lz, xy, xz, yz);",
         "   ca cb cg: np.cos(np.deg2rad(.)) of the 4th, 5th, 6th argument *)",
         "Definition gen_tilt_factors (la lb lc ca cb cg : R) : R * R * R * R * R * R :=",
         "  (%s)." % ",\n   ".join(tilt)]
    return "\n".join(L) + "\n"


def gen_text(vecs, lens, coss):
    L = ["(* GENERATED on every run by harness/props/C17.py:translate from mdtraj/utils/unitcell.py -- do not edit.",
         "   Straight-line arithmetic of lengths_and_angles_to_box_vectors (before the 1e-6 snap) and of",
         "   box_vectors_to_lengths_and_angles.  la lb lc: the three lengths by argument position; ca cb cg: np.cos of the",
         "   4th, 5th, 6th argument (after `x * np.pi / 180`); sg: np.sin of the 6th.  For the inverse the cosines",
         "   handed to np.arccos are emitted (the angles are arccos(.) * 180 / pi of them).  The order of the components",
         "   follows the order of the return statements. *)",
         "From Coq Require Import Reals.", "Open Scope R_scope.", "",
         "Definition dot (u v : R * R * R) : R :=",
         "  let '(u1, u2, u3) := u in let '(v1, v2, v3) := v in u1 * v1 + u2 * v2 + u3 * v3.", ""]
    L.append("Definition gen_to_vectors (la lb lc ca cb cg sg : R) : (R * R * R) * (R * R * R) * (R * R * R) :=")
    L.append("  (%s)." % ",\n   ".join("(%s, %s, %s)" % v for v in vecs))
    L.append("")
    L.append("Definition gen_from_vectors (a b c : R * R * R) : R * R * R * (R * R * R) :=")
    L.append("  ((%s),\n   (%s))." % (",\n    ".join(lens), ",\n    ".join(coss)))
    L.append("")
    L.append("Definition gen_snap_tol : R := / 1000000.")
    return "\n".join(L) + "\n"


ROUTE_KW = {"cell_lengths", "cell_angles", "unitcell_lengths", "unitcell_angles"}


def translate_savers(src_text):
    """[(extension, route)] from Trajectory._savers and the keyword arguments / attributes each save_* method uses:
    RVectors (box vectors), RLengthsAngles, RLengthsOnly, RNothing"""
    tree = ast.parse(src_text)
    cls = [n for n in tree.body if isinstance(n, ast.ClassDef) and n.name == "Trajectory"][0]
    meth = {n.name: n for n in cls.body if isinstance(n, ast.FunctionDef)}
    ret = [x for x in ast.walk(meth["_savers"]) if isinstance(x, ast.Dict)]
    if len(ret) != 1:
        raise Untranslatable("_savers does not return one dict literal")
    out = []
    for k, v in zip(ret[0].keys, ret[0].values):
        if not (isinstance(k, ast.Constant) and isinstance(v, ast.Attribute) and isinstance(v.value, ast.Name) and v.value.id == "self"):
            raise Untranslatable("_savers entry")
        m = meth[v.attr]
        kws = {x.arg for x in ast.walk(m) if isinstance(x, ast.keyword) and x.arg}
        attrs = {x.attr for x in ast.walk(m) if isinstance(x, ast.Attribute)}
        if "box" in kws or ("unitcell_vectors" in attrs and not (kws & ROUTE_KW)):
            route = "RVectors"
        elif {"cell_lengths", "cell_angles"} <= kws or {"unitcell_lengths", "unitcell_angles"} <= kws:
            route = "RLengthsAngles"
        elif "cell_lengths" in kws:
            route = "RLengthsOnly"
        elif not (attrs & {"unitcell_lengths", "unitcell_angles", "unitcell_vectors", "_unitcell_lengths", "_unitcell_angles"}):
            route = "RNothing"
        else:
            raise Untranslatable("cell route of %s" % v.attr)
        out.append((k.value, route))
    return out


def translate_saver_options(src_text):
    """[(save_* method, [keyword arguments besides the file name])] for every method registered in _savers"""
    tree = ast.parse(src_text)
    cls = [n for n in tree.body if isinstance(n, ast.ClassDef) and n.name == "Trajectory"][0]
    meth = {n.name: n for n in cls.body if isinstance(n, ast.FunctionDef)}
    ret = [x for x in ast.walk(meth["_savers"]) if isinstance(x, ast.Dict)][0]
    names = []
    for v in ret.values:
        if v.attr not in names:
            names.append(v.attr)
    out = []
    for nm in names:
        a = meth[nm].args
        if a.vararg or a.kwarg:
            raise Untranslatable("%s takes *args/**kwargs" % nm)
        out.append((nm, [x.arg for x in a.args[2:]] + [x.arg for x in a.kwonlyargs]))
    return out


def translate(ctx):
    with open(os.path.join(REPO, "mdtraj", "core", "trajectory.py")) as fh:
        txt = fh.read()
    savers = translate_savers(txt)
    opts = translate_saver_options(txt)
    ctx.write_gen("Gen/CellFormats.v", "\n".join([
        "(* GENERATED on every run by harness/props/C17.py:translate from Trajectory._savers and the save_* methods of",
        "   mdtraj/core/trajectory.py -- do not edit.  Which route each registered extension uses to hand the cell to its writer. *)",
        "From Coq Require Import List String.", "Import ListNotations.", "Require Import MD.Cell.Formats.", "Open Scope string_scope.", "",
        "Definition source_savers : list (string * route) :=",
        "  [" + ";\n   ".join('("%s", %s)' % er for er in savers) + "].", "",
        "(* the hand-written table of MD.Cell.Formats describes exactly the formats the source registers *)",
        "Lemma format_table_matches_source : table_matches_source source_savers = true.",
        "Proof. vm_compute. reflexivity. Qed.", "",
        "(* the keyword arguments of the registered save_* methods: each is one of the options the table declares cell-neutral",
        "   (and that the runs exercise) *)",
        "Definition source_saver_options : list (string * list string) :=",
        "  [" + ";\n   ".join('("%s", [%s])' % (nm, "; ".join('"%s"' % o for o in os_)) for nm, os_ in opts) + "].", "",
        "Lemma saver_options_known : options_known source_saver_options = true.",
        "Proof. vm_compute. reflexivity. Qed.", ""]))
    path = os.path.join(REPO, "mdtraj", "utils", "unitcell.py")
    with open(path) as fh:
        tree = ast.parse(fh.read())
    try:
        vecs = translate_to_vectors(func_body(tree, "lengths_and_angles_to_box_vectors"))
        lens, coss = translate_from_vectors(func_body(tree, "box_vectors_to_lengths_and_angles"))
        tilt = translate_tilt(func_body(tree, "lengths_and_angles_to_tilt_factors"))
        glue = translate_glue(txt)
    except Untranslatable:
        # keep the last generated definitions (the model is defined from them); the tie is the correspondence
        raise
    ctx.write_gen("Gen/CellFormulas.v", gen_text(vecs, lens, coss) + deg_tilt_text(tilt) + glue_text(glue))
    ctx.notes["translator"] = "ok"


# ----------------------------------------------------------------------------- correspondence A: the formulas
def f32(x):
    return float(np.float32(x))


def gram_of(al, be, ga):
    ca, cb, cg = (math.cos(math.radians(x)) for x in (al, be, ga))
    return 1 - ca * ca - cb * cb - cg * cg + 2 * ca * cb * cg


SPECIAL = [60.0, 90.0, 109.4712206, 120.0]


def gen_angles(rng, kind):
    for _ in range(1000):
        if kind == "special":
            t = [rng.choice(SPECIAL) for _ in range(3)]
        elif kind == "random":
            t = [rng.uniform(35.0, 145.0) for _ in range(3)]
        else:  # near-degenerate: gamma close to the boundary of the admissible interval
            a, b = rng.uniform(40.0, 140.0), rng.uniform(40.0, 140.0)
            lo, hi = abs(a - b), min(a + b, 360.0 - a - b)
            d = rng.choice([0.05, 0.2, 1.0, 3.0])
            g = (lo + d) if rng.random() < 0.5 else (hi - d)
            t = [a, b, g]
            rng.shuffle(t)
        t = [f32(x) for x in t]
        if all(5.0 < x < 175.0 for x in t) and gram_of(*t) > 1e-4:
            return t
    return [90.0, 90.0, 90.0]


def rand_rotation(rng):
    q = np.array([rng.gauss(0, 1) for _ in range(4)])
    q /= np.linalg.norm(q)
    w, x, y, z = q
    return np.array([[1 - 2 * (y * y + z * z), 2 * (x * y - z * w), 2 * (x * z + y * w)],
                     [2 * (x * y + z * w), 1 - 2 * (x * x + z * z), 2 * (y * z - x * w)],
                     [2 * (x * z - y * w), 2 * (y * z + x * w), 1 - 2 * (x * x + y * y)]])


def oracle_vectors(L, A):
    """independent float64 construction of the standard-orientation vectors (rows a, b, c) from the definition:
    a on +x; b in the xy-plane at angle gamma from a; c from its two prescribed dot products, cz >= 0"""
    la, lb, lc = L
    al, be, ga = (math.radians(x) for x in A)
    a = np.array([la, 0.0, 0.0])
    b = np.array([lb * math.cos(ga), lb * math.sin(ga), 0.0])
    cx = lc * math.cos(be)                                  # c.a = la lc cos(beta)
    cy = (lb * lc * math.cos(al) - b[0] * cx) / b[1]        # c.b = lb lc cos(alpha)
    cz = math.sqrt(max(lc * lc - cx * cx - cy * cy, 0.0))
    return np.array([a, b, [cx, cy, cz]])


def signed_permutations():
    """the 48 signed permutation matrices: 24 proper rotations of the cube (quarter/half turns about the axes, 120
    degree turns about the body diagonals, half turns about the face diagonals) and their 24 mirror images"""
    import itertools
    out = []
    for perm in itertools.permutations(range(3)):
        for signs in itertools.product((1.0, -1.0), repeat=3):
            m = np.zeros((3, 3))
            for i, (p, sg) in enumerate(zip(perm, signs)):
                m[i, p] = sg
            out.append(m)
    return out


def small_rotation(rng, angle):
    ax = np.array([rng.gauss(0, 1) for _ in range(3)])
    ax /= np.linalg.norm(ax)
    K = np.array([[0, -ax[2], ax[1]], [ax[2], 0, -ax[0]], [-ax[1], ax[0], 0]])
    return np.eye(3) + math.sin(angle) * K + (1 - math.cos(angle)) * (K @ K)


def describe(L, A, Rs):
    """per-frame rotated description (rows R_f a, R_f b, R_f c), rounded to float32"""
    rot = []
    for f in range(len(L)):
        V = oracle_vectors(L[f], A[f])
        R = Rs[f] if isinstance(Rs, list) else Rs
        rot.append([[f32(x) for x in (R @ V[i])] for i in range(3)])
    return rot


def structured_cells(rng):
    """inputs aimed at special-case shortcuts (run in every tier): constancy across frames in one of lengths/angles
    only, decisions taken on the first (or the first two) frames, all-90 shortcuts, trajectories assembled by join /
    reassignment / slicing, and vector descriptions with zeros in every possible pattern (all 48 signed axis
    permutations, zero diagonal, different rotation per frame, tiny non-zero entries)"""
    P = signed_permutations()
    cells = []

    def add(L, A, Rs, kind, **kw):
        L = [[f32(x) for x in r] for r in L]
        A = [[f32(x) for x in r] for r in A]
        cells.append(dict({"lengths": L, "angles": A, "rotated": describe(L, A, Rs), "kind": kind}, **kw))

    def tri():
        return gen_angles(rng, "random")

    def lens():
        return [rng.uniform(0.5, 50.0) for _ in range(3)]

    vias = ["direct", "reassign", "reverse", "setattr_angles"]
    # -- constant lengths (bit-identical), angles differ between frames; every construction route
    for i in range(24):
        nf = rng.choice([2, 3, 4])
        l0 = lens() if i % 3 else [rng.uniform(2.0, 6.0)] * 3
        L = [l0] * nf
        if i % 4 == 0:      # cubic run followed by a hexagonal / sheared run of the same edge
            A = [[90.0, 90.0, 90.0]] * (nf - 1) + [rng.choice([[90.0, 90.0, 120.0], [90.0, 90.0, 60.0], [60.0, 60.0, 60.0], tri()])]
        elif i % 4 == 1:    # only ONE named angle varies
            k = rng.randrange(3)
            base = tri()
            A = []
            for f in range(nf):
                a = list(base)
                a[k] = base[k] + (f * rng.choice([-4.0, 3.0, 7.0]))
                A.append(a if gram_of(*a) > 1e-3 and 5 < a[k] < 175 else base)
        elif i % 4 == 2:    # all frames equal except the LAST one
            base = tri()
            A = [base] * (nf - 1) + [tri()]
        else:
            A = [tri() for _ in range(nf)]
        add(L, A, rand_rotation(rng), "const-lengths", via=vias[i % 4])
        if nf >= 2:
            k = rng.randint(1, nf - 1)
            add(L, A, rand_rotation(rng), "const-lengths/join", via="join", split=[k, nf - k])
    # -- joins that really discard an overlapping frame (discard_overlapping_frames=True, coinciding boundary frames): every
    #    remaining frame keeps its own cell; by the method, by a list of operands, by md.join; two and three segments
    for i in range(12):
        nf = rng.choice([3, 4, 5])
        L = [lens() for _ in range(nf)]
        A = [tri() if i % 3 else [90.0, 90.0, 90.0] for _ in range(nf)]
        if i % 2:
            k = rng.randint(1, nf - 1)
            split = [k, nf - k]
        else:
            k1 = rng.randint(1, nf - 2)
            k2 = rng.randint(1, nf - k1 - 1)
            split = [k1, k2, nf - k1 - k2]
        add(L, A, rand_rotation(rng), "join-discarding-overlap", via="join_overlap", split=split, how=["method", "list", "mdjoin"][i % 3])
    # -- constant angles, lengths differ (incl. all-90 cells and first-frame-cubic runs)
    for i in range(16):
        nf = rng.choice([2, 3, 4])
        A = [[90.0, 90.0, 90.0] if i % 2 else tri()] * nf
        L = [lens() for _ in range(nf)]
        if i % 4 == 0:
            L = [L[0]] * (nf - 1) + [lens()]       # only the last frame differs
        add(L, A, rand_rotation(rng), "const-angles", via=vias[i % 4])
        add(L, A, rand_rotation(rng), "const-angles/join", via="join", split=[1, nf - 1])
    # -- the first frame (or the first two) decides nothing: cubic first, triclinic later; and the reverse
    for i in range(12):
        nf = rng.choice([3, 4])
        l0 = lens()
        first = [[90.0, 90.0, 90.0]] * (1 + i % 2)
        A = first + [tri() for _ in range(nf - len(first))]
        L = [l0] * nf if i % 3 else [lens() for _ in range(nf)]
        if i % 4 == 3:
            A, L = A[::-1], L[::-1]
        add(L, A, rand_rotation(rng), "first-frame-special", via=vias[i % 4])
    # -- structured descriptions: all 48 signed axis permutations on orthorhombic AND triclinic cells
    for j, M in enumerate(P):
        ortho = [lens()]
        add(ortho, [[90.0, 90.0, 90.0]], M, "axis-permutation/ortho")
        add([lens()], [tri()], M, "axis-permutation/triclinic")
    # zero diagonal explicitly (cyclic permutations and their signed variants), several frames, rotation differing per frame
    zero_diag = [M for M in P if abs(M[0, 0]) + abs(M[1, 1]) + abs(M[2, 2]) == 0]
    for j, M in enumerate(zero_diag):
        nf = 1 + j % 3
        add([lens() for _ in range(nf)], [[90.0, 90.0, 90.0]] * nf, M, "zero-diagonal")
    for j in range(16):
        nf = rng.choice([2, 3])
        Rs = [P[rng.randrange(len(P))] for _ in range(nf)]
        if j % 2 == 0:
            Rs[0] = zero_diag[rng.randrange(len(zero_diag))]            # the first frame alone has a zero diagonal
        add([lens() for _ in range(nf)], [tri() if j % 4 else [90.0, 90.0, 90.0] for _ in range(nf)], Rs, "per-frame-rotation")
    # identical descriptions in all frames but the last
    for j in range(6):
        nf = 3
        l0, a0 = lens(), tri()
        R = rand_rotation(rng)
        add([l0, l0, lens()], [a0, a0, tri()], [R, R, rand_rotation(rng)], "setter-last-frame-differs")
    # tiny but non-zero entries: a signed permutation turned by 1e-9 .. 1e-5 rad, and explicit 1e-12 on a zero diagonal
    for j in range(16):
        M = P[rng.randrange(len(P))] @ small_rotation(rng, 10.0 ** rng.uniform(-9, -5))
        add([lens()], [[90.0, 90.0, 90.0] if j % 2 else tri()], M, "tiny-entries")
    for j, M in enumerate(zero_diag[:6]):
        L, A = [[f32(x) for x in lens()]], [[90.0, 90.0, 90.0]]
        rot = describe(L, A, M)
        for k in range(3):
            rot[0][k][k] = f32(rng.choice([1e-12, -1e-12, 1e-9, 3e-14]))
        cells.append({"lengths": L, "angles": A, "rotated": rot, "kind": "tiny-entries"})
    return cells


def build_cells(ctx):
    rng = ctx.rng
    quick = ctx.tier == "quick"
    n = 500 if quick else 20000
    cells = []
    for i in range(n):
        kind = ["special", "random", "random", "near"][i % 4]
        nf = rng.choice([1, 1, 2, 4])
        L, A = [], []
        base = gen_angles(rng, kind)
        for f in range(nf):
            L.append([f32(rng.uniform(0.5, 50.0)) for _ in range(3)])
            if f == 0 or rng.random() < 0.5:
                A.append(base)
            else:
                A.append(gen_angles(rng, kind))
        R = rand_rotation(rng) if i % 5 else np.eye(3)      # every fifth cell is described in the standard orientation itself
        rot = []
        for f in range(nf):
            V = oracle_vectors(L[f], A[f])
            rot.append([[f32(x) for x in (R @ V[i])] for i in range(3)])
        cells.append({"lengths": L, "angles": A, "rotated": rot, "kind": kind})
    cells = structured_cells(rng) + cells
    # fixed probes: cube, the three named angles all different, rhombic dodecahedron, truncated octahedron
    for L, A in [([2.0, 2.0, 2.0], [90.0, 90.0, 90.0]), ([3.0, 4.0, 5.0], [70.0, 80.0, 100.0]),
                 ([5.0, 5.0, 5.0], [60.0, 60.0, 90.0]), ([4.0, 4.0, 4.0], [f32(109.4712206)] * 3),
                 ([3.0, 4.0, 5.0], [100.0, 70.0, 80.0]), ([3.0, 4.0, 5.0], [80.0, 100.0, 70.0])]:
        V = oracle_vectors(L, A)
        R = rand_rotation(rng)
        cells.insert(0, {"lengths": [L], "angles": [A], "rotated": [[[f32(x) for x in (R @ V[i])] for i in range(3)]], "kind": "probe"})
    return cells


NAMES = (("alpha", 1, 2), ("beta", 2, 0), ("gamma", 0, 1))      # angle name, the two vectors it lies between (a=0, b=1, c=2)


def check_cell(c, r):
    """-> list of (defect class, detail) for one cell; [] when every clause of the property holds within tolerance"""
    bad = []
    if isinstance(r.get("vectors"), dict) or isinstance(r.get("back_lengths"), dict):
        return [("conversion raised", str(r.get("vectors"))[:60] + str(r.get("back_lengths"))[:60])]
    if r.get("vectors") is None or r.get("volumes") is None:
        return [("a trajectory with lengths and angles reports no vectors/volumes", "")]
    if r.get("back_lengths") is None or r.get("back_angles") is None or r.get("back_volumes") is None:
        return [("assigning non-zero unitcell_vectors left the trajectory without a cell", str(c["rotated"][0]))]
    nf = len(c["lengths"])
    if len(r["vectors"]) != nf or len(r["volumes"]) != nf or len(r["back_lengths"]) != nf:
        return [("a per-frame cell quantity has not one entry per frame", "%d frames" % nf)]
    if r.get("stored_lengths") != c["lengths"] or r.get("stored_angles") != c["angles"]:
        bad.append(("stored unitcell_lengths/unitcell_angles are not the assigned per-frame values", c.get("via", "direct")))
    for f, (L, A) in enumerate(zip(c["lengths"], c["angles"])):
        V = np.array(r["vectors"][f])
        # the whole-trajectory getters agree with the getters of the one-frame slice t[f]
        if np.abs(V - np.array(r["vectors_by_frame"][f])).max() > 1e-6 * max(L) or \
                abs(r["volumes"][f] - r["volumes_by_frame"][f]) > 1e-6 * L[0] * L[1] * L[2]:
            bad.append(("unitcell_vectors/volumes of the trajectory differ from those of its one-frame slice", "frame %d" % f))
        G = V @ V.T
        # the reported vectors have the stored lengths and, separately, each stored angle
        for i in range(3):
            if abs(math.sqrt(G[i, i]) - L[i]) > 2e-5 * L[i] + 2e-6:
                bad.append(("reported vector %s has not the stored length" % "abc"[i], "frame %d: %r vs %r" % (f, math.sqrt(G[i, i]), L[i])))
        for nm, i, j in NAMES:
            want = L[i] * L[j] * math.cos(math.radians(A["alpha beta gamma".split().index(nm)]))
            if abs(G[i, j] - want) > 3e-5 * L[i] * L[j] + 3e-6 * (L[i] + L[j]):
                bad.append(("angle %s is not the angle between reported vectors %s and %s" % (nm, "abc"[i], "abc"[j]),
                            "frame %d: dot %r, expected %r" % (f, G[i, j], want)))
        # standard orientation
        tol0 = 2e-6
        if abs(V[0, 1]) > tol0 or abs(V[0, 2]) > tol0 or abs(V[1, 2]) > tol0 or V[0, 0] <= 0 or V[1, 1] <= 0 or V[2, 2] <= 0:
            bad.append(("reported vectors are not in the standard orientation", "frame %d: %s" % (f, V.tolist())))
        # volume = triple product of the reported vectors, and positive
        vol = r["volumes"][f]
        triple = float(np.dot(V[0], np.cross(V[1], V[2])))
        scale = L[0] * L[1] * L[2]
        if abs(vol - triple) > 2e-5 * scale or vol <= 0:
            bad.append(("unitcell_volumes is not the (positive) triple product of the vectors", "frame %d: %r vs %r" % (f, vol, triple)))
        Vo = oracle_vectors(L, A)
        if abs(vol - float(np.linalg.det(Vo))) > 2e-4 * scale:
            bad.append(("unitcell_volumes differs from the cell's volume", "frame %d: %r vs %r" % (f, vol, float(np.linalg.det(Vo)))))
        # rotated description read back: lengths, each named angle, volume, and the standard vectors again
        bl, ba, bv = r["back_lengths"][f], r["back_angles"][f], r["back_volumes"][f]
        for i in range(3):
            if abs(bl[i] - L[i]) > 2e-5 * L[i]:
                bad.append(("length %s read back from a rotated description" % "abc"[i], "frame %d: %r vs %r" % (f, bl[i], L[i])))
        for k, nm in enumerate(("alpha", "beta", "gamma")):
            s = max(math.sin(math.radians(A[k])), 0.05)
            if abs(ba[k] - A[k]) > 2e-3 / s:
                bad.append(("angle %s read back from a rotated description" % nm, "frame %d: %r vs %r" % (f, ba[k], A[k])))
        if abs(bv - float(np.linalg.det(Vo))) > 2e-4 * scale:
            bad.append(("volume read back from a rotated description", "frame %d: %r vs %r" % (f, bv, float(np.linalg.det(Vo)))))
        Bk = np.array(r["back_vectors"][f])
        Gb = Bk @ Bk.T
        for nm, i, j in NAMES + (("a", 0, 0), ("b", 1, 1), ("c", 2, 2)):
            want = L[i] * L[j] * (1.0 if i == j else math.cos(math.radians(A["alpha beta gamma".split().index(nm)])))
            if abs(Gb[i, j] - want) > 1e-4 * L[i] * L[j] + 3e-6 * (L[i] + L[j]):
                bad.append(("vectors reported after assigning a rotated description: %s is wrong" % nm,
                            "frame %d: %r vs %r" % (f, Gb[i, j], want)))
    if f == 0 or True:
        L, A = c["lengths"][0], c["angles"][0]
        uv = r.get("utils_vectors")
        if isinstance(uv, dict):
            bad.append(("utils.lengths_and_angles_to_box_vectors raised", str(uv)))
        else:
            U = np.array(uv)
            Vo = oracle_vectors(L, A)
            if np.abs(U - Vo).max() > 1e-9 * max(L) + 1.5e-6:
                bad.append(("utils.lengths_and_angles_to_box_vectors (float64) differs from the construction", "%s vs %s" % (U.tolist(), Vo.tolist())))
        ub = r.get("utils_back")
        if isinstance(ub, dict):
            bad.append(("utils.box_vectors_to_lengths_and_angles raised", str(ub)))
        else:
            W = np.array(c["rotated"][0], dtype=np.float64)
            Gw = W @ W.T
            wl = [math.sqrt(Gw[i, i]) for i in range(3)]
            wa = [math.degrees(math.acos(Gw[i, j] / (wl[i] * wl[j]))) for _nm, i, j in NAMES]
            if max(abs(x - y) for x, y in zip(ub[:3], wl)) > 1e-9 * max(L) or max(abs(x - y) for x, y in zip(ub[3:], wa)) > 1e-6:
                bad.append(("utils.box_vectors_to_lengths_and_angles (float64): a named output differs", "%s vs %s" % (ub, wl + wa)))
    # tilt factors (lx, ly, lz, xy, xz, yz) = (a_x, b_y, c_z, b_x, c_x, c_y): theorem tilt_factors_are_vector_components
    ts = r.get("tilt_scalar")
    if isinstance(ts, dict) or ts is None or r.get("tilt_frames") is None:
        bad.append(("utils.lengths_and_angles_to_tilt_factors raised", str(ts)))
    else:
        L, A = c["lengths"][0], c["angles"][0]
        Vo = oracle_vectors(L, A)
        want = [Vo[0][0], Vo[1][1], Vo[2][2], Vo[1][0], Vo[2][0], Vo[2][1]]
        names = ("lx", "ly", "lz", "xy", "xz", "yz")
        for nm, x, w in zip(names, ts, want):
            if not abs(x - w) <= 1e-9 * max(L):
                bad.append(("tilt factor %s (float64) is not the matching box-vector component" % nm, "%r vs %r" % (x, w)))
        uv = r.get("utils_vectors")
        if not isinstance(uv, dict) and uv is not None:
            U = np.array(uv)
            own = [U[0][0], U[1][1], U[2][2], U[1][0], U[2][0], U[2][1]]
            for nm, x, w in zip(names, ts, own):
                if not abs(x - w) <= 1e-9 * max(L) + 1.5e-6:
                    bad.append(("tilt factor %s differs from the component of lengths_and_angles_to_box_vectors" % nm, "%r vs %r" % (x, w)))
        tf = r["tilt_frames"]
        if len(tf) != len(c["lengths"]):
            bad.append(("tilt factors of per-frame arrays: not one row per frame", "%d rows" % len(tf)))
        else:
            for f, (Lf, Af) in enumerate(zip(c["lengths"], c["angles"])):
                Vf = oracle_vectors(Lf, Af)
                wf = [Vf[0][0], Vf[1][1], Vf[2][2], Vf[1][0], Vf[2][0], Vf[2][1]]
                for nm, x, w in zip(names, tf[f], wf):
                    # float32 evaluation; lz suffers the cancellation of the near-degenerate cells like cz of the vectors
                    tol = (3e-5 * max(Lf) + 1e-6) if nm != "lz" else (3e-5 * max(Lf) * max(Lf) / max(Vf[2][2], 1e-3) + 1e-5)
                    if not abs(x - w) <= tol:
                        bad.append(("tilt factor %s (float32 arrays) is not the matching box-vector component" % nm,
                                    "frame %d: %r vs %r" % (f, x, w)))
    if not r.get("zero_vectors_no_cell"):
        bad.append(("all-zero unitcell_vectors did not remove the cell", ""))
    if not r.get("none_vectors_no_cell"):
        bad.append(("unitcell_vectors = None did not remove the cell", ""))
    return bad


def run_cells(ctx, cells, stage="correspond"):
    B = 2500
    for i in range(0, len(cells), B):
        chunk = cells[i:i + B]
        keys = ("lengths", "angles", "rotated", "via", "split", "how")
        res = ctx.run_impl("cell_impl.py", {"cells": [{k: c[k] for k in keys if k in c} for c in chunk]})["cells"]
        for c, r in zip(chunk, res):
            case = {"cell": {k: c[k] for k in keys if k in c}}
            distinct = len({round(x, 3) for x in c["angles"][0]}) > 1
            ctx.count(case, nontrivial=distinct, bucket="cell/" + c.get("kind", "replay"))
            for cls, detail in check_cell(c, r):
                ctx.fail(cls, case, observed=detail, expected="the cell described by the stored lengths and angles",
                         tags={"kind": "formula", "explained_by": None}, stage=stage)


# ----------------------------------------------------------------------------- correspondence B: histories
CELL_SPECS = [[3, [[1, 2, 100]], True, True], [3, [[1, 2, 100]], True, True], [3, [[1, 2, 100]], False, True], [2, [[4, 5]], True, False]]


def cell_history(rng, length):
    sh = T.Shadow(CELL_SPECS)
    ops = []
    for _ in range(length):
        R = len(sh.regs)
        r = rng.randrange(R)
        n = sh.regs[r]["n"]
        k = rng.choices(["vec", "veczero", "vecnone", "len", "lennone", "ang", "angnone", "slice", "slice_nc", "join",
                         "mdjoin", "stack", "aslice", "aslice_ip", "read"], [8, 3, 5, 9, 5, 12, 5, 8, 4, 8, 3, 6, 5, 3, 22])[0]
        if k == "read":
            ops.append(["read_cell", r, rng.choice(["vectors", "volumes", "lengths", "angles", "distances", "vectors", "volumes"])])
        elif k == "vec":
            ops.append(["set_vectors", r, n if rng.random() < 0.9 else n + 1, False])
        elif k == "veczero":
            ops.append(["set_vectors", r, n if rng.random() < 0.7 else n + 2, True])
        elif k == "vecnone":
            ops.append(["set_vectors", r, None])
        elif k in ("len", "ang"):
            ops.append(["set_lengths" if k == "len" else "set_angles", r, n if rng.random() < 0.9 else n + 1])
        elif k in ("lennone", "angnone"):
            ops.append(["set_lengths" if k == "lennone" else "set_angles", r, None])
        elif k in ("slice", "slice_nc"):
            key = T.rand_key(rng, n)
            ops.append(["slice", r, key, k == "slice"])
            ln = T.key_len(key, n)
            if ln is not None:
                sh.regs.append(dict(sh.regs[r], n=ln))
        elif k == "join":
            cands = [i for i in range(R) if sh.na(i) == sh.na(r)]
            o = rng.choice(cands)
            if n + sh.regs[o]["n"] > 12:
                continue
            ops.append(["join", r, [o], rng.random() < 0.7])
            sh.regs.append(dict(sh.regs[r], n=n + sh.regs[o]["n"]))      # optimistic
        elif k == "mdjoin":
            cands = [i for i in range(R) if sh.na(i) == sh.na(r)]
            o = rng.choice(cands)
            if n + sh.regs[o]["n"] > 12:
                continue
            ops.append(["mdjoin", [r, o]])
            sh.regs.append(dict(sh.regs[r], n=n + sh.regs[o]["n"]))
        elif k == "stack":
            cands = [i for i in range(R) if sh.regs[i]["n"] == n]
            o = rng.choice(cands)
            if sh.na(r) + sh.na(o) > 9:
                continue
            ops.append(["stack", r, o])
            sh.regs.append(dict(sh.regs[r], chains=sh.regs[r]["chains"] + sh.regs[o]["chains"]))
        else:
            na = sh.na(r)
            idx = sorted(rng.sample(range(na), rng.randint(1, na)))
            ip = k == "aslice_ip"
            ops.append(["atom_slice", r, idx, ip])
            flat = [x for c in sh.regs[r]["chains"] for x in c]
            nr = dict(sh.regs[r], chains=[[flat[i] for i in idx]])
            if ip:
                sh.regs[r] = nr
            else:
                sh.regs.append(nr)
    return ops


def overlap_history(rng):
    """a trajectory (with or without cell, possibly after a cell assignment) is cut into two or three pieces that overlap by
    one frame and joined again with discard_overlapping_frames=True (method, list of operands, md.join): the boundary frames
    really coincide, one of each pair is discarded; the result has a complete per-frame cell exactly when the source had"""
    ops = []
    R = len(CELL_SPECS)
    r = rng.choice([0, 0, 1, 2])                      # registers 0, 1 carry a cell, 2 does not (3 frames each)
    pre = rng.random()
    if pre < 0.25:
        ops.append(["set_vectors", r, 3, False])
    elif pre < 0.4:
        ops.append(["set_angles", r, 3])
    elif pre < 0.5:
        ops.append(["read_cell", r, "vectors"])
    copy = rng.random() < 0.7
    if rng.random() < 0.6:
        k = rng.choice([1, 2])
        ops.append(["slice", r, ["slice", [None, k + 1, None]], copy])
        ops.append(["slice", r, ["slice", [k, None, None]], copy])
        regs = [R, R + 1]
    else:
        ops.append(["slice", r, ["slice", [None, 2, None]], copy])
        ops.append(["slice", r, ["slice", [1, 3, None]], copy])
        ops.append(["slice", r, ["slice", [2, None, None]], copy])
        regs = [R, R + 1, R + 2]
    how = rng.random()
    if how < 0.4:
        ops.append(["join", regs[0], regs[1:], rng.random() < 0.7, None, True])
    elif how < 0.7:
        ops.append(["mdjoin", regs, True])
    else:
        cur = regs[0]
        nxt = R + len(regs)
        for o in regs[1:]:
            ops.append(["join", cur, [o], True, None, True])
            cur = nxt
            nxt += 1
    J = R + len([o for o in ops if o[0] in ("slice", "join", "mdjoin")]) - 1
    ops.append(["read_cell", J, rng.choice(["vectors", "volumes", "lengths"])])
    if rng.random() < 0.4:
        ops.append(["join", J, [J], True, None, True])     # its last and first frames differ: nothing is discarded
    return ops


def exhaustive_cell_histories(length):
    import itertools
    alphabet = [["read_cell", 0, "vectors"], ["read_cell", 0, "volumes"],
                ["set_vectors", 0, 3, False], ["set_vectors", 0, None], ["set_vectors", 0, 3, True], ["set_lengths", 0, 3],
                ["set_lengths", 0, None], ["set_angles", 0, 3], ["set_angles", 0, None],
                ["slice", 0, ["slice", [1, None, None]], True], ["join", 0, [1], True], ["stack", 0, 2], ["atom_slice", 0, [0, 2], False]]
    for seq in itertools.product(alphabet, repeat=length):
        yield [list(o) for o in seq]


def expected_cell_obs(mt):
    ul, ua = mt["ul"] is not None, mt["ua"] is not None
    n = len(mt["xp"])
    if not ul:
        vol = "none"
    elif not ua:
        vol = "TypeError"
    else:
        vol = ["array", n, True]
    return {"have": ul and ua, "vectors_none": not (ul and ua), "volumes": vol,
            "check_valid": "ok" if ul == ua else "AttributeError"}


def run_histories(ctx, cases, stage="correspond"):
    B = 200
    impl = []
    for i in range(0, len(cases), B):
        impl.extend(ctx.run_impl("traj_impl.py", {"cases": [{"seed": c["seed"], "specs": c["specs"], "ops": c["ops"],
                                                              "check_cell_every_step": bool(c.get("check_cell_every_step"))}
                                                             for c in cases[i:i + B]]})["cases"])
    enc, errs = T.coq_run_all(ctx, cases)
    if errs:
        ctx.break_("correspondence:coqc-evaluation", "\n".join(errs))
        return
    worlds = [T.decode_all(x) for x in enc]
    nbad = 0
    for c, im, w in zip(cases, impl, worlds):
        case = {"seed": c["seed"], "specs": c["specs"], "ops": c["ops"]}
        if c.get("check_cell_every_step"):
            case["check_cell_every_step"] = True
        ok_ops = [o[0] for o, s in zip(c["ops"], im["steps"]) if s == "ok"]
        ctx.count(case, nontrivial=any(o.startswith("set_") for o in ok_ops) and any(not o.startswith("set_") for o in ok_ops),
                  bucket="history/" + c.get("stream", "replay"))
        # tie: some variant of the trajectory model reproduces the run (the variants differ only in the RMSD cache)
        try:
            ds = [T.compare(w[v], im) for v in range(T.NVAR)]
        except (KeyError, IndexError, ValueError) as e:
            ds = [["model output cannot be evaluated: %s" % e]] * T.NVAR
        v = min(range(T.NVAR), key=lambda i: len(ds[i]))
        d = list(ds[v])
        if not d:
            for ri, (mt, it) in enumerate(zip(w[v]["trajs"], im["regs"])):
                want = expected_cell_obs(mt)
                if want != it["cell"]:
                    d.append("reg %d: cell getters model %s impl %s" % (ri, want, it["cell"]))
        if d:
            nbad += 1
            if nbad <= 3:
                ctx.break_("correspondence:cell-history-model", "ops=%s -> %s" % (c["ops"], d[:3]))
                ctx.notes.setdefault("tie_examples", []).append({"case": case, "diff": d[:4]})
        # property (model-free): structural operations keep cell presence; joins/atom subsets never make half-set cells
        for p in im["prop"]:
            if p["kind"] in ("cell-presence-changed", "half-set-cell-produced"):
                ctx.fail("%s: %s" % (p["op"], p["kind"]), case, observed=p, expected="complete cell exactly when the input had one",
                         tags={"kind": p["kind"], "op": p["op"], "explained_by": None}, stage=stage)
            elif p["kind"] == "cell-getters-inconsistent":
                ctx.fail("cell getters disagree with the stored lengths/angles: %s" % p["detail"], case, observed=p,
                         expected="every getter computed from the lengths and angles stored at that moment",
                         tags={"kind": p["kind"], "explained_by": None}, stage=stage)


def build_histories(ctx):
    rng = ctx.rng
    quick = ctx.tier == "quick"
    cases = []
    for i in range(300 if quick else 3000):
        cases.append({"specs": CELL_SPECS, "ops": cell_history(rng, rng.randint(1, 6)), "stream": "random"})
    for i in range(40 if quick else 400):
        cases.append({"specs": CELL_SPECS, "ops": overlap_history(rng), "stream": "overlap-join"})
    for L in ([1, 2] if quick else [1, 2, 3, 4]):
        if L == 4:
            for ops in exhaustive_cell_histories(4):
                if rng.random() < 0.2:
                    cases.append({"specs": CELL_SPECS, "ops": ops, "stream": "sampled4"})
        else:
            for ops in exhaustive_cell_histories(L):
                cases.append({"specs": CELL_SPECS, "ops": ops, "stream": "exhaustive%d" % L})
    for i, c in enumerate(cases):
        c["seed"] = (ctx.seed * 13 + i) % 100003
        c["check_cell_every_step"] = (i % 2 == 0)      # half of the histories compare all getters after EVERY step
    return cases


# ----------------------------------------------------------------------------- correspondence C: getters between assignments
def getter_history(rng):
    """one object; reads of every getter (and a periodic distance call) interleaved anywhere with single-field
    assignments, None assignments, whole-vector assignments and item assignments into the arrays the getters return"""
    nf = rng.choice([1, 2, 3])

    def rows_l():
        return [[f32(rng.uniform(2.0, 12.0)) for _ in range(3)] for _ in range(nf)]

    def rows_a():
        return [gen_angles(rng, rng.choice(["random", "special"])) for _ in range(nf)]

    start_cell = rng.random() < 0.85
    h = {"frames": nf, "lengths": rows_l() if start_cell else None, "angles": rows_a() if start_cell else None, "ops": []}
    for _ in range(rng.randint(3, 9)):
        k = rng.choices(["read", "set_angles", "set_lengths", "set_vectors", "none", "poke_l", "poke_a", "poke_v"],
                        [34, 18, 12, 8, 6, 9, 9, 4])[0]
        if k == "read":
            h["ops"].append(["read", rng.choice(["vectors", "volumes", "lengths", "angles", "distances", "vectors", "volumes"])])
        elif k == "set_angles":
            h["ops"].append(["set_angles", rows_a()])
        elif k == "set_lengths":
            h["ops"].append(["set_lengths", rows_l()])
        elif k == "set_vectors":
            L, A = rows_l(), rows_a()
            R = rand_rotation(rng)
            h["ops"].append(["set_vectors", describe(L, A, R), L, A])
        elif k == "none":
            h["ops"].append([rng.choice(["set_angles", "set_lengths", "set_vectors"]), None])
        elif k == "poke_l":
            h["ops"].append(["poke_lengths", rng.randrange(nf), rng.randrange(3), f32(rng.uniform(2.0, 12.0))])
        elif k == "poke_a":
            h["ops"].append(["poke_angles", rng.randrange(nf), rng.randrange(3), f32(rng.uniform(80.0, 100.0))])
        else:
            h["ops"].append(["poke_returned_vectors"])
    return h


def check_getter_history(h, recs):
    """shadow state: the lengths and angles that SHOULD be stored after each op (assignments replace an array; item
    assignment through unitcell_lengths / unitcell_angles writes the stored array, because those getters hand out the
    stored array itself; scaling the array returned by unitcell_vectors changes nothing, it is a temporary).
    After every op: the four getters agree with the shadow and with each other.  -> (class, detail, step) or None"""
    L = None if h["lengths"] is None else [list(r) for r in h["lengths"]]
    A = None if h["angles"] is None else [list(r) for r in h["angles"]]
    for i, (op, rec) in enumerate(zip(h["ops"], recs)):
        k = op[0]
        derived = False
        if rec["status"] == "ok":
            if k == "set_lengths":
                L = None if op[1] is None else [list(r) for r in op[1]]
            elif k == "set_angles":
                A = None if op[1] is None else [list(r) for r in op[1]]
            elif k == "set_vectors":
                if op[1] is None:
                    L, A = None, None
                else:
                    L, A, derived = [list(r) for r in op[2]], [list(r) for r in op[3]], True
            elif k == "poke_lengths" and L is not None:
                L[op[1]][op[2]] = op[3]
            elif k == "poke_angles" and A is not None:
                A[op[1]][op[2]] = op[3]
        elif k in ("poke_lengths", "poke_angles") and rec["status"] == "TypeError" and (L if k == "poke_lengths" else A) is None:
            pass                                                    # item assignment into None
        elif k.startswith("set_") or k.startswith("poke"):
            return ("an assignment raised %s" % rec["status"], str(op)[:80], i)
        o = rec["obs"]
        for nm, want in (("lengths", L), ("angles", A)):
            got = o[nm]
            if (got is None) != (want is None):
                return ("stored %s present/absent differs from the assignments made" % nm, "step %d" % i, i)
            if want is not None:
                tol = (2e-5 * 50 if nm == "lengths" else 2e-3) if derived or any(x[0] == "set_vectors" and x[1] is not None for x in h["ops"][:i + 1]) else 0.0
                if np.abs(np.array(got) - np.array(want)).max() > tol:
                    return ("stored %s are not the values assigned" % nm, "step %d: %s vs %s" % (i, got, want), i)
        if L is None or A is None:
            if o["vectors"] is not None:
                return ("unitcell_vectors is not None without a complete cell", "step %d" % i, i)
            if L is None and o["volumes"] is not None:
                return ("unitcell_volumes is not None without lengths", "step %d" % i, i)
            continue
        if isinstance(o["vectors"], dict) or o["vectors"] is None or isinstance(o["volumes"], dict) or o["volumes"] is None:
            return ("vectors/volumes unavailable although lengths and angles are stored", "step %d: %s" % (i, str(o["vectors"])[:40]), i)
        for f in range(len(L)):
            if gram_of(*A[f]) <= 1e-3:
                continue                                             # a poked angle made the triple (nearly) invalid: not judged
            Vo = oracle_vectors(L[f], A[f])
            V = np.array(o["vectors"][f])
            if np.abs(V - Vo).max() > 1e-4 * max(L[f]) + 3e-6:
                return ("unitcell_vectors do not describe the lengths/angles stored at that moment (after %s)" % k,
                        "step %d frame %d: %s vs %s" % (i, f, V.tolist(), Vo.tolist()), i)
            if abs(o["volumes"][f] - float(np.linalg.det(Vo))) > 2e-4 * L[f][0] * L[f][1] * L[f][2]:
                return ("unitcell_volumes do not describe the lengths/angles stored at that moment (after %s)" % k,
                        "step %d frame %d: %r vs %r" % (i, f, o["volumes"][f], float(np.linalg.det(Vo))), i)
    return None


def run_getter_histories(ctx, hs, stage="correspond"):
    res = ctx.run_impl("cell_impl.py", {"cells": [], "getter_histories": hs})["getter_histories"]
    for h, recs in zip(hs, res):
        case = {"getter_history": h}
        kinds = {o[0] for o in h["ops"]}
        ctx.count(case, nontrivial=("read" in kinds and len(kinds) > 1), bucket="getter-history")
        bad = check_getter_history(h, recs)
        if bad:
            ctx.fail(bad[0], case, observed=bad[1], expected="all getters computed from the lengths/angles stored at that moment",
                     tags={"kind": "getter-history", "explained_by": None}, stage=stage)


def fixed_getter_histories():
    L = [[3.0, 4.0, 5.0], [3.0, 4.0, 5.0]]
    A1, A2 = [[90.0, 90.0, 90.0], [80.0, 95.0, 110.0]], [[70.0, 100.0, 60.0], [90.0, 90.0, 120.0]]
    out = []
    for first in ("vectors", "volumes", "distances"):
        for second in ("vectors", "volumes", "distances"):
            out.append({"frames": 2, "lengths": L, "angles": A1, "ops": [["read", first], ["set_angles", A2], ["read", second]]})
    out.append({"frames": 2, "lengths": L, "angles": A1, "ops": [["read", "vectors"], ["set_lengths", [[6.0, 7.0, 8.0]] * 2], ["read", "volumes"]]})
    out.append({"frames": 2, "lengths": L, "angles": A1, "ops": [["read", "vectors"], ["poke_angles", 0, 2, 75.0], ["read", "vectors"],
                                                                   ["poke_lengths", 1, 0, 9.0], ["read", "volumes"], ["poke_returned_vectors"], ["read", "vectors"]]})
    out.append({"frames": 2, "lengths": L, "angles": A1, "ops": [["read", "volumes"], ["set_angles", None], ["read", "vectors"], ["set_angles", A2], ["read", "vectors"]]})
    return out


# ----------------------------------------------------------------------------- correspondence D: validity guards
CODES = {"ok": 0, "AttributeError": 1, "ValueError": 2, "TypeError": 3}


def build_guards(ctx):
    """check_valid: every (lengths stored, angles stored, a negative length, a negative angle) combination, 1-3 frames, the
    negative entry in any frame / column (incl. -0.0 and tiny negatives), against Frames.check_valid_code / volumes_code;
    from_vectors: argument shapes of box_vectors_to_lengths_and_angles; radians: all angles below 2 pi degrees."""
    rng = ctx.rng
    gs = []
    reps = 2 if ctx.tier == "quick" else 12
    for hl in (False, True):
        for ha in (False, True):
            for nl in ((False, True) if hl else (False,)):
                for na in ((False, True) if ha else (False,)):
                    for _ in range(reps):
                        nf = rng.choice([1, 2, 3])
                        L = [[f32(rng.uniform(2.0, 9.0)) for _ in range(3)] for _ in range(nf)] if hl else None
                        A = [gen_angles(rng, "random") for _ in range(nf)] if ha else None
                        if nl:
                            L[rng.randrange(nf)][rng.randrange(3)] = f32(-rng.choice([1e-6, 0.5, 3.0, 40.0]))
                        if na:
                            A[rng.randrange(nf)][rng.randrange(3)] = f32(-rng.choice([1e-6, 0.5, 90.0, 120.0]))
                        gs.append({"kind": "check_valid", "frames": nf, "lengths": L, "angles": A, "state": [hl, ha, nl, na]})
    # zero entries are NOT negative (a zero length / angle passes the guard; -0.0 compares equal to 0)
    for z in (0.0, -0.0):
        gs.append({"kind": "check_valid", "frames": 1, "lengths": [[3.0, z, 5.0]], "angles": [[90.0, 90.0, 90.0]], "state": [True, True, False, False]})
        gs.append({"kind": "check_valid", "frames": 1, "lengths": [[3.0, 4.0, 5.0]], "angles": [[90.0, z, 90.0]], "state": [True, True, False, False]})
    for shapes, want in (([[3], [3], [3]], "ok"), ([[4, 3], [4, 3], [4, 3]], "ok"), ([[1, 3], [1, 3], [1, 3]], "ok"),
                         ([[3], [3], [2, 3]], "TypeError"), ([[2, 3], [3], [3]], "TypeError"), ([[2, 3], [2, 3], [3, 3]], "TypeError"),
                         ([[4], [4], [4]], "TypeError"), ([[2, 2], [2, 2], [2, 2]], "TypeError"), ([[3, 4], [3, 4], [3, 4]], "TypeError"),
                         ([[2, 2, 3], [2, 2, 3], [2, 2, 3]], "ValueError"), ([[1, 1, 1, 3]] * 3, "ValueError")):
        gs.append({"kind": "from_vectors", "shapes": shapes, "want": want})
    for A in ([3.0, 4.0, 5.0], [5.5, 4.0, 3.0], [6.0, 6.0, 6.0], [1.0, 1.5, 2.0]):
        gs.append({"kind": "radians", "lengths": [f32(rng.uniform(2.0, 9.0)) for _ in range(3)], "angles": A})
    # descriptions of every scale down to the all-zero tolerance of the unitcell_vectors setter (float64 arrays, so that nothing
    # is lost before the setter sees them): kept, with the lengths of the description (theorem
    # only_none_or_all_zero_vectors_remove_the_cell: a vector of norm >= sqrt 3 * 1e-15 is never mistaken for "no cell")
    P = signed_permutations()
    for scale in (1.0, 1e-3, 1e-5, 1e-7, 1e-9, 1e-11, 1e-13, 3e-15):
        for M in (P[0], P[rng.randrange(len(P))], [m for m in P if abs(m[0, 0]) + abs(m[1, 1]) + abs(m[2, 2]) == 0][rng.randrange(16)]):
            base = [rng.uniform(2.0, 9.0) for _ in range(3)]
            V = (np.asarray(M) @ np.diag(base)).T * scale          # rows: M applied to the orthorhombic edges
            gs.append({"kind": "tiny_description", "vectors": [V.tolist()], "scale": scale,
                       "want_lengths": [[float(np.linalg.norm(V[i])) for i in range(3)]]})
    for i, g in enumerate(gs):
        g["id"] = i
    return gs


def run_guards(ctx, gs, stage="correspond"):
    res = ctx.run_impl("cell_impl.py", {"cells": [], "guards": gs})["guards"]
    cv = [(g, r) for g, r in zip(gs, res) if g["kind"] == "check_valid"]
    # the model's table, evaluated in Coq, against the error class observed on the implementation
    cases, vcases = [], []
    for g, r in cv:
        st = "(%s, %s, %s, %s)" % tuple("true" if x else "false" for x in g["state"])
        cases.append((st, "%d%%nat" % CODES.get(r["check"], 9)))
        v = r["volumes"]
        vcases.append(("(%s, %s)" % tuple("true" if x else "false" for x in g["state"][:2]),
                       "%d%%nat" % (0 if v == "none" else 4 if isinstance(v, list) else CODES.get(v, 9))))
    badc, errs = ctx.coq_mismatches(["MD.Cell.Frames"], ("bool * bool * bool * bool", "nat"), "Nat.eqb",
                                    "(fun p => let '(hl, ha, nl, na) := p in check_valid_code hl ha nl na)", cases)
    badv, errs2 = ctx.coq_mismatches(["MD.Cell.Frames"], ("bool * bool", "nat"), "Nat.eqb",
                                     "(fun p => volumes_code (fst p) (snd p))", vcases)
    if errs or errs2:
        ctx.break_("correspondence:coqc-evaluation(guards)", "\n".join(errs + errs2)[-1500:])
    for i, (g, r) in enumerate(cv):
        case = {"guard": {k: g[k] for k in g if k != "id"}}
        ctx.count(case, nontrivial=any(g["state"][2:]) or g["state"][0] != g["state"][1], bucket="guard/check_valid")
        if i in badc:
            ctx.fail("_check_valid_unitcell does not follow the guard table (Frames.check_valid_code)", case, observed=r["check"],
                     expected="error class of check_valid_code %s" % g["state"], tags={"kind": "guard-check-valid", "explained_by": None}, stage=stage)
        if i in badv:
            ctx.fail("unitcell_volumes does not follow the getter table (Frames.volumes_code)", case, observed=r["volumes"],
                     expected="volumes_code %s" % g["state"][:2], tags={"kind": "guard-volumes", "explained_by": None}, stage=stage)
        if isinstance(r["volumes"], list) and r["volumes"][1] != g["frames"]:
            ctx.fail("unitcell_volumes has not one entry per frame", case, observed=r["volumes"], expected=g["frames"],
                     tags={"kind": "guard-volumes", "explained_by": None}, stage=stage)
        # the writers that consult the guard (save_pdb, save_dcd call it first) refuse exactly when the guard does
        for ext in (".pdb", ".dcd"):
            sv = r.get("save" + ext)
            if (r["check"] != "ok") != (sv != "ok") or (sv != "ok" and sv != r["check"]):
                ctx.fail("save%s and _check_valid_unitcell disagree" % ext, case, observed={"check": r["check"], "save": sv},
                         expected="the writer raises what the guard raises, and only then",
                         tags={"kind": "guard-save", "format": ext, "explained_by": None}, stage=stage)
        if r["have"] != (g["state"][0] and g["state"][1]):
            ctx.fail("_have_unitcell is not (lengths stored and angles stored)", case, observed=r["have"], expected=g["state"][:2],
                     tags={"kind": "guard-have", "explained_by": None}, stage=stage)
    for g, r in zip(gs, res):
        case = {"guard": {k: g[k] for k in g if k != "id"}}
        if g["kind"] == "from_vectors":
            ctx.count(case, nontrivial=g["want"] != "ok", bucket="guard/from_vectors")
            if r["result"] != g["want"]:
                ctx.fail("box_vectors_to_lengths_and_angles: argument-shape guard", case, observed=r["result"], expected=g["want"],
                         tags={"kind": "guard-shape", "explained_by": None}, stage=stage)
            elif g["want"] == "ok" and r.get("shape") != g["shapes"][0][:-1]:
                ctx.fail("box_vectors_to_lengths_and_angles: result has not one entry per frame", case, observed=r.get("shape"),
                         expected=g["shapes"][0][:-1], tags={"kind": "guard-shape", "explained_by": None}, stage=stage)
        elif g["kind"] == "tiny_description":
            ctx.count(case, nontrivial=g["scale"] < 1.0, bucket="guard/tiny_description")
            if r["result"] != "ok" or r.get("lengths") is None or r.get("angles") is None:
                ctx.fail("a non-zero description assigned to unitcell_vectors was taken for 'no cell'", case, observed=r,
                         expected="kept: some entry is at least 1e-15", tags={"kind": "guard-zero-tol", "explained_by": None}, stage=stage)
            else:
                got, want = np.array(r["lengths"]), np.array(g["want_lengths"])
                if got.shape != want.shape or not np.all(np.abs(got - want) <= 1e-9 * want):
                    ctx.fail("lengths read back from a scaled description", case, observed=r["lengths"], expected=g["want_lengths"],
                             tags={"kind": "guard-zero-tol", "explained_by": None}, stage=stage)
                elif not np.all(np.abs(np.array(r["angles"]) - 90.0) <= 1e-6):
                    ctx.fail("angles read back from a scaled orthorhombic description", case, observed=r["angles"], expected=90.0,
                             tags={"kind": "guard-zero-tol", "explained_by": None}, stage=stage)
        elif g["kind"] == "radians":
            ctx.count(case, nontrivial=True, bucket="guard/radians")
            if r["result"] != "ok" or not r.get("warned"):
                ctx.fail("angles below 2 pi degrees: a warning is documented, the conversion must still be done", case, observed=r,
                         expected="vectors and a warning", tags={"kind": "guard-radians", "explained_by": None}, stage=stage)
            else:
                Vo = oracle_vectors(g["lengths"], g["angles"])
                if np.abs(np.array(r["vectors"]) - Vo).max() > 1e-7 * max(g["lengths"]) + 1.5e-6:
                    ctx.fail("small-angle cell: utils.lengths_and_angles_to_box_vectors (float64) differs from the construction", case,
                             observed=r["vectors"], expected=Vo.tolist(), tags={"kind": "guard-radians", "explained_by": None}, stage=stage)


def correspond(ctx):
    hs = fixed_getter_histories() + [getter_history(ctx.rng) for _ in range(150 if ctx.tier == "quick" else 3000)]
    ctx.log("getter histories:", len(hs))
    run_getter_histories(ctx, hs)
    cells = build_cells(ctx)
    ctx.log("cells:", len(cells))
    run_cells(ctx, cells)
    hist = build_histories(ctx)
    ctx.log("histories:", len(hist))
    run_histories(ctx, hist)
    saveload_check(ctx)
    gs = build_guards(ctx)
    ctx.log("guards:", len(gs))
    run_guards(ctx, gs)


def format_table():
    """the table of coq/Cell/Formats.v (single source of truth, read from the Coq text)"""
    import re
    with open(os.path.join(COQ, "Cell", "Formats.v")) as fh:
        txt = fh.read()
    body = txt[txt.index("Definition format_table"):]
    body = body[:body.index("].")]
    return re.findall(r'\("(\.[a-z0-9.]+)",\s*([A-Za-z]+)\)', body)


def expected_roundtrip(kind, cell):
    """mirror of Formats.roundtrip (checked against it by vm_compute in saveload_check)"""
    have, rect = cell != "none", cell in ("none", "rectilinear")
    if kind in ("Keeps", "ZeroBox"):
        return have
    if kind == "RequiresCell":
        return True if have else None
    if kind == "RectilinearOnly":
        return (True if rect else None) if have else False
    return False


def saveload_check(ctx):
    """every writable format x {none, triclinic, rectilinear} x {1, 3 frames} against the format table (tested, not proved:
    the table's consequences are proved, that the formats behave as the table says is observed here)"""
    table = format_table()
    # the Python mirror of Formats.roundtrip agrees with the Coq definition on the whole domain
    want = []
    for kind in ("Keeps", "ZeroBox", "RequiresCell", "RectilinearOnly", "NoCell"):
        for cell in ("none", "triclinic", "rectilinear"):
            e = expected_roundtrip(kind, cell)
            want.append("(roundtrip %s %s %s, %s)" % (kind, "true" if cell != "none" else "false", "true" if cell != "triclinic" else "false",
                                                        "None" if e is None else "Some %s" % ("true" if e else "false")))
    rc, out = ctx.coq_eval(["MD.Cell.Formats"], "forallb (fun p => match fst p, snd p with Some a, Some b => Bool.eqb a b | None, None => true | _, _ => false end) [%s]" % "; ".join(want))
    if rc != 0 or "= true" not in out:
        ctx.break_("correspondence:format-table-mirror", out[-600:])
    atom_counts = [4, 3, 1] if ctx.tier == "quick" else [4, 3, 1, 5, 9, 23, 2]
    res = ctx.run_impl("cell_impl.py", {"cells": [], "saveload": [e for e, _k in table], "atom_counts": atom_counts})["saveload"]
    summary = {}
    for ext, kind in table:
        row = res[ext]
        refusals = {v.get("refused") for v in row.values() if "refused" in v}
        if len(refusals) == 1 and all("refused" in v for v in row.values()) and refusals <= {"ModuleNotFoundError", "ImportError", "TypeError"} \
                and ext in (".gsd", ".lh5"):
            summary[ext] = "%s: not testable in this sandbox (every save raises %s)" % (kind, refusals.pop())
            continue
        ok = True
        for key, v in row.items():
            opt = None
            if key.startswith("opt:"):
                opt, cell, nf, na = key[4:].split("/")
            else:
                cell, nf, na = key.split("/")
            if "unknown_option" in v:
                ok = False
                ctx.fail("save option %s of %s is not in the format table" % (opt, ext), {"saveload": ext, "option": opt}, observed=v,
                         expected="Formats.cell_neutral_options lists every keyword Trajectory.save forwards",
                         tags={"kind": "saveload-option-unknown", "format": ext, "explained_by": None})
                continue
            e = expected_roundtrip(kind, cell)
            case = {"saveload": ext, "cell": cell, "frames": int(nf), "atoms": int(na[1:])}
            if opt:
                case["option"] = opt
            ctx.count(case, nontrivial=True, bucket="saveload/" + kind)
            bad = None
            if e is None:
                if "refused" not in v:
                    bad = "the writer accepted a trajectory the format cannot represent"
            elif "refused" in v or "load_error" in v:
                bad = "save/load failed: %s" % v
            elif v["have"] != e or v["half"] or v["mixed"] or not v["per_frame"] or v["frames"] != int(nf):
                bad = "cell presence after save/load: %s (expected complete cell: %s)" % (v, e)
            elif not v.get("values_ok", True) and not (ext in (".pdb", ".pdb.gz") and int(nf) > 1):
                # (mdtraj's PDB writer stores ONE CRYST1 record: a multi-frame PDB comes back with the first frame's cell in every
                #  frame - a limit of the writer, presence is still judged; values are judged for single frames)
                bad = "the loaded lengths / angles are not the saved ones (2e-2 nm, 5e-2 degree): %s" % v
            if bad:
                ok = False
                ctx.fail("save/load of %s%s does not follow the format table (%s)" % (ext, " with " + opt.split("=")[0] if opt else "", kind), case, observed=bad,
                         expected="Formats.roundtrip %s" % kind,
                         tags={"kind": "saveload-presence", "format": ext, "cell": cell, "explained_by": None})
        summary[ext] = "%s: %s" % (kind, "as tabulated" if ok else "DEVIATES")
    ctx.notes.setdefault("coverage_extra", {})["save_load_cell_presence_by_format(tested)"] = summary


def search(ctx, broken):
    # the oracle of correspondence A is model-free; widen it once with a fresh stream
    saved = ctx.tier
    cells = build_cells(ctx)[:400]
    run_cells(ctx, cells, stage="search")
    ctx.tier = saved


def replay(ctx, rec):
    c = rec["case"]
    if "saveload" in c:
        saveload_check(ctx)
    elif "cell" in c:
        run_cells(ctx, [dict(c["cell"], kind="replay")])
    elif "getter_history" in c:
        run_getter_histories(ctx, [c["getter_history"]])
    elif "guard" in c:
        run_guards(ctx, [dict(c["guard"], id=0)])
    else:
        run_histories(ctx, [dict(c, stream="replay")])
