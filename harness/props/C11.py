"""C11 -- re-imaging moves atoms only by lattice vectors and makes molecules whole.

Model    coq/Whole/Model.v (hand-written from image_molecules.pxi, geometry.cpp:find_closest_contact and the
         bond ordering / inplace plumbing of trajectory.py; the .pxi cannot be rebuilt here)
Theorems coq/Props/C11.v
Tie      every generated system goes through Trajectory.make_molecules_whole / Trajectory.image_molecules (public
         API); the integer lattice multipliers of every atom are recovered from the returned float32 coordinates
         (residual checked) and compared inside coqc with the model run on the same integers (coq/Whole/Run.v).
         Frames where a discrete decision is (nearly) tied in exact arithmetic are flagged by the model and not
         compared.  Accepted: agreement with the bond order as found on all frames (known defect: a bond list
         that is not parent-ordered leaves a bonded pair split) or with the repaired order on all frames.
Oracle   on the implementation alone: lattice congruence of every move, bonded pairs at their minimum-image
         separation, md.compute_distances(periodic=True) before/after, anchors centred, rigid units, cells and
         times untouched, inplace=False leaves the receiver bit-identical.
"""
import math
import os
import re
import subprocess

import numpy as np

from common import COQ, cz, clist, cnat, digest

LEVEL = "proof"
THEOREMS = "Props/C11.v"
EXTRA_TARGETS = ("Whole/Run.vo",)
EXTS = ["_geometry"]
RULE = ("systems of 1..6 molecules of 1..12 atoms (chains, branched trees, rings, stars) built whole with extent < 0.4 "
        "of the shortest cell width, then every atom moved to a random image in [-2,2]^3 (coordinates on a 2^-10 nm grid); "
        "cubic/orthorhombic/triclinic cells, 1-3 frames whose cells form a series (independent / same lengths, angles vary / same angles, lengths vary / "
        "orthorhombic then triclinic and back / constant); atom numbering parent-first or shuffled, add_bond order shuffled; "
        "make_molecules_whole / image_molecules x inplace x make_whole x explicit/guessed anchors x explicit sorted_bonds; "
        "a case is non-trivial when at least one atom is moved by a non-zero lattice vector; distinct by hash of the case")
TRUSTED = ["harness/impl/whole_impl.py (builds the Trajectory/Topology, reports the float32 cells as exact integers)",
           "generator, recovery of integer lattice multipliers (float64, residual < 2e-3) and oracle in harness/props/C11.py; "
           "model-vs-implementation comparison is evaluated by vm_compute inside coqc (coq/Whole/Run.v)",
           "image_molecules.pxi is tied to the model by the correspondence with the compiled _geometry binary only "
           "(Cython is not available; the framework's pyx-drift check reports source/binary divergence)"]
ASSUMPTIONS = ["float32 arithmetic inside the kernels is not modelled; frames with a (nearly) tied rounding/floor/argmin "
               "decision are flagged by the model and excluded from the exact comparison (counted in the evidence)",
               "unit cell is lower-triangular (the only form Trajectory.unitcell_vectors produces)",
               "molecules longer than half the cell are excluded, as the property says"]

G = 1024
KNOWN_VARIANT = "bond_order_cur"
NONLATTICE_TOL = 2e-3


# ----------------------------------------------------------------------------- translator
def translate(ctx):
    """read the traversal of trajectory.py:_parent_first_bonds with Python's ast and regenerate coq/Gen/WholeWalk.v
    (a walk_spec record); Props/C11.v proves it equal to the spec the model implements.  A shape outside the small
    accepted grammar raises (=> degraded: the correspondence alone ties the model)."""
    import ast
    from common import REPO
    src = open(os.path.join(REPO, "mdtraj", "core", "trajectory.py")).read()
    tree = ast.parse(src)
    fn = next((n for n in tree.body if isinstance(n, ast.FunctionDef) and n.name == "_parent_first_bonds"), None)
    if fn is None:
        raise ValueError("trajectory.py has no _parent_first_bonds (bond order as found at the pinned commit)")
    un = ast.unparse

    def is_idx(node, arr, var):          # arr[var] or arr[var.index]
        return isinstance(node, ast.Subscript) and un(node.value) == arr and un(node.slice) in (var, var + ".index")

    loops = [n for n in fn.body if isinstance(n, ast.For)]
    bond_loop = next((l for l in loops if "bonds" in un(l.iter)), None)
    root_loop = next((l for l in loops if un(l.iter).startswith("range(")), None)
    if bond_loop is None or root_loop is None or not isinstance(bond_loop.target, ast.Tuple) or len(bond_loop.target.elts) != 2:
        raise ValueError("unrecognised loop structure")
    b0, b1 = [un(e) for e in bond_loop.target.elts]
    appends = set()
    for st in bond_loop.body:
        c = st.value if isinstance(st, ast.Expr) else None
        if not (isinstance(c, ast.Call) and isinstance(c.func, ast.Attribute) and c.func.attr == "append" and len(c.args) == 1):
            raise ValueError("unrecognised statement in the adjacency loop: " + un(st))
        tgt, val = c.func.value, un(c.args[0])
        for x, y in ((b0, b1), (b1, b0)):
            if is_idx(tgt, "neighbors", x) and val in (y, y + ".index"):
                appends.add((x, y))
    if not appends:
        raise ValueError("adjacency loop does not append to neighbors[...]")
    adj_both = appends == {(b0, b1), (b1, b0)}
    root = un(root_loop.target)
    roots_ascending = un(root_loop.iter) in ("range(n_atoms)", "range(0, n_atoms)", "range(topology.n_atoms)")
    body = root_loop.body
    wl = next((n for n in body if isinstance(n, ast.While)), None)
    if wl is None or un(wl.test) != "stack" or "stack = [%s]" % root not in [un(n) for n in body]:
        raise ValueError("unrecognised root loop body")
    if not any(isinstance(n, ast.If) and un(n.test) == "placed[%s]" % root and un(n.body[0]) == "continue" for n in body):
        raise ValueError("root loop does not skip placed roots")
    if "placed[%s] = True" % root not in [un(n) for n in body]:
        raise ValueError("root is not marked placed")
    pop = wl.body[0]
    if not (isinstance(pop, ast.Assign) and un(pop.value) in ("stack.pop()", "stack.pop(-1)")):
        raise ValueError("unrecognised pop: " + un(pop))          # e.g. a breadth-first rewrite: correspondence decides
    atom = un(pop.targets[0])
    inner = next((n for n in wl.body if isinstance(n, ast.For)), None)
    if inner is None or un(inner.iter) != "neighbors[%s]" % atom:
        raise ValueError("unrecognised neighbour loop")
    other = un(inner.target)
    stmts = inner.body
    skip_placed = False
    if len(stmts) == 1 and isinstance(stmts[0], ast.If) and not stmts[0].orelse:
        if un(stmts[0].test) == "not placed[%s]" % other:
            skip_placed = True
            stmts = stmts[0].body
        else:
            raise ValueError("unrecognised guard: " + un(stmts[0].test))
    texts = [un(n) for n in stmts]
    known = {"placed[%s] = True" % other, "walk.append((%s, %s))" % (atom, other), "walk.append((%s, %s))" % (other, atom),
             "stack.append(%s)" % other}
    if any(t not in known for t in texts):
        raise ValueError("unrecognised statement in the neighbour loop: %s" % [t for t in texts if t not in known])
    if not any(t.startswith("walk.append") for t in texts):
        raise ValueError("neighbour loop emits no bond")
    # the walk must be recomputed from topology.bonds on every call: exactly one return (the last statement), no decorator,
    # no global/nonlocal, no getattr/setattr/hasattr/__dict__, no attribute of an object assigned or deleted
    fresh = (not fn.decorator_list and isinstance(fn.body[-1], ast.Return) and
             sum(isinstance(n, ast.Return) for n in ast.walk(fn)) == 1 and
             not any(isinstance(n, (ast.Global, ast.Nonlocal, ast.Delete)) for n in ast.walk(fn)) and
             not any(isinstance(n, ast.Name) and n.id in ("getattr", "setattr", "hasattr", "vars", "globals") for n in ast.walk(fn)) and
             not any(isinstance(n, ast.Attribute) and n.attr == "__dict__" for n in ast.walk(fn)) and
             not any(isinstance(t, ast.Attribute) for n in ast.walk(fn) if isinstance(n, (ast.Assign, ast.AugAssign, ast.AnnAssign))
                     for t in (n.targets if isinstance(n, ast.Assign) else [n.target])))
    spec = [roots_ascending, adj_both, True, skip_placed, "placed[%s] = True" % other in texts,
            "walk.append((%s, %s))" % (atom, other) in texts, "stack.append(%s)" % other in texts, fresh]
    text = ("(* GENERATED by harness/props/C11.py:translate from mdtraj/core/trajectory.py:_parent_first_bonds -- do not edit *)\n"
            "Require Import MD.Whole.Model.\n"
            "Definition gen_walk_spec : walk_spec := mkWalkSpec %s.\n" % " ".join("true" if b else "false" for b in spec))
    ctx.write_gen("Gen/WholeWalk.v", text)
    ctx.notes.setdefault("coverage_extra", {})["translated_walk_spec"] = dict(zip(
        ["roots_ascending", "adj_both", "pop_last", "skip_placed", "mark_on_push", "emit_parent_child", "push_new", "fresh"], spec))
    translate_dispatch(ctx, tree)


def translate_dispatch(ctx, tree):
    """read the argument handling of Trajectory.make_molecules_whole / image_molecules (trajectory.py) with Python's ast and
    regenerate coq/Gen/WholeDispatch.v (a dispatch_spec record); Props/C11.v proves it equal to the spec coq/Whole/Anchors.v
    implements.  False is reported only for a RECOGNISED statement that deviates; an unknown shape raises (=> degraded)."""
    import ast
    un = ast.unparse
    cls = next((n for n in tree.body if isinstance(n, ast.ClassDef) and n.name == "Trajectory"), None)
    if cls is None:
        raise ValueError("no class Trajectory")
    fns = {n.name: n for n in cls.body if isinstance(n, ast.FunctionDef)}

    def norm(t):
        return t.replace('"', "'").replace(" ", "")

    def analyse(name, kernel):
        fn = fns.get(name)
        if fn is None:
            raise ValueError("Trajectory.%s not found" % name)
        body = [n for n in fn.body if not (isinstance(n, ast.Expr) and isinstance(n.value, ast.Constant))]
        ifs = [n for n in body if isinstance(n, ast.If)]
        # the kernel call
        calls = [n for n in ast.walk(fn) if isinstance(n, ast.Call) and un(n.func) == "_geometry.%s" % kernel]
        if len(calls) != 1:
            raise ValueError("%s: expected exactly one call of _geometry.%s (found %d)" % (name, kernel, len(calls)))
        args = [norm(un(a)) for a in calls[0].args]
        assigns = {}
        for n in ast.walk(fn):
            if isinstance(n, ast.Assign) and len(n.targets) == 1 and isinstance(n.targets[0], ast.Name):
                assigns.setdefault(n.targets[0].id, []).append(norm(un(n.value)))
        r = {}
        # cell guard
        guard = [n for n in ifs if norm(un(n.test)) in ("unitcell_vectorsisNone", "self.unitcell_vectorsisNone", "self._unitcell_vectorsisNone")]
        r["cell_guard"] = bool(guard) and isinstance(guard[0].body[0], ast.Raise) and "ValueError" in un(guard[0].body[0]) and \
            body.index(guard[0]) <= 1 and (norm(un(guard[0].test)) != "unitcell_vectorsisNone" or assigns.get("unitcell_vectors") == ["self.unitcell_vectors"])
        # copy unless inplace
        cp = [n for n in ifs if norm(un(n.test)) in ("inplace", "notinplace")]
        cp = [n for n in cp if n.orelse and any(isinstance(x, ast.Assign) and un(x.targets[0]) == "result" for x in n.body)]
        if len(cp) != 1:
            raise ValueError("%s: no recognisable 'result = self / self[:]' branch" % name)
        yes = [norm(un(x.value)) for x in cp[0].body if isinstance(x, ast.Assign) and un(x.targets[0]) == "result"]
        no = [norm(un(x.value)) for x in cp[0].orelse if isinstance(x, ast.Assign) and un(x.targets[0]) == "result"]
        if norm(un(cp[0].test)) == "notinplace":
            yes, no = no, yes
        copies = ("self[:]", "self.slice(slice(None),copy=True)", "self.slice(slice(None))", "copy.deepcopy(self)", "deepcopy(self)")
        r["copy"] = yes == ["self"] and len(no) == 1 and no[0] in copies
        # kernel runs on the coordinates and the cells of result
        if len(args) < 3 or args[1] not in assigns:
            raise ValueError("%s: unrecognised kernel arguments %s" % (name, args))
        boxes = assigns[args[1]]
        ok_box = ("np.asarray(result.unitcell_vectors,order='c')", "np.asarray(result.unitcell_vectors,order='C')",
                  "np.ascontiguousarray(result.unitcell_vectors)",
                  "np.asarray(result.unitcell_vectors,dtype=np.float32,order='c')", "np.asarray(result.unitcell_vectors,dtype=np.float32,order='C')",
                  "np.ascontiguousarray(result.unitcell_vectors,dtype=np.float32)")
        self_box = tuple(b.replace("result.", "self.") for b in ok_box)
        if len(boxes) != 1 or boxes[0] not in ok_box + self_box:
            raise ValueError("%s: unrecognised unit-cell argument %s" % (name, boxes))
        if args[0] not in ("result.xyz", "self.xyz", "result._xyz", "self._xyz"):
            raise ValueError("%s: unrecognised coordinate argument %s" % (name, args[0]))
        r["kernel_on_result"] = args[0] in ("result.xyz", "result._xyz") and args[-1] == "sorted_bonds"
        # returns
        rets = [n for n in body if isinstance(n, ast.Return)] + [x for n in ifs for x in n.body + n.orelse if isinstance(x, ast.Return)]
        rtxt = sorted(norm(un(x.value)) if x.value is not None else "None" for x in rets)
        rif = [n for n in ifs if any(isinstance(x, ast.Return) for x in n.body)]
        r["returns"] = rtxt == ["result", "self"] and len(rif) == 1 and norm(un(rif[0].test)) == "notinplace" and \
            norm(un(rif[0].body[0].value)) == "result" and isinstance(body[-1], ast.Return) and norm(un(body[-1].value)) == "self"
        # the bond walk
        wk = [n for n in ifs if "sorted_bonds" in un(n.test)]
        if len(wk) != 1:
            raise ValueError("%s: no recognisable sorted_bonds default" % name)
        t = norm(un(wk[0].test))
        dflt = [norm(un(x.value)) for x in wk[0].body if isinstance(x, ast.Assign) and un(x.targets[0]) == "sorted_bonds"]
        walk_ok = dflt in (["_parent_first_bonds(self._topology)"], ["_parent_first_bonds(self.topology)"])
        if kernel == "whole_molecules":
            r["walk_default"] = walk_ok and t == "sorted_bondsisNone" and not wk[0].orelse
        else:
            el = wk[0].orelse
            drop = len(el) == 1 and isinstance(el[0], ast.If) and norm(un(el[0].test)) == "notmake_whole" and not el[0].orelse and \
                [norm(un(x)) for x in el[0].body] == ["sorted_bonds=None"]
            r["walk_default"] = walk_ok and t in ("make_wholeandsorted_bondsisNone", "sorted_bondsisNoneandmake_whole") and drop
        if kernel == "image_molecules":
            an = [n for n in ifs if norm(un(n.test)) == "anchor_moleculesisNone"]
            r["anchor_default"] = len(an) == 1 and not an[0].orelse and [norm(un(x)) for x in an[0].body] in (
                ["anchor_molecules=self.topology.guess_anchor_molecules()"], ["anchor_molecules=self._topology.guess_anchor_molecules()"])
            ot = [n for n in ifs if norm(un(n.test)) == "other_moleculesisNone"]
            if len(ot) != 1:
                raise ValueError("image_molecules: no recognisable other_molecules default")
            st = [norm(un(x)) for x in ot[0].body]
            r["others_default"] = not ot[0].orelse and len(st) == 2 and st[0] in (
                "molecules=self._topology.find_molecules()", "molecules=self.topology.find_molecules()") and \
                st[1] == "other_molecules=[molformolinmoleculesifmolnotinanchor_molecules]"
            # the index arrays handed to the kernel are built from the molecules, atom by atom
            exp = {"anchor_molecules_atom_indices": "anchor_molecules", "other_molecules_atom_indices": "other_molecules"}
            for a, src in exp.items():
                if a not in args or assigns.get(a) != ["[np.fromiter((a.indexforainmol),dtype=np.int32)formolin%s]" % src]:
                    raise ValueError("image_molecules: unrecognised construction of %s: %s" % (a, assigns.get(a)))
            if args[2:4] != ["anchor_molecules_atom_indices", "other_molecules_atom_indices"]:
                r["kernel_on_result"] = False
        return r
    mw = analyse("make_molecules_whole", "whole_molecules")
    im = analyse("image_molecules", "image_molecules")
    keys = ["cell_guard", "copy", "walk_default", "kernel_on_result", "returns"]
    spec = [mw[k] for k in keys] + [im[k] for k in keys] + [im["anchor_default"], im["others_default"]]
    text = ("(* GENERATED by harness/props/C11.py:translate_dispatch from mdtraj/core/trajectory.py:Trajectory.make_molecules_whole / "
            "image_molecules -- do not edit *)\nRequire Import MD.Whole.Anchors.\n"
            "Definition gen_dispatch_spec : dispatch_spec := mkDispatch %s.\n" % " ".join("true" if b else "false" for b in spec))
    ctx.write_gen("Gen/WholeDispatch.v", text)
    ctx.notes.setdefault("coverage_extra", {})["translated_dispatch_spec"] = dict(
        [("make_molecules_whole." + k, mw[k]) for k in keys] + [("image_molecules." + k, im[k]) for k in keys + ["anchor_default", "others_default"]])


# ----------------------------------------------------------------------------- generator
def approx_box(cell):
    a, b, c = [v / G for v in cell["lengths"]]
    al, be, ga = [math.radians(x) for x in cell["angles"]]
    bx, by = b * math.cos(ga), b * math.sin(ga)
    cx = c * math.cos(be)
    cy = c * (math.cos(al) - math.cos(be) * math.cos(ga)) / math.sin(ga)
    cz_ = math.sqrt(max(c * c - cx * cx - cy * cy, 1e-12))
    return np.array([[a, 0, 0], [bx, by, 0], [cx, cy, cz_]])


def widths(B):
    a, b, c = B
    V = abs(np.dot(a, np.cross(b, c)))
    return [V / np.linalg.norm(np.cross(b, c)), V / np.linalg.norm(np.cross(c, a)), V / np.linalg.norm(np.cross(a, b))]


def gen_cell(rng, kind):
    if kind == "cubic":
        L = rng.randint(2 * G, 5 * G)
        return {"lengths": [L, L, L], "angles": [90.0, 90.0, 90.0]}
    if kind == "ortho":
        return {"lengths": [rng.randint(2 * G, 5 * G) for _ in range(3)], "angles": [90.0, 90.0, 90.0]}
    # every pattern of exactly-zero off-diagonal cell entries (monoclinic settings, hexagonal, rhombic dodecahedron, general)
    while True:
        L = [rng.randint(2 * G, 5 * G) for _ in range(3)]
        ang = lambda: round(rng.choice([rng.uniform(65, 88), rng.uniform(92, 115)]), 3)   # noqa: E731
        pat = rng.choice(["bx", "cx", "cy", "bx_cx", "bx_cy", "cx_cy", "general", "general", "general", "hexagonal", "rhombic-dodecahedron"])
        if pat == "bx":
            A = [90.0, 90.0, ang()]
        elif pat == "cx":
            A = [90.0, ang(), 90.0]
        elif pat == "cy":
            A = [ang(), 90.0, 90.0]
        elif pat == "bx_cx":
            be, ga = ang(), ang()
            A = [math.degrees(math.acos(math.cos(math.radians(be)) * math.cos(math.radians(ga)))), be, ga]
        elif pat == "bx_cy":
            A = [ang(), 90.0, ang()]
        elif pat == "cx_cy":
            A = [ang(), ang(), 90.0]
        elif pat == "hexagonal":
            L[1] = L[0]
            A = [90.0, 90.0, rng.choice([120.0, 60.0])]
        elif pat == "rhombic-dodecahedron":
            L[1] = L[2] = L[0]
            A = [60.0, 60.0, 90.0]
        else:
            A = [ang(), ang(), ang()]
        cell = {"lengths": L, "angles": A}
        al, be, ga = [math.radians(x) for x in A]
        v2 = 1 - math.cos(al) ** 2 - math.cos(be) ** 2 - math.cos(ga) ** 2 + 2 * math.cos(al) * math.cos(be) * math.cos(ga)
        if v2 > 0.25:
            return cell


CELL_SERIES = ["independent", "independent", "same-lengths", "same-lengths", "same-lengths", "same-angles", "ortho-then-tric",
               "tric-then-ortho", "constant"]


def gen_cell_series(rng, kind, n):
    """the cells of the frames of one trajectory.  Besides independent cells: edge lengths bit-identical in every frame while
    the angles differ (shear at constant edge lengths), angles constant while the lengths differ, first frame orthorhombic and
    the later ones triclinic with the same lengths (and the reverse), one constant cell -- a per-trajectory shortcut keyed on
    part of the cell description re-images later frames with the wrong cell"""
    if n == 1:
        return [gen_cell(rng, kind)], "single"
    mode = rng.choice(CELL_SERIES)
    if mode == "independent":
        return [gen_cell(rng, kind) for _ in range(n)], mode
    first = gen_cell(rng, kind)
    if mode == "constant":
        return [{"lengths": list(first["lengths"]), "angles": list(first["angles"])} for _ in range(n)], mode
    if mode == "same-angles":
        out = [first]
        for _ in range(n - 1):
            L = [rng.randint(2 * G, 5 * G) for _ in range(3)]
            if kind == "cubic":
                L = [L[0]] * 3
            out.append({"lengths": L, "angles": list(first["angles"])})
        return out, mode
    L = list(first["lengths"])
    if mode == "ortho-then-tric":
        first = {"lengths": L, "angles": [90.0, 90.0, 90.0]}
    elif mode == "tric-then-ortho":
        first = {"lengths": L, "angles": gen_cell(rng, "tric")["angles"]}
    out = [first]
    for f in range(1, n):
        if mode == "tric-then-ortho":
            A = [90.0, 90.0, 90.0] if (f % 2 == 1 or rng.random() < 0.5) else gen_cell(rng, "tric")["angles"]
        else:
            A = gen_cell(rng, "tric")["angles"]
        out.append({"lengths": list(L), "angles": A})
    return out, mode


def gen_molecule(rng, n, shape):
    """-> (bonds as (parent, child) in placement order over local indices 0..n-1, extra ring bonds)"""
    tree = []
    for a in range(1, n):
        if shape == "chain" or shape == "ring":
            p = a - 1
        elif shape == "star":
            p = 0
        else:
            p = rng.randrange(a)
        tree.append((p, a))
    extra = []
    if shape == "ring" and n >= 3:
        extra.append((0, n - 1))
        if n >= 6 and rng.random() < 0.3:
            extra.append((1, n - 2))
    return tree, extra


def gen_system(rng, kind, n_frames, many=False):
    cells, series = gen_cell_series(rng, kind, n_frames)
    # Topology.guess_anchor_molecules only finds anchors when there are >= 10 molecules and the largest ones are
    # larger than the one at rank 10%: "many" = one or two solutes in a bath of small molecules
    nmol = rng.randint(10, 14) if many else rng.choice([1, 1, 2, 2, 3, 4, 5, 6])
    nbig = rng.choice([1, 1, 2]) if many else 0
    mols = []
    for m in range(nmol):
        if many:
            n = rng.choice([6, 8, 10, 12]) if m < nbig else rng.choice([1, 2, 3, 3])
        else:
            n = rng.choice([1, 2, 3, 3, 4, 5, 6, 8, 10, 12]) if m else rng.choice([3, 4, 5, 6, 8, 10, 12])
        shape = rng.choice(["chain", "tree", "tree", "ring", "star"])
        mols.append((n, shape) + gen_molecule(rng, n, shape))
    ntot = sum(m[0] for m in mols)
    # numbering: parent-first (topology order) or shuffled
    numbering = rng.choice(["parent-first", "parent-first", "shuffled", "shuffled-in-molecule"])
    glob = []
    off = 0
    for n, shape, tree, extra in mols:
        ids = list(range(off, off + n))
        if numbering == "shuffled-in-molecule":
            rng.shuffle(ids)
        glob.append(ids)
        off += n
    if numbering == "shuffled":
        perm = list(range(ntot))
        rng.shuffle(perm)
        glob = [[perm[i] for i in ids] for ids in glob]
    mol_of = [0] * ntot
    bonds = []
    for m, ((n, shape, tree, extra), ids) in enumerate(zip(mols, glob)):
        for i in ids:
            mol_of[i] = m
        for p, c in tree + extra:
            bonds.append([ids[p], ids[c]])
    if rng.random() < 0.5:
        rng.shuffle(bonds)
    bonds = [[b, a] if rng.random() < 0.3 else [a, b] for a, b in bonds]
    frames = []
    for f in range(n_frames):
        B = approx_box(cells[f])
        w = min(widths(B))
        diag = np.array([B[0, 0], B[1, 1], B[2, 2]])
        pos = np.zeros((ntot, 3))
        for (n, shape, tree, extra), ids in zip(mols, glob):
            for _ in range(200):
                loc = np.zeros((n, 3))
                loc[0] = [rng.random() * diag[k] for k in range(3)]
                bl = rng.uniform(0.09, 0.16)
                if shape == "ring" and n >= 3:
                    R = bl / (2 * math.sin(math.pi / n))
                    u = np.array([rng.gauss(0, 1) for _ in range(3)]); u /= np.linalg.norm(u)
                    v = np.cross(u, [rng.gauss(0, 1) for _ in range(3)]); v /= np.linalg.norm(v)
                    for a in range(n):
                        loc[a] = loc[0] + R * (math.cos(2 * math.pi * a / n) - 1) * u + R * math.sin(2 * math.pi * a / n) * v
                else:
                    for p, c in tree:
                        d = np.array([rng.gauss(0, 1) for _ in range(3)])
                        loc[c] = loc[p] + bl * d / np.linalg.norm(d)
                ext = max(np.linalg.norm(loc[a] - loc[b]) for a in range(n) for b in range(n))
                if ext < 0.4 * w:
                    break
            scatter = rng.choice(["per-atom", "per-atom", "per-molecule", "none"])
            sh_m = [rng.randint(-2, 2) for _ in range(3)]
            for a, i in enumerate(ids):
                k = [rng.randint(-2, 2) for _ in range(3)] if scatter == "per-atom" else (sh_m if scatter == "per-molecule" else [0, 0, 0])
                pos[i] = loc[a] + k[0] * B[0] + k[1] * B[1] + k[2] * B[2]
        frames.append({"xyz": [[int(round(v * G)) for v in p] for p in pos], "cell": cells[f], "time": float(rng.randint(0, 1000)) / 4})
    return {"frames": frames, "bonds": bonds, "mol_of": mol_of, "numbering": numbering,
            "kind": kind if series in ("single", "independent") else "%s+cells:%s" % (kind, series), "cell_series": series,
            "shapes": [m[1] for m in mols], "sizes": [m[0] for m in mols], "mols": glob,
            "tree_bonds": [[ids[p], ids[c]] for (n, shape, tree, extra), ids in zip(mols, glob) for p, c in tree]}


def gen_case(rng):
    kind = rng.choice(["cubic", "ortho", "ortho", "tric", "tric"])
    api = rng.choice(["whole", "image", "image"])
    guessed = api == "image" and rng.random() < 0.5
    case = gen_system(rng, kind, rng.choice([1, 1, 1, 2, 2, 3]), many=guessed and rng.random() < 0.85)
    case["api"] = api
    case["inplace"] = rng.random() < 0.5
    case["make_whole"] = rng.random() < 0.7
    case["anchors"] = case["others"] = None
    case["sorted_bonds"] = None
    # how the trajectory got its times (constructor / left to the default 0,1,2.. / assigned afterwards as float32, float64
    # or a list) and its cell (float32 lengths+angles / double-precision unitcell_vectors)
    case["time_mode"] = rng.choice(["ctor", "ctor", "ctor", "late32", "late64", "late64", "latelist", "default"])
    case["cell_mode"] = "vectors64" if rng.random() < 0.15 else "lengths32"
    if case["api"] == "image" and not guessed:
        mols = [list(m) for m in case["mols"]]
        order = sorted(range(len(mols)), key=lambda m: -len(mols[m]))
        na = rng.randint(1, min(3, len(mols)))
        anc = order[:na]
        if rng.random() < 0.3:
            rng.shuffle(anc)
        case["anchors"] = [mols[m] for m in anc]
        case["others"] = [mols[m] for m in range(len(mols)) if m not in anc]
        if rng.random() < 0.3:
            for m in case["anchors"] + case["others"]:
                rng.shuffle(m)
    if rng.random() < 0.15 and (case["api"] == "whole" or case["make_whole"]):
        # the caller supplies a proper parent-first walk himself
        case["sorted_bonds"] = [list(b) for b in case["tree_bonds"]]
    elif case["api"] == "image" and not case["make_whole"] and rng.random() < 0.3:
        # sorted_bonds given although make_whole=False: documented as irrelevant then -- nothing may be made whole
        case["sorted_bonds"] = [list(b) for b in case["tree_bonds"]]
    return case


def gen_history(rng):
    """a sequence of re-imaging calls and topology / trajectory edits on ONE trajectory object.  The full bond graph
    belongs to molecules built whole and short; bonds are withheld, added, deleted, atoms sliced away, a small molecule
    stacked on -- every intermediate bond graph is a subgraph of it, so its molecules are short as well."""
    kind = rng.choice(["cubic", "ortho", "tric", "tric"])
    nf = rng.choice([1, 2, 3, 4, 5])
    sysd = gen_system(rng, kind, nf)
    n = len(sysd["frames"][0]["xyz"])
    full = [list(b) for b in sysd["bonds"]]
    alive = list(range(n))                      # current index -> original atom id
    cur = [b for b in full if rng.random() < 0.6]
    pending = [b for b in full if b not in cur]
    initial = [list(b) for b in cur]
    ops = []
    next_id = n

    def reimage():
        return {"op": rng.choice(["whole", "image"]), "inplace": rng.random() < 0.5, "make_whole": rng.random() < 0.8,
                "adopt": rng.random() < 0.5}
    if rng.random() < 0.5:
        ops.append(reimage())
    stacked = False
    for _ in range(rng.randint(2, 6)):
        choices = ["copy_top", "set_xyz"]
        if nf >= 2:
            choices += ["slice"] * 3
        addable = [b for b in pending if b[0] in alive and b[1] in alive]
        if addable:
            choices += ["add_bond"] * 4
        if cur:
            choices += ["del_bond"]
        if len(alive) > 3:
            choices += ["atom_slice"]
        if not stacked:
            choices += ["stack"]
        ch = rng.choice(choices)
        if ch == "add_bond":
            b = rng.choice(addable)
            pending.remove(b)
            cur.append(b)
            ops.append({"op": "add_bond", "bond": [alive.index(b[0]), alive.index(b[1])]})
        elif ch == "del_bond":
            k = rng.randrange(len(cur))
            pending.append(cur.pop(k))
            ops.append({"op": "del_bond", "k": k})
        elif ch == "copy_top":
            ops.append({"op": "copy_top"})
        elif ch == "set_xyz":
            ops.append({"op": "set_xyz", "how": rng.choice(["fortran", "float64", "strided"])})
        elif ch == "slice":
            # frames through slice(copy=...): steps != 1, reversed, offsets -- at least one frame left
            for _try in range(20):
                step = rng.choice([2, 2, 3, -1, -2, 1])
                start = rng.choice([None, 0, 1]) if step > 0 else rng.choice([None, nf - 1])
                stop = rng.choice([None, nf, nf - 1]) if step > 0 else None
                left = len(range(nf)[slice(start, stop, step)])
                if left >= 1:
                    break
            else:
                start, stop, step, left = None, None, 1, nf
            nf = left
            ops.append({"op": "slice", "start": start, "stop": stop, "step": step, "copy": rng.random() < 0.35})
            ops.append(dict(reimage(), inplace=rng.random() < 0.7))
        elif ch == "atom_slice":
            keep = sorted(rng.sample(range(len(alive)), rng.randint(2, len(alive) - 1)))
            alive = [alive[k] for k in keep]
            cur = [b for b in cur if b[0] in alive and b[1] in alive]
            ops.append({"op": "atom_slice", "keep": keep, "inplace": rng.random() < 0.4})
        else:
            stacked = True
            p0 = [rng.randint(0, 2 * G) for _ in range(3)]
            ops.append({"op": "stack", "xyz": [p0, [p0[0] + rng.randint(60, 120), p0[1] + rng.randint(-60, 60), p0[2]]], "bonds": [[0, 1]]})
            alive += [next_id, next_id + 1]
            cur.append([next_id, next_id + 1])
            next_id += 2
        if rng.random() < 0.65:
            ops.append(reimage())
    if ops[-1]["op"] not in ("whole", "image"):
        ops.append(reimage())
    return {"history": True, "frames": sysd["frames"], "bonds": initial, "mol_of": list(range(n)), "ops": ops, "kind": sysd["kind"],
            "numbering": "history", "shapes": sysd["shapes"], "sizes": sysd["sizes"], "api": "history", "inplace": False,
            "make_whole": True, "anchors": None, "others": None, "sorted_bonds": None,
            "time_mode": rng.choice(["ctor", "ctor", "late32", "late64", "latelist", "default"]), "cell_mode": "lengths32"}


def expand_history(c, o):
    """one pseudo case/out per re-imaging step of a history (the step's own coordinates and bonds at that moment)"""
    pcs, pos = [], []
    for si, st in enumerate(o.get("steps") or []):
        pc = {"frames": [{"xyz_f": b} for b in st["before"]], "bonds": st["bonds_now"], "api": st["op"],
              "inplace": st["inplace"], "make_whole": st["make_whole"], "anchors": [], "others": [], "sorted_bonds": None,
              "kind": c["kind"], "numbering": "history", "shapes": c["shapes"], "sizes": [st["n_atoms"]],
              "_origin": c, "_step": si}
        po = dict(st, err=None)
        pcs.append(pc)
        pos.append(po)
    if o.get("err") is not None:
        pcs.append({"frames": [], "bonds": [], "api": "history", "inplace": False, "make_whole": True, "anchors": [], "others": [],
                    "sorted_bonds": None, "kind": c["kind"], "numbering": "history", "shapes": c["shapes"], "sizes": c["sizes"],
                    "_origin": c, "_step": len(pcs)})
        pos.append({"err": o["err"], "msg": o.get("msg")})
    return pcs, pos


def exact_coords(xyz_f):
    """float32 values (given as floats) -> (integers, K) with value = integer / 2^K exactly"""
    from fractions import Fraction
    fr = [[Fraction(v) for v in p] for p in xyz_f]
    K = 10
    for p in fr:
        for v in p:
            K = max(K, v.denominator.bit_length() - 1)
    return [[int(v * (1 << K)) for v in p] for p in fr], K


def frame_coords(frame):
    return np.array(frame["xyz_f"], dtype=np.float64) if "xyz_f" in frame else np.array(frame["xyz"], dtype=np.float64) / G


# ----------------------------------------------------------------------------- Coq literals
def coq_pairs(l):
    return clist(["(%s, %s)" % (cnat(a), cnat(b)) for a, b in l])


def coq_case(case, f, out):
    fr = out["frames"][f]
    K = fr["K"]
    b = fr["box"]
    if "xyz_f" in case["frames"][f]:
        ints, Kc = exact_coords(case["frames"][f]["xyz_f"])
        Kt = max(K, Kc)
        b = [[v << (Kt - K) for v in row] for row in b]
        pts = [[v << (Kt - Kc) for v in p] for p in ints]
    else:
        pts = [[v << (K - 10) for v in p] for p in case["frames"][f]["xyz"]]
    box = "(mkBox %s %s %s %s %s %s)" % tuple(cz(v) for v in (b[0][0], b[1][0], b[1][1], b[2][0], b[2][1], b[2][2]))
    xyz = clist(["(%s,%s,%s)" % tuple(cz(v) for v in p) for p in pts])
    srt = "None" if case["sorted_bonds"] is None else "(Some %s)" % coq_pairs(case["sorted_bonds"])
    image = case["api"] == "image"
    anchors = clist([clist([cnat(a) for a in m]) for m in (out.get("anchors_used") or [])]) if image else "[]"
    others = clist([clist([cnat(a) for a in m]) for m in (out.get("others_used") or [])]) if image else "[]"
    return "(mkW %s %s %s %s %s %s %s %s)" % (box, coq_pairs(case["bonds"]), srt, "true" if image else "false",
                                              "true" if case["make_whole"] else "false", anchors, others, xyz)


def coq_codes(ctx, coq):
    """w_code of every frame inside coqc (vm_compute); returns ({index: code}, errors)"""
    shards = [list(range(i, min(i + 40, len(coq)))) for i in range(0, len(coq), 40)]
    procs = []
    for si, sh in enumerate(shards):
        lines = ["From Coq Require Import ZArith List Bool.", "Import ListNotations.",
                 "Require Import MD.Neigh.Model MD.Whole.Model MD.Whole.Run.", "Open Scope Z_scope.",
                 "Definition cases : list (wcase * list vec * option (list (list nat)) * option (option (list (list nat))) * option (list (list nat))) := [",
                 ";\n".join("(%s, %s, %s, %s, %s)" % coq[k] for k in sh), "].",
                 "Eval vm_compute in (7777, map (fun c5 => let c := fst (fst c5) in "
                 "w_code (fst (fst c)) (snd (fst c)) * 256 + w_split_code (fst (fst c)) + "
                 "match snd c with Some m => (if w_mols_ok (fst (fst c)) m then 0 else 16) + (if w_mols_loop_ok (fst (fst c)) m then 0 else 32) | None => 0 end + "
                 "match snd (fst c5) with Some g => if w_guess_ok (fst (fst c)) g then 0 else 64 | None => 0 end + "
                 "match snd c5 with Some o => if w_others_ok (fst (fst c)) o then 0 else 128 | None => 0 end) cases)."]
        path = os.path.join(ctx.tmp, "wcodes_%d_%d.v" % (len(coq), si))
        with open(path, "w") as fh:
            fh.write("\n".join(lines) + "\n")
        procs.append((sh, path))
    codes, errors = {}, []
    running, todo = [], list(procs)
    while todo or running:
        while todo and len(running) < 6:
            sh, path = todo.pop(0)
            pr = subprocess.Popen(["timeout", "1200", "coqc", "-Q", COQ, "MD", path], cwd=ctx.tmp,
                                  stdout=subprocess.PIPE, stderr=subprocess.STDOUT, text=True)
            running.append((pr, sh))
        pr, sh = running.pop(0)
        o = pr.communicate()[0]
        if pr.returncode != 0:
            errors.append("coqc rc=%s: %s" % (pr.returncode, o[-1500:]))
            continue
        m = re.search(r"\(7777,\s*(\[[^\]]*\]|nil)\s*\)", o, re.S)
        if not m:
            errors.append("unparsed coqc output: " + o[-1500:])
            continue
        vals = [int(x) for x in re.findall(r"-?\d+", m.group(1))]
        if len(vals) != len(sh):
            errors.append("wrong number of codes")
            continue
        for k, v in zip(sh, vals):
            codes[k] = v
    return codes, errors


def run_impl_robust(ctx, script, cases, keys, chunk=400, crash_out=None):
    """run the implementation on all cases.  When the runner process dies or hangs (a crash / endless loop inside a
    C kernel) the cases of that batch are re-run one by one, smallest first, until the first one that kills the
    runner is found: it is reported as {"err": "Crash"}; the remaining cases of the batch are marked "NotRun"."""
    def payload(cs):
        return {"cases": [{k: c.get(k) for k in keys} for c in cs]}
    outs = [None] * len(cases)
    for s0 in range(0, len(cases), chunk):
        idx = list(range(s0, min(s0 + chunk, len(cases))))
        try:
            res = ctx.run_impl(script, payload([cases[i] for i in idx]), timeout=900)["out"]
            for i, o in zip(idx, res):
                outs[i] = o
            continue
        except Exception as e:  # noqa: BLE001
            ctx.log("implementation runner died on a batch (%s); isolating" % str(e)[-120:].replace("\n", " "))
        found = False
        for i in sorted(idx, key=lambda i: len(str(cases[i])))[:60]:
            if found:
                break
            try:
                outs[i] = ctx.run_impl(script, payload([cases[i]]), timeout=120)["out"][0]
            except Exception as e:  # noqa: BLE001
                outs[i] = dict(crash_out or {}, err="Crash", msg=str(e)[-300:])
                found = True
        for i in idx:
            if outs[i] is None:
                outs[i] = dict(crash_out or {}, err="NotRun")
    return outs


# ----------------------------------------------------------------------------- recovery + oracle
def recover(case, f, out):
    """integer lattice multipliers of every atom (relative to the first anchor atom for image_molecules);
    returns (list of triples, worst residual, translation estimate)"""
    fr = out["frames"][f]
    B = np.array(fr["box"], dtype=np.float64) / float(1 << fr["K"])
    old = frame_coords(case["frames"][f])
    new = np.array(fr["new"], dtype=np.float64)
    D = new - old
    if case["api"] == "image":
        r = out["anchors_used"][0][0]
        E = D - D[r][None, :]
    else:
        E = D
    k = -E @ np.linalg.inv(B)
    ki = np.rint(k)
    res = float(np.max(np.abs(k - ki))) if len(k) else 0.0
    return ki.astype(int).tolist(), res, B, new


def summary(case):
    return {"api": case["api"], "kind": case["kind"], "numbering": case["numbering"], "shapes": case["shapes"],
            "sizes": case["sizes"], "inplace": case["inplace"], "make_whole": case["make_whole"],
            "explicit_anchors": case["anchors"] is not None, "explicit_sorted_bonds": case["sorted_bonds"] is not None,
            "n_frames": len(case["frames"]), "digest": digest([case["frames"], case["bonds"]]),
            "history_step": case.get("_step"), "time_mode": (case.get("_origin") or case).get("time_mode"),
            "cell_mode": (case.get("_origin") or case).get("cell_mode")}


IMPL_KEYS = ("frames", "bonds", "mol_of", "api", "inplace", "make_whole", "anchors", "others", "sorted_bonds", "ops", "time_mode", "cell_mode")


def natoms(c):
    return len(c["frames"][0].get("xyz_f", c["frames"][0].get("xyz"))) if c["frames"] else 0


def run_cases(ctx, cases):
    outs = run_impl_robust(ctx, "whole_impl.py", cases, IMPL_KEYS, chunk=200)
    keep = [i for i, o in enumerate(outs) if o.get("err") != "NotRun"]
    cases = [cases[i] for i in keep]
    outs = [outs[i] for i in keep]
    nh = sum(1 for c in cases if c.get("history"))
    ex_c, ex_o = [], []
    for c, o in zip(cases, outs):
        if c.get("history"):
            pcs, pos = expand_history(c, o)
            ex_c += pcs
            ex_o += pos
        else:
            ex_c.append(c)
            ex_o.append(o)
    cases, outs = ex_c, ex_o
    ctx.log("implementation ran on %d systems (%d op histories -> %d re-imaging steps in all)" % (len(cases), nh, sum(1 for c in cases if "_origin" in c)))
    jobs, coq, rec = [], [], {}
    for ci, (c, o) in enumerate(zip(cases, outs)):
        if o["err"] is not None:
            continue
        for f in range(len(c["frames"])):
            b = o["frames"][f]["box"]
            if not (b[0][1] == 0 and b[0][2] == 0 and b[1][2] == 0):
                ctx.break_("correspondence:cell-not-lower-triangular", str(b))
                return
            ks, res, B, new = recover(c, f, o)
            rec[(ci, f)] = (ks, res, B, new)
            jobs.append((ci, f))
            mols = o.get("molecules")
            cml = lambda ms: clist([clist([cnat(a) for a in m]) for m in ms])       # noqa: E731
            g = o.get("guessed")
            guess = "None" if (f > 0 or mols is None or g in (None, "error")) else (
                "(Some None)" if g == "refused" else "(Some (Some %s))" % cml(g))
            oth = "None"
            if f == 0 and mols is not None and c["api"] == "image" and c.get("others") is None and o.get("others_used") is not None:
                oth = "(Some %s)" % cml([sorted(m) for m in o["others_used"]])
            coq.append((coq_case(c, f, o), clist(["(%s,%s,%s)" % tuple(cz(v) for v in k) for k in ks]),
                        "None" if mols is None or f > 0 else "(Some %s)" % cml(mols), guess, oth))
    codes, errs = coq_codes(ctx, coq) if coq else ({}, [])
    if errs:
        ctx.break_("correspondence:coqc-evaluation", "\n".join(errs))
    for k in range(len(jobs)):
        codes.setdefault(k, 3 * 256)      # not evaluated (coqc error): agrees with nothing
    split_of = {jobs[k]: v % 8 for k, v in codes.items()}
    cert_bad = [jobs[k] for k, v in codes.items() if (v % 16) >= 8]
    mols_bad = [jobs[k] for k, v in codes.items() if (v % 32) >= 16]
    loop_bad = [jobs[k] for k, v in codes.items() if (v % 64) >= 32]
    if loop_bad:
        ctx.break_("correspondence:find_molecules-loop-model",
                   "coq/Whole/Molecules.v (the loop of Topology.find_molecules) does not reproduce the implementation on %d topologies, e.g. bonds %s -> %s" % (
                       len(loop_bad), cases[loop_bad[0][0]]["bonds"], outs[loop_bad[0][0]].get("molecules")))
    guess_bad = [jobs[k] for k, v in codes.items() if (v % 128) >= 64]
    others_bad = [jobs[k] for k, v in codes.items() if (v % 256) >= 128]
    code_of = {jobs[k]: v // 256 for k, v in codes.items()}
    extra0 = ctx.notes.setdefault("coverage_extra", {})
    gstat = extra0.setdefault("guess_anchor_molecules_vs_model", {"compared": 0, "identical": 0, "refusals": 0, "differ(informational)": 0})
    for (ci, f) in jobs:
        if f == 0 and outs[ci].get("molecules") is not None and outs[ci].get("guessed") not in (None, "error"):
            gstat["compared"] += 1
            gstat["refusals"] += outs[ci]["guessed"] == "refused"
            gstat["identical"] += (ci, f) not in guess_bad
    gstat["differ(informational)"] += len(guess_bad)
    if guess_bad:
        # the size heuristic itself is not part of the property: a different (still molecule-valued) guess is recorded only
        ctx.log("Topology.guess_anchor_molecules differs from coq/Whole/Anchors.v on %d systems (informational), e.g. bonds %s -> %s" % (
            len(guess_bad), cases[guess_bad[0][0]]["bonds"], outs[guess_bad[0][0]].get("guessed")))
    ostat = extra0.setdefault("default_other_molecules_vs_model", {"compared": 0, "differ": 0})
    ostat["compared"] += sum(1 for (ci, f) in jobs if f == 0 and cases[ci]["api"] == "image" and cases[ci].get("others") is None
                             and outs[ci].get("molecules") is not None and outs[ci].get("others_used") is not None)
    ostat["differ"] += len(others_bad)
    for ci, f in others_bad:
        ctx.fail("image_molecules: the default other_molecules are not the molecules outside the anchors", cases[ci].get("_origin", cases[ci]),
                 observed={"anchors_used": outs[ci].get("anchors_used"), "others_used": outs[ci].get("others_used"), "molecules": outs[ci].get("molecules")},
                 expected="Anchors.default_others (Props/C11.v default_others_complement): every molecule that is not an anchor, each once",
                 tags={"api": "image", "kind": "default others", "explained_by": None})
    extra0["find_molecules_partitions_compared"] = extra0.get("find_molecules_partitions_compared", 0) + sum(
        1 for (ci, f) in jobs if f == 0 and outs[ci].get("molecules") is not None)
    for ci, f in mols_bad:
        ctx.fail("Topology.find_molecules does not return the connected components of the bond graph", cases[ci].get("_origin", cases[ci]),
                 observed={"molecules": outs[ci].get("molecules"), "bonds": cases[ci]["bonds"]},
                 expected="Model.find_molecules (Props/C11.v find_molecules_partition_connected)",
                 tags={"api": "find_molecules", "kind": "wrong partition", "explained_by": None})
    if cert_bad:
        ctx.break_("certificate:tree_order-fails-walk_ok",
                   "the repaired bond walk does not pass the certificate of whole_fixed_order_partial on %d frames, e.g. bonds %s" % (
                       len(cert_bad), cases[cert_bad[0][0]]["bonds"]))
    vals = list(code_of.values())
    n_frag = sum(1 for v in vals if v == 4)
    cur_ok = all(v in (0, 2, 4) for v in vals)
    fix_ok = all(v in (0, 1, 4) for v in vals)
    variant = "bond_order_fix" if fix_ok else (KNOWN_VARIANT if cur_ok else None)
    extra = ctx.notes.setdefault("coverage_extra", {})
    extra["bond_order_variant_matching_impl"] = variant
    extra["frames_compared"] = extra.get("frames_compared", 0) + len(vals) - n_frag
    extra["frames_fragile_not_compared"] = extra.get("frames_fragile_not_compared", 0) + n_frag
    extra["walk_ok_certificate_checked_frames"] = extra.get("walk_ok_certificate_checked_frames", 0) + len(vals) - len(cert_bad)
    ctx.log("frames: %d compared, %d fragile; codes %s" % (len(vals) - n_frag, n_frag, {v: vals.count(v) for v in sorted(set(vals))}))
    if any(v == 5 for v in vals):
        ctx.break_("correspondence:run-walk-inconsistent", "coq/Whole/Run.v disagrees with coq/Whole/Model.v")
    if vals and variant is None:
        bad = [j for j in jobs if code_of.get(j) == 3] or [j for j in jobs if code_of.get(j) in (1, 2)]
        bad.sort(key=lambda j: natoms(cases[j[0]]))
        ci, f = bad[0]
        ctx.break_("correspondence:whole-model",
                   "neither bond-order variant of the model reproduces the implementation on all frames (codes %s); smallest: %s frame %d -> %s" % (
                       {v: vals.count(v) for v in sorted(set(vals))}, summary(cases[ci]), f, rec[(ci, f)][0]))
    # ---- the property on the implementation's own output
    for ci, (c, o) in enumerate(zip(cases, outs)):
        moved = False
        fails = []
        refused = o["err"] == "ValueError" and c["api"] == "image" and c["anchors"] is None and \
            "Could not find any anchor molecules" in (o.get("msg") or "")
        if refused:
            # guess_anchor_molecules refuses (no molecule is larger than its own size threshold): no result, no claim
            ctx.count(summary(c), nontrivial=False, bucket="refused/no-anchor-guess")
            continue
        f64_refused = False
        if o["err"] is not None:
            # a cell assigned through unitcell_vectors is held in double precision; with inplace=True it reaches the float32
            # kernels uncast and they refuse it (known finding C11-float64-cell-inplace-refused)
            f64_refused = (o["err"] == "ValueError" and "Buffer dtype mismatch" in (o.get("msg") or "") and c.get("cell_mode") == "vectors64"
                           and bool(c["inplace"]))
            fails.append(("error", {"class": o["err"], "msg": o.get("msg")}, None))
            if o.get("input_changed"):
                fails.append(("a refused call modified its input", {"changed": o["input_changed"]}, None))
        else:
            if c["inplace"]:
                if not o["returned_is_self"]:
                    fails.append(("inplace=True did not return the receiver", None, None))
            else:
                if o["returned_is_self"] or o["shares_memory"]:
                    fails.append(("inplace=False returned the receiver or a view of it", None, None))
                if not (o["orig_xyz_same"] and o["orig_cell_same"] and o["orig_time_same"]):
                    fails.append(("inplace=False modified the original trajectory",
                                  {"changed(bytes or dtype)": o.get("input_changed"), "time_mode": c.get("time_mode"), "cell_mode": c.get("cell_mode")}, None))
            if not (o["res_cell_same"] and o["res_time_same"] and o["orig_cell_same"] and o["orig_time_same"]):
                fails.append(("unit cells or times changed", dict({k: o[k] for k in ("res_cell_same", "res_time_same")},
                                                                  input_changed=o.get("input_changed"), time_mode=(c.get("_origin") or c).get("time_mode"),
                                                                  cell_mode=(c.get("_origin") or c).get("cell_mode")), None))
            for f in range(len(c["frames"])):
                ks, res, B, new = rec[(ci, f)]
                fr = o["frames"][f]
                code = code_of.get((ci, f))
                moved = moved or any(any(k) for k in ks)
                if res > NONLATTICE_TOL:
                    fails.append(("atoms moved by a vector that is not a lattice vector", {"frame": f, "residual": res}, code))
                if fr.get("dist_change", 0.0) > 1e-4:
                    fails.append(("minimum-image distances changed", {"frame": f, "max_change_nm": fr["dist_change"]}, code))
                whole = c["api"] == "whole" or c["make_whole"]
                if whole and fr.get("bond_plain_minus_mic", 0.0) > 1e-4:
                    fails.append(("bonded pair left split", {"frame": f, "bond": fr.get("worst_bond"),
                                                             "plain_minus_minimum_image_nm": fr["bond_plain_minus_mic"]}, code))
                if c["api"] == "image":
                    anc = [a for m in o["anchors_used"] for a in m]
                    cen = new[anc].mean(axis=0)
                    tgt = 0.5 * np.array([B[0, 0], B[1, 1], B[2, 2]])
                    if float(np.max(np.abs(cen - tgt))) > 1e-4:
                        fails.append(("anchor molecules not centred in the cell", {"frame": f, "centre": cen.tolist(), "target": tgt.tolist()}, code))
                    if not whole:
                        for m in o["anchors_used"] + o["others_used"]:
                            if len({tuple(ks[a]) for a in m}) > 1:
                                fails.append(("a molecule was not moved as a rigid unit", {"frame": f, "molecule": m}, code))
                                break
                    for m in o["others_used"]:
                        # successive floor wrap: the centroid ends in [0,cz), then [0,by), then [0,ax)
                        cm = new[m].mean(axis=0)
                        if np.any(cm < -1e-4) or np.any(cm > tgt * 2 + 1e-4):
                            fails.append(("a non-anchor molecule was not wrapped into the cell", {"frame": f, "molecule": m, "centroid": cm.tolist()}, code))
                            break
        if "_origin" not in c:
            iv = ctx.notes.setdefault("coverage_extra", {}).setdefault("input_variants(time/cell/inplace)", {})
            kv = "%s/%s/%s" % (c.get("time_mode"), c.get("cell_mode"), "inplace" if c["inplace"] else "copy")
            iv[kv] = iv.get(kv, 0) + 1
        ctx.count(summary(c), nontrivial=moved,
                  bucket="%s%s/%s/%s/%s%s%s" % ("history-step/" if "_origin" in c else "", c["api"], c["kind"], c["numbering"], "inplace" if c["inplace"] else "copy",
                                              "" if c["api"] == "whole" or c["make_whole"] else "/nowhole",
                                              "/explicit" if c["anchors"] is not None else ""))
        for desc, detail, code in fails:
            sp = split_of.get((ci, detail["frame"])) if isinstance(detail, dict) and "frame" in detail else None
            # a split bond is the known defect when, on this very frame, the model predicts one for the bond order as
            # found and none for the repaired order (make_whole stage not fragile) and the frame does not contradict
            # the as-found model (attribution is per frame, so that the replay of the case alone gives the same verdict;
            # a run whose frames do not all follow one variant is reported separately as a broken correspondence)
            explained = KNOWN_VARIANT if (desc == "bonded pair left split" and sp == 1 and code in (0, 2, 4)) else None
            if desc == "error" and f64_refused:
                explained = "float64_cell_inplace"
            api = "make_molecules_whole" if c["api"] == "whole" else "image_molecules"
            if "_origin" in c:
                detail = dict(detail or {}, history_step=c["_step"], bonds_at_that_moment=c["bonds"])
            ctx.fail("%s: %s" % (api, desc), c.get("_origin", c), observed=detail,
                     expected="lattice moves only; every bonded pair at its minimum-image separation; cells, times and (inplace=False) the original untouched",
                     tags={"api": c["api"], "kind": desc, "explained_by": explained, "numbering": c["numbering"],
                           "explicit_sorted_bonds": c["sorted_bonds"] is not None})
    return outs


def probe_case(xyz, bonds, api="whole", make_whole=True):
    cell = {"lengths": [4096, 4096, 4096], "angles": [90.0, 90.0, 90.0]}
    return {"frames": [{"xyz": xyz, "cell": cell, "time": 1.0}], "bonds": bonds, "mol_of": [0] * len(xyz),
            "numbering": "probe", "kind": "cubic", "shapes": ["probe"], "sizes": [len(xyz)], "mols": [list(range(len(xyz)))],
            "tree_bonds": bonds, "api": api, "inplace": False, "make_whole": make_whole, "anchors": None, "others": None,
            "sorted_bonds": None}


FIXED_PROBES = [
    # the 3-atom witness of Props/C11.v whole_any_order_refuted: atoms 0 and 1 both bonded to atom 2, atom 1 one cell away
    probe_case([[1000, 1000, 1000], [1100 + 4096, 1100, 1000], [1050, 1100, 1000]], [[0, 2], [1, 2]]),
    dict(probe_case([[1000, 1000, 1000], [1100 + 4096, 1100, 1000], [1050, 1100, 1000]], [[0, 2], [1, 2]], api="image"),
         anchors=[[0, 1, 2]], others=[]),
    # parent-first numbering of the same molecule
    probe_case([[1050, 1100, 1000], [1000, 1000, 1000], [1100 + 4096, 1100, 1000]], [[0, 1], [0, 2]]),
]


def correspond(ctx):
    quick = ctx.tier == "quick"
    cases = [dict(c) for c in FIXED_PROBES] + [gen_case(ctx.rng) for _ in range(540 if quick else 10000)]
    cases += [gen_history(ctx.rng) for _ in range(120 if quick else 1200)]
    ctx.log("systems:", len(cases))
    run_cases(ctx, cases)


def search(ctx, broken):
    cases = [gen_case(ctx.rng) for _ in range(250)] + [gen_history(ctx.rng) for _ in range(50)]
    ctx.log("search: %d more systems" % len(cases))
    run_cases(ctx, cases)


def replay(ctx, rec):
    run_cases(ctx, [rec["case"]])
