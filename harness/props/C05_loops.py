"""C05 translator, part 2: the LOOP SKELETONS and index arithmetic of the distance kernels and the control flow of
the Python glue -> coq/Gen/PBCLoops.v (compared with coq/PBC/Kernel.v in coq/PBC/KernelTie.v).

From geometry.cpp (dist_mic_triclinic, dist_mic_triclinic_t) and kernels/distancekernels.h (both preprocessor
variants of dist/dist_mic and dist_t/dist_mic_t): outer/inner loop headers, the offsets computed from pairs[] and
times[], the pointer advances (xyz += n_atoms*3, box_matrix += 9, box_matrix +=/-= box_offset) and where they
stand relative to the pair loop, the image loops, the output stores.
From distance.py (ast): per API function the order of validation / empty return / periodic branch / plain branch,
the validation expression, the shape of the empty result, the cell-array shape check, _is_orthorhombic's indices,
the sign of the separation in the *_t reference functions.

A source outside the accepted grammar raises Untranslatable (fail-closed: the caller puts the reference copy in
place and the run is degraded to 'correspondence only')."""
import ast
import re


class Untranslatable(Exception):
    pass


def _strip(t):
    t = re.sub(r"/\*.*?\*/", "", t, flags=re.S)
    return re.sub(r"//[^\n]*", "", t)


def variant(text, periodic):
    """distancekernels.h is included twice; keep the branch of #ifdef COMPILE_WITH_PERIODIC_BOUNDARY_CONDITIONS."""
    res, stack = [], []
    for line in text.splitlines():
        s = line.strip()
        if s.startswith("#ifdef COMPILE_WITH_PERIODIC_BOUNDARY_CONDITIONS"):
            stack.append(periodic)
        elif s.startswith("#else") and stack:
            stack[-1] = not stack[-1]
        elif s.startswith("#endif") and stack:
            stack.pop()
        elif s.startswith("#"):
            raise Untranslatable("unexpected preprocessor line: " + s)
        elif all(stack):
            res.append(line)
    return "\n".join(res)


def c_function(text, name):
    m = re.search(r"^void\s+%s\s*\(([^)]*)\)" % re.escape(name), text, re.M | re.S)
    if not m:
        raise Untranslatable("function %s not found" % name)
    params = [p.strip() for p in m.group(1).split(",")]
    i = text.index("{", m.end())
    depth, j = 0, i
    while True:
        c = text[j]
        if c == "{":
            depth += 1
        elif c == "}":
            depth -= 1
            if depth == 0:
                break
        j += 1
    return params, text[i:j + 1]


def _block_end(body, start):
    """index just after the brace block that opens at or after start"""
    i = body.index("{", start)
    depth, j = 0, i
    while True:
        if body[j] == "{":
            depth += 1
        elif body[j] == "}":
            depth -= 1
            if depth == 0:
                return i, j + 1
        j += 1


def _index_expr(expr, counts, tag):
    """m * [n_atoms *] arr[stride*v + add]  in any factor order -> (arr, var, mult, uses_natoms, stride, add)"""
    factors = [f.strip() for f in expr.split("*")]
    # re-join the factor that contains the bracket (stride*v inside the subscript was split too)
    joined, cur = [], None
    for f in factors:
        if cur is not None:
            cur += "*" + f
            if "]" in f:
                joined.append(cur)
                cur = None
        elif "[" in f and "]" not in f:
            cur = f
        else:
            joined.append(f)
    if cur is not None:
        raise Untranslatable("%s: unbalanced subscript in %r" % (tag, expr))
    mult, nat, ref = 1, False, None
    for f in joined:
        if re.fullmatch(r"\d+", f):
            mult *= int(f)
        elif f == counts[1]:
            if nat:
                raise Untranslatable("%s: n_atoms twice in %r" % (tag, expr))
            nat = True
        else:
            m = re.fullmatch(r"(\w+)\[\s*(\d+)\s*\*\s*(\w+)\s*\+\s*(\d+)\s*\]", f)
            if not m or ref is not None:
                raise Untranslatable("%s: index expression %r not recognised" % (tag, expr))
            ref = (m.group(1), m.group(3), int(m.group(2)), int(m.group(4)))
    if ref is None:
        raise Untranslatable("%s: no array reference in %r" % (tag, expr))
    return ref[0], ref[1], mult, nat, ref[2], ref[3]


def _kindex(t):
    _arr, _var, mult, nat, stride, add = t
    return "(mk_kindex %d %s %d %d)" % (mult, "true" if nat else "false", stride, add)


def kernel_skeleton(params, body, tag, timed, periodic, tric):
    ints = [p.split()[-1] for p in params if re.match(r"(const\s+)?int\s+\w+$", p)]
    if len(ints) != 3:
        raise Untranslatable("%s: expected three int count parameters, got %r" % (tag, ints))
    counts = ints                                   # rows, atoms, pairs
    cname = {counts[0]: "CRows", counts[1]: "CAtoms", counts[2]: "CPairs"}
    loops = [(m.start(), m.group(1), int(m.group(2)), m.group(3)) for m in re.finditer(
        r"for\s*\(\s*int\s+(\w+)\s*=\s*(-?\d+)\s*;\s*\1\s*<\s*(-?\w+)\s*;\s*\1\+\+\s*\)", body)]
    n_for = len(re.findall(r"\bfor\s*\(", body))
    if n_for != len(loops) or re.search(r"\b(while|goto|do)\b", body):
        raise Untranslatable("%s: a loop is outside the accepted form" % tag)
    want = 2 + (3 if tric else 0)
    if len(loops) != want:
        raise Untranslatable("%s: %d loops, expected %d" % (tag, len(loops), want))
    (o_pos, o_var, o_lo, o_hi), (i_pos, i_var, i_lo, i_hi) = loops[0], loops[1]
    if o_hi not in cname or i_hi not in cname:
        raise Untranslatable("%s: loop bound is not a count parameter" % tag)
    _ob, o_end = _block_end(body, o_pos)
    i_beg, i_end = _block_end(body, i_pos)
    if not (o_pos < i_pos and i_end <= o_end):
        raise Untranslatable("%s: pair loop not nested in the frame loop" % tag)
    before, inner, after = body[o_pos:i_pos], body[i_beg:i_end], body[i_end:o_end]
    outside = body[:o_pos] + body[o_end:]
    # ---- integer declarations (offsets)
    decl = {}
    for m in re.finditer(r"\bint\s+(\w+)\s*=\s*([^;]+);", before + inner):
        if m.group(1) == i_var or m.group(1) in "xyz":
            continue
        decl[m.group(1)] = m.group(2).strip()
    def resolve(name):
        e = decl.get(name)
        if e is None:
            raise Untranslatable("%s: %s is not declared" % (tag, name))
        return e
    # ---- position loads
    pos = {}
    for m in re.finditer(r"fvec4\s+(pos[12])\s*\(\s*xyz\[(\w+)\]\s*,\s*xyz\[(\w+)\s*\+\s*1\]\s*,\s*xyz\[(\w+)\s*\+\s*2\]\s*,\s*0\s*\)\s*;", inner):
        if not (m.group(2) == m.group(3) == m.group(4)):
            raise Untranslatable("%s: position load mixes offsets" % tag)
        pos[m.group(1)] = m.group(2)
    if sorted(pos) != ["pos1", "pos2"] or len(re.findall(r"xyz\s*\[", body)) != 6:
        raise Untranslatable("%s: position loads not recognised" % tag)
    pair_off, time_off = [], []
    for which in ("pos1", "pos2"):
        e = resolve(pos[which])
        if timed:
            m = re.fullmatch(r"(\w+)\s*\+\s*(\w+)", e)
            if not m:
                raise Untranslatable("%s: offset %r is not time + pair" % (tag, e))
            parts = [_index_expr(resolve(m.group(1)), counts, tag), _index_expr(resolve(m.group(2)), counts, tag)]
            t = [p for p in parts if p[0] == "times"]
            p = [p for p in parts if p[0] == "pairs"]
            if len(t) != 1 or len(p) != 1 or t[0][1] != o_var or p[0][1] != i_var:
                raise Untranslatable("%s: time/pair offsets not recognised" % tag)
            time_off.append(t[0])
            pair_off.append(p[0])
        else:
            p = _index_expr(e, counts, tag)
            if p[0] != "pairs" or p[1] != i_var:
                raise Untranslatable("%s: pair offset not recognised" % tag)
            pair_off.append(p)
    # ---- pointer arithmetic on the inputs
    adv = [(m.start(), m.group(1), m.group(2), m.group(3).strip()) for m in
           re.finditer(r"\b(xyz|box_matrix|pairs|times)\s*(\+=|-=|=)\s*([^;]+);", body)]
    incr = re.findall(r"\b(xyz|box_matrix|pairs|times)\s*(\+\+|--)|(\+\+|--)\s*(xyz|box_matrix|pairs|times)\b", body)
    if incr or re.search(r"\b(xyz|box_matrix|pairs|times)\s*(\+=|-=|=)", outside) or \
            re.search(r"\b(xyz|box_matrix|pairs|times)\s*(\+=|-=|=)[^=]", inner):
        raise Untranslatable("%s: pointer arithmetic outside the accepted places" % tag)
    xyz_adv, box_adv, box_off = "None", "None", "None"
    seen = []
    for _p, name, op, e in adv:
        where = "before" if re.search(r"\b%s\s*%s\s*%s\s*;" % (name, re.escape(op), re.escape(e)), before) else "after"
        seen.append((name, op, e, where))
    if not timed:
        exp_n = 1 + (1 if periodic else 0)
        if len(seen) != exp_n:
            raise Untranslatable("%s: pointer advances %r" % (tag, seen))
        for name, op, e, where in seen:
            if where != "after" or op != "+=":
                raise Untranslatable("%s: pointer advance %r not after the pair loop" % (tag, (name, op, e)))
            fs = sorted(f.strip() for f in e.split("*"))
            if name == "xyz":
                nums = [f for f in fs if f.isdigit()]
                if len(fs) != 2 or len(nums) != 1 or counts[1] not in fs:
                    raise Untranslatable("%s: xyz advance %r" % (tag, e))
                xyz_adv = "(Some (%s, true))" % nums[0]
            elif name == "box_matrix" and e.isdigit():
                box_adv = "(Some %s)" % e
            else:
                raise Untranslatable("%s: pointer advance %r" % (tag, (name, op, e)))
    else:
        if periodic:
            if len(seen) != 2:
                raise Untranslatable("%s: pointer advances %r" % (tag, seen))
            (n1, op1, e1, w1), (n2, op2, e2, w2) = seen
            if not (n1 == n2 == "box_matrix" and op1 == "+=" and op2 == "-=" and e1 == e2 and w1 == "before" and w2 == "after"):
                raise Untranslatable("%s: box offset dance %r" % (tag, seen))
            # the += must precede every read of box_matrix in the prologue
            first_read = re.search(r"box_matrix\s*\[", before)
            if first_read is None or not re.search(r"box_matrix\s*\+=", before[:first_read.start()]):
                raise Untranslatable("%s: box_matrix read before it is advanced" % tag)
            t = _index_expr(resolve(e1), counts, tag)
            if t[0] != "times" or t[1] != o_var:
                raise Untranslatable("%s: box offset %r" % (tag, resolve(e1)))
            box_off = "(Some (%s, true, true))" % _kindex(t)
        elif seen:
            raise Untranslatable("%s: pointer advances %r" % (tag, seen))
    # ---- image loops
    image = "None"
    if tric:
        im = loops[2:]
        if [l[1] for l in im] != ["x", "y", "z"] or not (o_pos < im[0][0] and im[0][0] > i_pos):
            raise Untranslatable("%s: image loops not recognised" % tag)
        try:
            image = "(Some ((%d, %d), (%d, %d), (%d, %d)))" % tuple(v for l in im for v in (l[2], int(l[3])))
        except ValueError:
            raise Untranslatable("%s: image loop bound is not a literal" % tag)
    # ---- stores
    st = re.findall(r"\*displacement_out\s*=\s*temp\[(\d)\]\s*;\s*displacement_out\+\+\s*;", inner)
    n_dpp = len(re.findall(r"displacement_out\s*\+\+", body)) + len(re.findall(r"displacement_out\s*(\+=|-=)", body))
    n_spp = len(re.findall(r"distance_out\s*\+\+", body)) + len(re.findall(r"distance_out\s*(\+=|-=)", body))
    n_sst = len(re.findall(r"\*distance_out\s*=", inner))
    if len(st) != n_dpp or n_sst != n_spp or len(re.findall(r"\*displacement_out\s*=", body)) != len(st) or \
            len(re.findall(r"\*distance_out\s*=", body)) != n_sst:
        raise Untranslatable("%s: output stores not recognised" % tag)
    stores = "([%s]%%nat, %d%%nat)" % ("; ".join(st), n_spp)
    return ("Definition %s_skel : kskel :=\n  mk_kskel (%d, %s) (%d, %s)\n    (%s, %s)\n    %s\n    %s %s\n    %s\n    %s\n    %s." % (
        tag, o_lo, cname[o_hi], i_lo, cname[i_hi], _kindex(pair_off[0]), _kindex(pair_off[1]),
        ("(Some (%s, %s))" % (_kindex(time_off[0]), _kindex(time_off[1]))) if timed else "None",
        xyz_adv, box_adv, box_off, image, stores))


# ---------------------------------------------------------------------------------------------- distance.py
API_FUNCS = [("compute_displacements", "disp"), ("compute_distances_core", "core"), ("compute_distances_t", "dist_t")]


def _py_func(tree, name):
    for n in tree.body:
        if isinstance(n, ast.FunctionDef) and n.name == name:
            return n
    raise Untranslatable("python function %s not found" % name)


def _validation(test, tag):
    """not np.all(np.logical_and(X < N, X >= 0)) -> (X, N, coq text of the predicate on (n, p))"""
    if not (isinstance(test, ast.UnaryOp) and isinstance(test.op, ast.Not)):
        return None
    c = test.operand
    if not (isinstance(c, ast.Call) and ast.unparse(c.func) == "np.all" and len(c.args) == 1):
        return None
    la = c.args[0]
    if not (isinstance(la, ast.Call) and ast.unparse(la.func) == "np.logical_and" and len(la.args) == 2):
        return None
    ops = {ast.Lt: "<?", ast.LtE: "<=?", ast.Gt: ">?", ast.GtE: ">=?"}
    parts, subj, bound = [], None, None
    for cmp_ in la.args:
        if not (isinstance(cmp_, ast.Compare) and len(cmp_.ops) == 1 and type(cmp_.ops[0]) in ops
                and isinstance(cmp_.left, ast.Name)):
            return None
        subj = subj or cmp_.left.id
        if cmp_.left.id != subj:
            return None
        rhs = cmp_.comparators[0]
        if isinstance(rhs, ast.Constant) and isinstance(rhs.value, int):
            r = "%d" % rhs.value
        else:
            b = ast.unparse(rhs)
            bound = bound or b
            if b != bound:
                return None
            r = "n"
        parts.append("(p %s %s)" % (ops[type(cmp_.ops[0])], r))
    return subj, bound, " && ".join(parts)


def _dims(call, tag):
    """np.zeros((len(xyz), 0, 3), ...) -> list of gdim"""
    if not (isinstance(call, ast.Call) and ast.unparse(call.func) == "np.zeros" and call.args
            and isinstance(call.args[0], ast.Tuple)):
        raise Untranslatable("%s: empty result is not np.zeros(shape)" % tag)
    out = []
    for e in call.args[0].elts:
        s = ast.unparse(e)
        if s == "len(xyz)":
            out.append("DLenXyz")
        elif s == "len(times)":
            out.append("DLenTimes")
        elif isinstance(e, ast.Constant) and isinstance(e.value, int):
            out.append("DLit %d" % e.value)
        else:
            raise Untranslatable("%s: dimension %s of the empty result" % (tag, s))
    return out


N_ATOMS = {"disp": "traj.n_atoms", "core": "positions.shape[1]", "dist_t": "traj.n_atoms"}
HAVE_CELL = {"disp": "periodic and traj._have_unitcell", "core": "periodic and unitcell_vectors is not None",
             "dist_t": "periodic and traj._have_unitcell"}


def api_glue(tree, fname, tag):
    fn = _py_func(tree, fname)
    steps, out = [], []
    ens = {}
    for st in fn.body:
        if isinstance(st, ast.Expr) and isinstance(st.value, ast.Constant):
            continue                                                   # docstring
        if isinstance(st, ast.Assign) and isinstance(st.value, ast.Call) and ast.unparse(st.value.func) == "ensure_type":
            ens[st.targets[0].id] = st.value
            continue
        if isinstance(st, ast.If):
            v = _validation(st.test, tag)
            if v is not None:
                subj, bound, pred = v
                raises = (len(st.body) == 1 and isinstance(st.body[0], ast.Raise) and
                          ast.unparse(st.body[0].exc).startswith("ValueError("))
                if not raises or st.orelse:
                    raise Untranslatable("%s: validation does not raise ValueError" % tag)
                if subj == "pairs" and bound == N_ATOMS[tag]:
                    steps.append("GValidatePairs")
                    out.append("Definition %s_valid_pairs (n p : Z) : bool := %s." % (tag, pred))
                elif subj == "times" and bound == "traj.n_frames":
                    steps.append("GValidateTimes")
                    out.append("Definition %s_valid_times (n p : Z) : bool := %s." % (tag, pred))
                else:
                    raise Untranslatable("%s: validation of %s against %s" % (tag, subj, bound))
                continue
            t = ast.unparse(st.test)
            if t == "len(pairs) == 0":
                if not (len(st.body) == 1 and isinstance(st.body[0], ast.Return)) or st.orelse:
                    raise Untranslatable("%s: empty-pairs branch" % tag)
                steps.append("GEmptyReturn")
                out.append("Definition %s_empty_shape : list gdim := [%s]." % (tag, "; ".join(_dims(st.body[0].value, tag))))
                continue
            if t == HAVE_CELL[tag]:
                if st.orelse:
                    raise Untranslatable("%s: periodic branch has an else" % tag)
                steps.append("GPeriodicBranch")
                text = ast.unparse(st)
                # every path through the branch returns; the cell array is checked against (len(xyz), 3, 3);
                # the flag is computed from the whole checked array
                box = [s for s in st.body if isinstance(s, ast.Assign) and ast.unparse(s.targets[0]) == "box"]
                if len(box) != 1 or "shape=(len(xyz), 3, 3)" not in ast.unparse(box[0].value) or \
                        not ast.unparse(box[0].value).startswith("ensure_type("):
                    raise Untranslatable("%s: cell array check not recognised" % tag)
                flag = [s for s in st.body if isinstance(s, ast.Assign) and ast.unparse(s.targets[0]) == "orthogonal"]
                if len(flag) != 1 or ast.unparse(flag[0].value) != "_is_orthorhombic(box)":
                    raise Untranslatable("%s: orthogonal flag not recognised" % tag)
                last = st.body[-1]
                if not (isinstance(last, ast.If) and ast.unparse(last.test) == "opt" and last.orelse
                        and isinstance(last.body[-1], ast.Return) and isinstance(last.orelse[-1], ast.Return)):
                    raise Untranslatable("%s: opt switch of the periodic branch not recognised" % tag)
                kernel = {"disp": "_geometry._dist_mic_displacement", "core": "_geometry._dist_mic", "dist_t": "_geometry._dist_mic_t"}[tag]
                ref = {"disp": "_displacement_mic", "core": "_distance_mic", "dist_t": "_distance_mic_t"}[tag]
                args_t = "xyz, pairs, times, " if tag == "dist_t" else "xyz, pairs, "
                if ("%s(%sbox.transpose(0, 2, 1).copy(), out, orthogonal)" % (kernel, args_t)) not in ast.unparse(last):
                    raise Untranslatable("%s: kernel call not recognised" % tag)
                if ("return %s(%sbox.transpose(0, 2, 1), orthogonal)" % (ref, args_t)) not in ast.unparse(last):
                    raise Untranslatable("%s: reference call not recognised" % tag)
                continue
            if t == "opt":
                steps.append("GPlainBranch")
                kernel = {"disp": "_geometry._dist_displacement(xyz, pairs, out)", "core": "_geometry._dist(xyz, pairs, out)",
                          "dist_t": "_geometry._dist_t(xyz, pairs, times, out)"}[tag]
                ref = {"disp": "_displacement(xyz, pairs)", "core": "_distance(xyz, pairs)", "dist_t": "_distance_t(xyz, pairs, times)"}[tag]
                text = ast.unparse(st)
                rest = ast.unparse(fn.body[fn.body.index(st) + 1]) if fn.body.index(st) + 1 < len(fn.body) else ""
                if kernel not in text or ("return " + ref) not in (text + "\n" + rest):
                    raise Untranslatable("%s: plain branch not recognised" % tag)
                continue
            raise Untranslatable("%s: unrecognised top-level if: %s" % (tag, t))
        if isinstance(st, ast.Return) and steps and steps[-1] == "GPlainBranch":
            continue
        raise Untranslatable("%s: unrecognised top-level statement: %s" % (tag, ast.unparse(st)[:60]))
    for need in ("xyz", "pairs") + (("times",) if tag == "dist_t" else ()):
        if need not in ens:
            raise Untranslatable("%s: ensure_type(%s) missing" % (tag, need))
    if "shape=(None, 2)" not in ast.unparse(ens["pairs"]) or "dtype=np.int32" not in ast.unparse(ens["pairs"]):
        raise Untranslatable("%s: pairs are not checked to be (n, 2) int32" % tag)
    out.insert(0, "Definition %s_steps : list gstep := [%s]." % (tag, "; ".join(steps)))
    return out


def is_orthorhombic(tree):
    fn = _py_func(tree, "_is_orthorhombic")
    body = [s for s in fn.body if not (isinstance(s, ast.Expr) and isinstance(s.value, ast.Constant))]
    if len(body) != 1 or not isinstance(body[0], ast.Return):
        raise Untranslatable("_is_orthorhombic: shape not recognised")
    m = re.fullmatch(r"not np\.any\(box\[:, \[([\d, ]+)\], \[([\d, ]+)\]\]\)", ast.unparse(body[0].value))
    if not m:
        raise Untranslatable("_is_orthorhombic: expression not recognised")
    rows = [int(x) for x in m.group(1).split(",")]
    cols = [int(x) for x in m.group(2).split(",")]
    if len(rows) != len(cols):
        raise Untranslatable("_is_orthorhombic: index lists differ in length")
    return "Definition np_offdiag : list (nat * nat) := [%s]%%nat." % "; ".join("(%d, %d)" % rc for rc in zip(rows, cols))


def np_t_sign(tree):
    """sign of the separation formed by the time-pair reference functions: +1 for x[t2,p2]-x[t1,p1], -1 for the opposite"""
    out = []
    for name, tag in (("_distance_mic_t", "np_mic_t"), ("_distance_t", "np_plain_t")):
        fn = _py_func(tree, name)
        src = ast.unparse(fn)
        if name == "_distance_mic_t":
            if "for i, (a, b) in enumerate(times)" not in src or "for j, (c, d) in enumerate(pairs)" not in src:
                raise Untranslatable("%s: loops not recognised" % name)
            if "r12 = xyz[a, c] - xyz[b, d]" in src:
                sign = -1
            elif "r12 = xyz[b, d] - xyz[a, c]" in src:
                sign = 1
            else:
                raise Untranslatable("%s: separation not recognised" % name)
        else:
            if "frame1 = xyz[:, pairs[:, 0]][times[:, 0]]" not in src or "frame2 = xyz[:, pairs[:, 1]][times[:, 1]]" not in src:
                raise Untranslatable("%s: frame selection not recognised" % name)
            if "np.linalg.norm(frame1 - frame2, axis=2)" in src:
                sign = -1
            elif "np.linalg.norm(frame2 - frame1, axis=2)" in src:
                sign = 1
            else:
                raise Untranslatable("%s: separation not recognised" % name)
        out.append("Definition %s_sign : Z := %d." % (tag, sign))
    # frame loops of the per-frame reference functions
    for name in ("_distance_mic", "_displacement_mic"):
        src = ast.unparse(_py_func(tree, name))
        if "for i in range(len(xyz))" not in src or "for j, (a, b) in enumerate(pairs)" not in src or \
                "_reduce_box_vectors(box_vectors[i].T)" not in src:
            raise Untranslatable("%s: loops not recognised" % name)
    return out


def generate(geom_src, kern_src, dist_src, header):
    geom, kern = _strip(geom_src), _strip(kern_src)
    parts = [header, "From Coq Require Import ZArith List Bool.", "Import ListNotations.",
             "Require Import MD.PBC.Model MD.PBC.Kernel.", "Open Scope Z_scope.", ""]
    p, b = c_function(geom, "dist_mic_triclinic")
    parts.append(kernel_skeleton(p, b, "tric", timed=False, periodic=True, tric=True))
    p, b = c_function(geom, "dist_mic_triclinic_t")
    parts.append(kernel_skeleton(p, b, "tric_t", timed=True, periodic=True, tric=True))
    pk, nk = variant(kern, True), variant(kern, False)
    p, b = c_function(pk, "dist_mic")
    parts.append(kernel_skeleton(p, b, "ortho", timed=False, periodic=True, tric=False))
    p, b = c_function(pk, "dist_mic_t")
    parts.append(kernel_skeleton(p, b, "ortho_t", timed=True, periodic=True, tric=False))
    p, b = c_function(nk, "dist")
    parts.append(kernel_skeleton(p, b, "plain", timed=False, periodic=False, tric=False))
    p, b = c_function(nk, "dist_t")
    parts.append(kernel_skeleton(p, b, "plain_t", timed=True, periodic=False, tric=False))
    tree = ast.parse(dist_src)
    for fname, tag in API_FUNCS:
        parts += api_glue(tree, fname, tag)
    parts.append(is_orthorhombic(tree))
    parts += np_t_sign(tree)
    # compute_distances is a pure forwarder
    fwd = ast.unparse(_py_func(tree, "compute_distances").body[-1])
    if fwd != "return compute_distances_core(traj.xyz, atom_pairs, unitcell_vectors=traj.unitcell_vectors, periodic=periodic, opt=opt)":
        raise Untranslatable("compute_distances is not the plain forwarder to compute_distances_core")
    return "\n".join(parts) + "\n"
