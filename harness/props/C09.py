"""C09 — observables are invariant under rigid motion and lattice translation.

Theorems  coq/Props/C09.v (algebra over Z: dot/triple/Binet-Cauchy, distance, angle, dihedral, Rg, gyration
          tensor invariants, all pair distances; C05's shift_invariant lifted to minimum-image distance /
          angle / dihedral; one-bin model of the neighbour-list x-range search: as-found refuted, repaired proved).
Tie       (a) the observables of coq/Invar/Model.v are evaluated by vm_compute on integer coordinates and
              compared with what mdtraj reports for the same coordinates;
          (b) the one-bin neighbour-list model is compared with md.compute_neighborlist on collinear atoms
              (two-variant rule: nl_cur = as found, nl_fix = repaired);
          (c) metamorphic runs through the public API: 16 observables before/after rotation + translation
              (1, 30, 500 nm), per-atom lattice shifts, whole-system translation.
Search    = the metamorphic runs (they are the property itself); a broken proof / tie widens them.
"""
import math

import numpy as np

LEVEL = "proof"
THEOREMS = "Props/C09.v"
EXTS = ["_geometry", "_rmsd", "neighbors", "neighborlist", "drid"]
RULE = ("a case = (structure, transformation, observable): structures = 1vii, bpti, 2EQQ (two models) from tests/data "
        "and random 5-200 atom systems; transformations = random proper rotation + translation of 1/30/500 nm, "
        "per-atom lattice shifts in [-3,3]^3, whole-system translation in a periodic cell (9 cell kinds of C05); "
        "one evaluation = one observable compared between the original and the transformed structure; all are "
        "non-trivial (the transformation is never the identity); distinct by hash of (structure, transformation, observable)")
TRUSTED = ["harness/impl/invar_impl.py (applies the transformation in float64, rounds to float32, calls mdtraj)",
           "harness/props/C09.py: tolerance formulas, guard bands, float64 brute-force neighbour reference"]
ASSUMPTIONS = [
    "the theorems cover rotations with rational entries (M/n, M integer Euler-Rodrigues matrix) and exact arithmetic; "
    "float32 rounding of the transformed coordinates (E = one ulp of the largest coordinate: 6e-5 nm at 500 nm) "
    "is bounded per observable from its conditioning: distances/contacts 4E (hard bound 1.7E + kernel), angles "
    "4E(1/l1+1/l2), dihedrals 2.5E(1/(l1 s1)+1/(l3 s2))(1+(l1+l3)/l2) (entries with a bond-angle sine below 0.05 "
    "excluded), Rg 1E (average over atoms), principal moments 2 Rg E, RMSD 1.5E+3e-5, Kabsch-Sander energies 250E "
    "(|dE/dr| <= 2.8/r^2, r ~ 0.2 nm), DRID 30E + 4x the spread under random perturbations of size E; the fraction of "
    "each bound actually used by the unchanged tree is measured on every run (evidence: max_fraction_of_bound_used, "
    "0.1-0.3, i.e. 3-10x headroom)",
    "discrete observables (DSSP, hydrogen bonds, Kabsch-Sander pattern) are compared exactly unless they change "
    "under random perturbations of size E of the ORIGINAL structure (then the case is counted as excluded); "
    "neighbour sets are compared exactly outside pairs within 4E+1e-5 of the cutoff (float64 reference distances)",
    "solvent-accessible area: total area within 0.05 % under translation, 3 % under rotation (quadrature, 480 points)",
    "that contacts, DRID, DSSP, hydrogen-bond and Kabsch-Sander kernels are functions of pair distances/angles is "
    "tested by the runs, not proved",
]

PROTEINS = [("1vii.pdb", 0), ("bpti.pdb", 0), ("2EQQ.pdb", 0), ("2EQQ.pdb", 7)]
OBS_PROTEIN = ["distances", "angles", "dihedrals", "rmsd", "rg", "gyration_moments", "contacts", "baker_hubbard",
               "kabsch_sander", "dssp", "neighbors", "neighborlist", "drid", "sasa"]
OBS_RANDOM = ["distances", "angles", "dihedrals", "rmsd", "rg", "gyration_moments", "neighbors", "neighborlist", "drid", "sasa"]
OBS_PERIODIC = ["distances", "displacements_norm", "angles", "dihedrals", "neighbors", "neighborlist"]
OBS_PERIODIC_PROTEIN = OBS_PERIODIC + ["contacts", "baker_hubbard"]
DISCRETE = {"baker_hubbard", "dssp", "wernet_nilsson"}
TORSIONS = ["phi", "psi", "omega", "chi1", "chi2", "chi3", "chi4", "chi5"]
CONTACT_SCHEMES = ["ca", "closest", "closest-heavy", "sidechain", "sidechain-heavy"]


def tors(which, periodic, opt):
    return "tors:%s:%s:%s" % (which, "T" if periodic else "F", "T" if opt else "F")
# multi-frame trajectories (each frame its own motion / lattice shifts / cell): observables that one call returns per frame
OBS_MULTI_PROTEIN = ["distances", "angles", "dihedrals", "rmsd", "rg", "gyration_moments", "contacts", "wernet_nilsson",
                     "kabsch_sander", "dssp", "neighbors", "neighborlist", "drid"]
OBS_MULTI_RANDOM = ["distances", "angles", "dihedrals", "rmsd", "rg", "gyration_moments", "neighbors", "neighborlist", "drid", "sasa"]
U = 1024


def ulp32(m):
    m = max(float(m), 1e-30)
    return 2.0 ** (math.floor(math.log2(m)) - 23)


def rand_quat(rng):
    while True:
        q = [rng.gauss(0, 1) for _ in range(4)]
        n = math.sqrt(sum(x * x for x in q))
        if n > 1e-3:
            return [x / n for x in q]


def rand_dir(rng, length):
    while True:
        v = [rng.gauss(0, 1) for _ in range(3)]
        n = math.sqrt(sum(x * x for x in v))
        if n > 1e-3:
            return [length * x / n for x in v]


def random_system(rng, n, size_nm=2.5, min_sep=0.12):
    pts = []
    tries = 0
    while len(pts) < n and tries < 100000:
        tries += 1
        p = [rng.randrange(0, int(size_nm * U)) for _ in range(3)]
        if all(sum((p[k] - q[k]) ** 2 for k in range(3)) >= (min_sep * U) ** 2 for q in pts):
            pts.append(p)
    return pts


# ------------------------------------------------------------------------------------------ jobs
def rigid_jobs(ctx):
    rng = ctx.rng
    quick = ctx.tier == "quick"
    jobs = []
    n_rigid = 2 if quick else 12
    structs = [({"pdb": p, "frame": f}, OBS_PROTEIN, "%s#%d" % (p, f)) for p, f in PROTEINS]
    sizes = [5, 17, 60, 200] if quick else [5, 6, 9, 17, 33, 60, 120, 200] * 3
    for n in sizes:
        structs.append(({"xyz": random_system(rng, n), "grid": 10}, OBS_RANDOM, "random%d" % n))
    for st, obs, label in structs:
        for T in (1.0, 30.0, 500.0):
            E = ulp32(T + 8.0)
            variants = [{"kind": "ref"}] + [{"kind": "jitter", "eps": E, "seed": rng.randrange(1 << 30)} for _ in range(3)]
            for k in range(n_rigid):
                q = rand_quat(rng) if k > 0 else [1.0, 0.0, 0.0, 0.0]      # k = 0: pure translation
                variants.append({"kind": "rigid", "q": q, "t": rand_dir(rng, T)})
            variants.append({"kind": "rigid", "q": rand_quat(rng), "t": [0.0, 0.0, 0.0]})   # pure rotation
            jobs.append({"structure": st, "box": None, "seed": rng.randrange(1 << 30), "cutoff": 0.45,
                         "observables": obs, "variants": variants, "label": label, "T": T, "n_sphere_points": 480})
    # DEGENERATE EXTENTS: exactly flat sheets in the coordinate planes and straight chains along the axes (all atoms share
    # one or two coordinates), compared with their rotated images, for the neighbour observables
    def flat(n, fixed):
        pts = []
        while len(pts) < n:
            p = [rng.randrange(0, int(2.2 * U)) for _ in range(3)]
            for k, v in fixed.items():
                p[k] = v
            if all(sum((p[k] - q[k]) ** 2 for k in range(3)) >= (0.12 * U) ** 2 for q in pts):
                pts.append(p)
        return pts
    shapes = [("sheet-xy", {2: U}), ("sheet-xz", {1: 0}), ("sheet-yz", {0: 3 * U // 2}), ("line-x", {1: U, 2: U // 2}),
              ("line-y", {0: 0, 2: 0}), ("line-z", {0: U, 1: 2 * U})]
    for tag, fixed in shapes:
        n = rng.choice([6, 14]) if tag.startswith("line") else rng.choice([20, 45])
        E = ulp32(1.0 + 8.0)
        variants = [{"kind": "ref"}] + [{"kind": "jitter", "eps": E, "seed": rng.randrange(1 << 30)} for _ in range(3)]
        variants += [{"kind": "rigid", "q": rand_quat(rng), "t": rand_dir(rng, 1.0)} for _ in range(2 if quick else 6)]
        variants.append({"kind": "rigid", "q": rand_quat(rng), "t": [0.0, 0.0, 0.0]})
        jobs.append({"structure": {"xyz": flat(n, fixed), "grid": 10}, "box": None, "seed": rng.randrange(1 << 30),
                     "cutoff": rng.choice([0.3, 0.45, 0.7]), "observables": ["distances", "neighbors", "neighborlist", "rg"],
                     "variants": variants, "label": "degenerate/%s%d" % (tag, n), "T": 1.0})
    # A trajectory that CARRIES a unit cell but is analysed with periodic=False: plain Euclidean geometry, hence invariant
    # under rigid motion.  The cell (2.2 x 2.6 x 2.0 nm resp. sheared) is smaller than the protein, so a call that falls
    # back to the minimum image folds many of the requested separations and changes under rotation.
    npobs = ["distances", "displacements_norm", "angles", "dihedrals", "neighbors", "neighborlist", "baker_hubbard",
             "wernet_nilsson"] + ["contacts:" + sc for sc in CONTACT_SCHEMES] + \
            [tors(w, False, o) for w in TORSIONS for o in (True, False)]
    for box in ([[2.2, 0, 0], [0, 2.6, 0], [0, 0, 2.0]], [[2.2, 0, 0], [0.7, 2.6, 0], [-0.5, 0.9, 2.0]]):
        for T in ((1.0,) if quick else (1.0, 30.0)):
            E = ulp32(T + 8.0)
            variants = [{"kind": "ref"}] + [{"kind": "jitter", "eps": E, "seed": rng.randrange(1 << 30)} for _ in range(3)]
            variants += [{"kind": "rigid", "q": rand_quat(rng), "t": rand_dir(rng, T)} for _ in range(2 if quick else 6)]
            variants.append({"kind": "rigid", "q": rand_quat(rng), "t": [0.0, 0.0, 0.0]})
            jobs.append({"structure": {"pdb": "1vii.pdb", "frame": 0}, "box": box, "periodic_flag": False,
                         "seed": rng.randrange(1 << 30), "cutoff": 0.45, "observables": npobs,
                         "observables_nojitter": [o for o in npobs if o.startswith("tors:") or o.startswith("contacts:")],
                         "variants": variants, "label": "1vii/cell-carried-periodic=False/%s" % ("ortho" if box[1][0] == 0 else "triclinic"),
                         "T": T, "n_sphere_points": 240})
    # MULTI-FRAME: one trajectory whose frames are the same structure, each frame under its OWN rigid motion; every
    # per-frame observable must equal the one of the untransformed multi-frame trajectory, frame by frame
    multi = [({"pdb": "1vii.pdb", "frame": 0}, OBS_MULTI_PROTEIN, "1vii.pdb#0/multi", 3),
             ({"xyz": random_system(rng, 24), "grid": 10}, OBS_MULTI_RANDOM, "random24/multi", 4)]
    if not quick:
        multi += [({"pdb": "bpti.pdb", "frame": 0}, OBS_MULTI_PROTEIN, "bpti.pdb#0/multi", 5),
                  ({"pdb": "2EQQ.pdb", "frame": 7}, OBS_MULTI_PROTEIN, "2EQQ.pdb#7/multi", 4),
                  ({"xyz": random_system(rng, 90), "grid": 10}, OBS_MULTI_RANDOM, "random90/multi", 6)]
    for st, obs, label, m in multi:
        for T in ((30.0,) if quick else (1.0, 30.0, 500.0)):
            E = ulp32(T + 8.0)
            variants = [{"kind": "ref"}] + [{"kind": "jitter", "eps": E, "seed": rng.randrange(1 << 30)} for _ in range(3)]
            for k in range(2 if quick else 6):
                # variant 0 leaves frame 0 in place and moves the later frames; the others move every frame differently
                pf = [{"q": ([1.0, 0.0, 0.0, 0.0] if (k == 0 and f == 0) else rand_quat(rng)),
                       "t": ([0.0, 0.0, 0.0] if (k == 0 and f == 0) else rand_dir(rng, T))} for f in range(m)]
                variants.append({"kind": "rigid", "per_frame": pf})
            jobs.append({"structure": st, "box": None, "multi": {"n_frames": m, "boxes": None}, "seed": rng.randrange(1 << 30),
                         "cutoff": 0.45, "observables": obs, "variants": variants, "label": label, "T": T, "n_sphere_points": 240})
    return jobs


def lattice_jobs(ctx):
    import props.C05 as c05
    rng = ctx.rng
    quick = ctx.tier == "quick"
    jobs = []
    kinds = c05.CELL_KINDS
    reps = 1 if quick else 8
    for kind in kinds:
        for _ in range(reps):
            cell = c05.gen_cell(rng, kind)
            if rng.random() < 0.3:
                cell = c05.unreduce(rng, cell, big=False)
            n = rng.choice([5, 20, 60] if quick else [5, 12, 20, 60, 150])
            # atoms inside the primary cell (fractional coordinates), on the grid
            pts = []
            while len(pts) < n:
                f = [rng.random() for _ in range(3)]
                p = [int(round(sum(f[k] * cell[k][j] for k in range(3)))) for j in range(3)]
                if all(sum((p[k] - q[k]) ** 2 for k in range(3)) >= (0.1 * U) ** 2 for q in pts):
                    pts.append(p)
            box = [[v / U for v in row] for row in cell]
            E = ulp32(4 * 8.0 * 3)
            w = [rng.randrange(-30 * U, 30 * U) / U for _ in range(3)]
            variants = [{"kind": "ref"}] + [{"kind": "jitter", "eps": E, "seed": rng.randrange(1 << 30)} for _ in range(3)]
            variants += [{"kind": "lattice", "shifts": "random", "range": 3, "seed": rng.randrange(1 << 30)},
                         {"kind": "lattice", "shifts": "random", "range": 0, "seed": 1, "whole": w},
                         {"kind": "lattice", "shifts": "random", "range": 2, "seed": rng.randrange(1 << 30), "whole": w}]
            wmin = min(cell[0][0], cell[1][1], cell[2][2]) / U
            jobs.append({"structure": {"xyz": pts, "grid": 10}, "box": box, "seed": rng.randrange(1 << 30),
                         "cutoff": round(min(0.45, 0.3 * wmin), 3), "observables": OBS_PERIODIC, "variants": variants,
                         "label": "random%d/%s" % (n, kind), "T": 0.0, "kind": kind})
    # SMALL CELLS, cutoff just under half of the shorter edges (two or three voxel layers along y and z): neighbour
    # searches under whole-system translation and per-atom lattice shifts
    for rep in range(3 if quick else 16):
        ly, lz = rng.uniform(1.0, 1.5), rng.uniform(1.0, 1.5)
        lx = rng.uniform(1.0, 3.0)
        cell = [[c05._g(lx), 0, 0], [0, c05._g(ly), 0], [0, 0, c05._g(lz)]]
        if rep % 3 == 2:
            cell[1][0] = c05._g(rng.uniform(-0.3, 0.3) * lx)
            cell[2][0] = c05._g(rng.uniform(-0.3, 0.3) * lx)
            cell[2][1] = c05._g(rng.uniform(-0.3, 0.3) * ly)
        n = rng.choice([15, 40])
        pts = []
        while len(pts) < n:
            f = [rng.random() for _ in range(3)]
            p = [int(round(sum(f[k] * cell[k][j] for k in range(3)))) for j in range(3)]
            if all(sum((p[k] - q[k]) ** 2 for k in range(3)) >= (0.08 * U) ** 2 for q in pts):
                pts.append(p)
        E = ulp32(4 * 8.0 * 3)
        variants = [{"kind": "ref"}] + [{"kind": "jitter", "eps": E, "seed": rng.randrange(1 << 30)} for _ in range(3)]
        for _ in range(2):
            w = [rng.randrange(-3 * U, 3 * U) / U for _ in range(3)]
            variants.append({"kind": "lattice", "shifts": "random", "range": 0, "seed": 1, "whole": w})
        variants += [{"kind": "lattice", "shifts": "random", "range": 2, "seed": rng.randrange(1 << 30)},
                     {"kind": "lattice", "shifts": "random", "range": 1, "seed": rng.randrange(1 << 30),
                      "whole": [rng.randrange(-3 * U, 3 * U) / U for _ in range(3)]}]
        wmin = min(cell[1][1], cell[2][2], cell[0][0]) / U
        cut = round(rng.uniform(0.36, 0.49) * wmin, 3)
        if rep % 3 == 1:
            # rectangular cell with a y or z edge between cutoff and 2*cutoff (exactly two voxel layers along it): the
            # neighbour relation 'some image within the cutoff' is still invariant under translation and lattice shifts
            cut = round(rng.uniform(0.55, 0.9) * min(cell[1][1], cell[2][2]) / U, 3)
            cell[0][0] = max(cell[0][0], c05._g(2.4 * cut))
            pts = [[p[0] % cell[0][0], p[1], p[2]] for p in pts]
        jobs.append({"structure": {"xyz": pts, "grid": 10}, "box": [[v / U for v in row] for row in cell],
                     "seed": rng.randrange(1 << 30), "cutoff": cut,
                     "observables": ["distances", "neighbors", "neighborlist"], "variants": variants,
                     "label": "smallcell%d/%s" % (n, "triclinic" if rep % 3 == 2 else "ortho"), "T": 0.0, "kind": "smallcell"})
    # a protein in an orthorhombic and in a triclinic cell
    for box in ([[5.0, 0, 0], [0, 5.5, 0], [0, 0, 6.0]], [[5.0, 0, 0], [1.5, 5.5, 0], [-1.0, 2.0, 6.0]]):
        E = ulp32(4 * 8.0 * 3)
        variants = [{"kind": "ref"}] + [{"kind": "jitter", "eps": E, "seed": rng.randrange(1 << 30)} for _ in range(3)]
        variants += [{"kind": "lattice", "shifts": "random", "range": 2, "seed": rng.randrange(1 << 30)},
                     {"kind": "lattice", "shifts": "random", "range": 1, "seed": rng.randrange(1 << 30),
                      "whole": [rng.randrange(-20 * U, 20 * U) / U for _ in range(3)]}]
        # named torsion helpers with EXPLICIT flags (periodic=True x opt in {True, False}) under per-atom lattice shifts:
        # every helper in the rectangular cell; in the sheared cell the slow reference path for two of them (all: thorough)
        tz = [tors(w, True, True) for w in TORSIONS]
        slow = TORSIONS if (box[1][0] == 0 or not quick) else rng.sample(TORSIONS, 2)
        tz += [tors(w, True, False) for w in slow]
        jobs.append({"structure": {"pdb": "1vii.pdb", "frame": 0}, "snap": True, "center_in_box": True, "box": box,
                     "seed": rng.randrange(1 << 30), "cutoff": 0.45, "observables": OBS_PERIODIC_PROTEIN + tz,
                     "observables_nojitter": tz,
                     "variants": variants, "label": "1vii/%s" % ("ortho" if box[1][0] == 0 else "triclinic"), "T": 0.0,
                     "kind": "ortho" if box[1][0] == 0 else "triclinic"})
    # MULTI-FRAME with a cell whose KIND changes from frame to frame (exactly orthorhombic first and sheared later,
    # the reverse, a rectangular frame in the middle); each frame gets its own per-atom lattice shifts in ITS cell
    seqs = [["ortho", "triclinic", "monoclinic"], ["triclinic", "cubic", "hex60"]]
    if not quick:
        seqs += [["cubic", "rhombdod_sq"], ["truncoct", "ortho", "triclinic", "ortho"], ["ortho", "ortho", "triclinic"]] * 2
    for kinds_seq in seqs:
        cells = [c05.gen_cell(rng, k) for k in kinds_seq]
        m = len(cells)
        n = rng.choice([12, 30])
        small = [min(c[i][i] for c in cells) for i in range(3)]
        pts = []
        while len(pts) < n:
            p = [rng.randrange(0, small[j]) for j in range(3)]
            if all(sum((p[k] - q[k]) ** 2 for k in range(3)) >= (0.1 * U) ** 2 for q in pts):
                pts.append(p)
        E = ulp32(4 * 8.0 * 3)
        variants = [{"kind": "ref"}] + [{"kind": "jitter", "eps": E, "seed": rng.randrange(1 << 30)} for _ in range(3)]
        wpf = [[rng.randrange(-30 * U, 30 * U) / U for _ in range(3)] for _ in range(m)]
        variants += [{"kind": "lattice", "shifts": "random", "range": 3, "seed": rng.randrange(1 << 30)},
                     {"kind": "lattice", "shifts": "random", "range": 2, "seed": rng.randrange(1 << 30), "whole_per_frame": wpf}]
        wmin = min(small) / U
        jobs.append({"structure": {"xyz": pts, "grid": 10}, "box": [[v / U for v in row] for row in cells[0]],
                     "multi": {"n_frames": m, "boxes": [[[v / U for v in row] for row in c] for c in cells]},
                     "seed": rng.randrange(1 << 30), "cutoff": round(min(0.45, 0.3 * wmin), 3), "observables": OBS_PERIODIC,
                     "variants": variants, "label": "random%d/multi:%s" % (n, "+".join(kinds_seq)), "T": 0.0, "kind": "multi"})
    return jobs


# ------------------------------------------------------------------------------------------ comparison
def mic_analysis(x, box, g):
    """float64 minimum-image analysis for all atom pairs: (shortest image distance, second shortest, boundary)
    where boundary[i,j] is True when the sequentially wrapped separation lies within g of a face of the wrap
    region (= a rounding tie of the kernels within the float guard)."""
    d = x[None, :, :] - x[:, None, :]
    if box is None:
        dist = np.sqrt((d ** 2).sum(-1))
        return dist, np.full(dist.shape, np.inf), np.zeros(dist.shape, dtype=bool)
    b = np.array(box, dtype=np.float64).reshape(3, 3).copy()
    b[2] -= b[1] * np.round(b[2, 1] / b[1, 1])
    b[2] -= b[0] * np.round(b[2, 0] / b[0, 0])
    b[1] -= b[0] * np.round(b[1, 0] / b[0, 0])
    d = d - np.round(d[..., 2] / b[2, 2])[..., None] * b[2]
    d = d - np.round(d[..., 1] / b[1, 1])[..., None] * b[1]
    d = d - np.round(d[..., 0] / b[0, 0])[..., None] * b[0]
    boundary = ((np.abs(np.abs(d[..., 0]) - b[0, 0] / 2) < g) | (np.abs(np.abs(d[..., 1]) - b[1, 1] / 2) < g) |
                (np.abs(np.abs(d[..., 2]) - b[2, 2] / 2) < g))
    best = np.full(d.shape[:2], np.inf)
    second = np.full(d.shape[:2], np.inf)
    for i in range(-2, 3):
        for j in range(-2, 3):
            for k in range(-2, 3):
                v = ((d + i * b[0] + j * b[1] + k * b[2]) ** 2).sum(-1)
                second = np.where(v < best, best, np.minimum(second, v))
                best = np.minimum(best, v)
    return np.sqrt(best), np.sqrt(second), boundary


def mic_dist_matrix(x, box):
    return mic_analysis(x, box, 0.0)[0]


class Cmp:
    def __init__(self, ctx, job, res):
        self.ctx, self.job, self.res = ctx, job, res
        self.ref = res["variants"][0]
        self.jit = [v for v, jv in zip(res["variants"], job["variants"]) if jv["kind"] == "jitter"]
        self.x0 = np.array(res["xyz0"]).reshape(-1, 3)
        self.idx = {k: np.array(v, dtype=int) for k, v in res["index_sets"].items()}
        self.box = res["box_seen"]
        if job.get("periodic_flag") is False:
            self.box = None                      # the cell is carried but every call says periodic=False
        self.periodic = self.box is not None
        self._dm = None

    def dm(self):
        if self._dm is None:
            self._dm = mic_dist_matrix(self.x0, self.box)
        return self._dm

    def ambiguous(self, a, b, E):
        """pairs whose minimum-image displacement VECTOR is not stable under perturbations of size E: a rounding tie
        of the wrap, or two images of (nearly) the same length"""
        if not self.periodic:
            return np.zeros(len(a), dtype=bool)
        g = 8 * E + 1e-5
        key = round(g, 12)
        if getattr(self, "_amb_key", None) != key:
            self._amb = mic_analysis(self.x0, self.box, g)
            self._amb_key = key
        best, second, boundary = self._amb
        return boundary[a, b] | (second[a, b] - best[a, b] < g)

    def fail(self, name, jv, desc, observed, expected, **tags):
        case = {"job": {k: v for k, v in self.job.items() if k != "variants"}, "variant": jv, "observable": name,
                "ref_variants": [v for v in self.job["variants"] if v["kind"] in ("ref", "jitter")]}
        t = {"observable": name, "transform": jv["kind"], "periodic": self.periodic}
        t.update(tags)
        self.ctx.fail(desc, case, observed=observed, expected=expected, tags=t)

    def jitter_dev(self, name, sel=None):
        r = np.array(self.ref["obs"][name] if sel is None else sel(self.ref["obs"][name]), dtype=float)
        dev = np.zeros_like(r)
        for j in self.jit:
            v = j["obs"][name] if sel is None else sel(j["obs"][name])
            if isinstance(v, dict) or len(v) != len(r):
                return None
            dev = np.maximum(dev, np.abs(np.array(v, dtype=float) - r))
        return dev

    def compare(self, name, jv, tv):
        """returns 'ok' | 'excluded' | 'fail'"""
        ro, to = self.ref["obs"][name], tv["obs"][name]
        exact = tv.get("exact", False) and jv["kind"] == "lattice" and not self._whole_offgrid(jv)
        E = 0.0 if exact else ulp32(max(tv["maxabs"], self.ref["maxabs"]))
        if isinstance(ro, dict) and "err" in ro:
            if isinstance(to, dict) and to.get("err") == ro["err"]:
                return "ok"
            self.fail(name, jv, "%s raises on the original structure but not on the transformed one (or vice versa)" % name,
                      to if isinstance(to, dict) else "value", ro, kind="error_class")
            return "fail"
        if isinstance(to, dict) and "err" in to:
            self.fail(name, jv, "%s raises on the transformed structure only" % name, to, "value", kind="error_class")
            return "fail"
        x0, idx = self.x0, self.idx
        if name in ("distances", "displacements_norm"):
            r, t = np.array(ro), np.array(to)
            tol = 4 * E + 2e-6 * np.abs(r) + 1e-7
            pr = idx["pairs"]
            # the distance is continuous across an image change except at a wrap tie beyond the half-width range
            amb = self.ambiguous(pr[:, 0], pr[:, 1], E) if (self.periodic and E > 0) else np.zeros(len(pr), dtype=bool)
            return self._cont(name, jv, r, t, tol, mask=~amb)
        if name == "angles":
            r, t = np.array(ro), np.array(to)
            tr = idx["triplets"]
            dmat = self.dm() if self.periodic else None
            l1 = self._len(tr[:, 0], tr[:, 1])
            l2 = self._len(tr[:, 2], tr[:, 1])
            s = np.maximum(np.sin(r), 1e-3)
            tol = 4 * E * (1 / l1 + 1 / l2) + np.minimum(1e-6 / s, 1.5e-3) + 1e-6
            amb = self.ambiguous(tr[:, 0], tr[:, 1], E) | self.ambiguous(tr[:, 2], tr[:, 1], E)
            return self._cont(name, jv, r, t, tol, mask=~amb)
        if name.startswith("tors:"):
            if ro["idx"] != to["idx"]:
                self.fail(name, jv, "named torsion helper: atom index list changes under the transformation", "differs", "same",
                          kind="discrete_changed")
                return "fail"
            if not ro["idx"]:
                return "ok"
        if name == "dihedrals" or name.startswith("tors:"):
            if name == "dihedrals":
                r, t = np.array(ro), np.array(to)
                q = idx["quartets"]
            else:
                r, t = np.array(ro["v"]), np.array(to["v"])
                q = np.array(ro["idx"], dtype=int)
                if name.split(":")[2] == "F" and self.periodic:
                    raise RuntimeError("a periodic=False torsion is not invariant under lattice shifts: not a C09 case")
            l1, l2, l3 = self._len(q[:, 0], q[:, 1]), self._len(q[:, 1], q[:, 2]), self._len(q[:, 2], q[:, 3])
            s1 = self._sin(q[:, 0], q[:, 1], q[:, 2])
            s2 = self._sin(q[:, 1], q[:, 2], q[:, 3])
            ok = (s1 > 0.05) & (s2 > 0.05)
            ok &= ~(self.ambiguous(q[:, 0], q[:, 1], E) | self.ambiguous(q[:, 1], q[:, 2], E) | self.ambiguous(q[:, 2], q[:, 3], E))
            with np.errstate(divide="ignore", invalid="ignore"):
                tol = 2.5 * E * (1 / (l1 * s1) + 1 / (l3 * s2)) * (1 + (l1 + l3) / l2) + 1e-5 / np.minimum(s1, s2) ** 2
            d = np.abs(t - r)
            d = np.minimum(d, 2 * math.pi - d)
            return self._cont(name, jv, r, t, tol, mask=ok, diff=d)
        if name == "rg":
            r, t = np.array(ro), np.array(to)
            return self._cont(name, jv, r, t, 1.0 * E + 1e-6 * np.abs(r) + 1e-7)
        if name == "gyration_moments":
            r, t = np.array(ro), np.array(to)
            rg = math.sqrt(max(float(r.sum()), 0.0))
            return self._cont(name, jv, r, t, np.full(r.shape, 2 * rg * E + 1e-6 * float(r.sum()) + 1e-9))
        if name == "rmsd":
            r, t = np.array(ro), np.array(to)
            return self._cont(name, jv, r, t, np.full(r.shape, 1.5 * E + 3e-5))
        if name == "contacts" or name.startswith("contacts:"):
            r, t = np.array(ro["d"]), np.array(to["d"])
            if ro["pairs"] != to["pairs"]:
                self.fail(name, jv, "compute_contacts: residue pair list changes under the transformation", "differs", "same",
                          kind="discrete_changed")
                return "fail"
            return self._cont(name, jv, r, t, 4 * E + 2e-6 * np.abs(r) + 1e-7)
        if name == "drid":
            r, t = np.array(ro), np.array(to)
            dev = self.jitter_dev(name)
            if dev is None:
                return "excluded"
            tol = 4 * dev + 30 * E + 2e-6 * np.abs(r) + 1e-6
            return self._cont(name, jv, r, t, tol)
        if name == "sasa":
            r, t = float(np.sum(ro)), float(np.sum(to))
            rot = jv["kind"] == "rigid" and jv["q"][0] != 1.0
            tol = (0.03 if rot else 0.0005) * r + 1e-6
            hr = self.ctx.notes.setdefault("coverage_extra", {}).setdefault("c09", {}).setdefault("max_fraction_of_bound_used", {})
            key = "sasa/%s" % ("rotation" if rot else "translation%g" % self.job["T"])
            hr[key] = round(max(hr.get(key, 0.0), abs(r - t) / tol), 4)
            if abs(r - t) > tol:
                self.fail(name, jv, "shrake_rupley: total area changes by more than the quadrature error under %s" % (
                    "rotation" if rot else "translation"), t, r, kind="magnitude", rel=abs(r - t) / max(r, 1e-9))
                return "fail"
            return "ok"
        if name == "kabsch_sander":
            pr = [(a, b) for a, b, _e in ro]
            pt = [(a, b) for a, b, _e in to]
            stable = all([(a, b) for a, b, _e in j["obs"][name]] == pr for j in self.jit)
            if pr != pt:
                if not stable:
                    return "excluded"
                self.fail(name, jv, "kabsch_sander: the set of hydrogen-bonded residue pairs changes under the transformation",
                          sorted(set(pt) ^ set(pr))[:6], "same pattern", kind="discrete_changed")
                return "fail"
            if not stable:
                return "excluded"
            r, t = np.array([e for _a, _b, e in ro]), np.array([e for _a, _b, e in to])
            dev = np.zeros_like(r)
            for j in self.jit:
                dev = np.maximum(dev, np.abs(np.array([e for _a, _b, e in j["obs"][name]]) - r))
            return self._cont(name, jv, r, t, 250 * E + 2e-5 * np.abs(r) + 1e-5)
        if name in DISCRETE:
            stable = all(j["obs"][name] == ro for j in self.jit)
            if to == ro:
                return "ok"
            if not stable:
                return "excluded"
            if name == "dssp":
                diff = [i for i, (a, b) in enumerate(zip(ro, to)) if a != b]
                self.fail(name, jv, "compute_dssp: secondary-structure string changes under the transformation",
                          {"pos": diff[:8], "got": "".join(to[i] for i in diff[:8])}, "".join(ro[i] for i in diff[:8]),
                          kind="discrete_changed")
            else:
                a, b = {tuple(x) for x in ro}, {tuple(x) for x in to}
                self.fail(name, jv, "%s: set of hydrogen bonds changes under the transformation" % name,
                          sorted(a ^ b)[:6], "same set", kind="discrete_changed")
            return "fail"
        if name == "neighbors":
            g = 4 * E + 1e-5
            dm = self.dm()
            q = idx["query"]
            dmin = np.where(np.isin(np.arange(len(x0)), q), np.inf, dm[q].min(axis=0)) if len(q) < len(x0) else None
            # distance of every atom to the nearest query atom other than itself
            dq = dm[q].copy()
            for k, a in enumerate(q):
                dq[k, a] = np.inf
            dmin = dq.min(axis=0)
            amb = set(np.nonzero(np.abs(dmin - self.job["cutoff"]) <= g)[0].tolist())
            diff = set(ro) ^ set(to)
            if diff - amb:
                self.fail(name, jv, "compute_neighbors: neighbour set changes under the transformation", sorted(diff - amb)[:8],
                          "same set", kind="discrete_changed", n_changed=len(diff - amb))
                return "fail"
            return "ok" if not diff else "excluded"
        if name == "neighborlist":
            g = 4 * E + 1e-5
            dm = self.dm()
            c = self.job["cutoff"]
            bad = []
            for i, (a, b) in enumerate(zip(ro, to)):
                for j in set(a) ^ set(b):
                    if abs(dm[i, j] - c) > g:
                        bad.append((i, j))
            if bad:
                outside = set(tv.get("outside", []))
                # as-found behaviour: true neighbour pairs are OMITTED (from either list) when raw positions leave the
                # rectangular region the range scan assumes; a listed pair beyond the cutoff would be something else
                omissions_only = all(dm[i, j] < c for i, j in bad)
                self.fail(name, jv, "compute_neighborlist: neighbour lists change under the transformation", bad[:8], "same lists",
                          kind="discrete_changed", n_changed=len(bad), omissions_only=omissions_only,
                          explained_by="nlist_raw_positions" if (jv["kind"] == "lattice" and outside and omissions_only) else None)
                return "fail"
            return "ok"
        raise RuntimeError("no comparison for " + name)

    def _whole_offgrid(self, jv):
        return any(abs(w * U - round(w * U)) > 1e-9 for w in jv.get("whole", [0, 0, 0]))

    def _len(self, a, b):
        if self.periodic:
            return np.maximum(self.dm()[a, b], 1e-3)
        return np.maximum(np.linalg.norm(self.x0[a] - self.x0[b], axis=1), 1e-3)

    def _sin(self, a, b, c):
        if self.periodic:
            # law of cosines on minimum-image lengths (valid when the three separations are consistent images)
            lab, lcb, lac = self.dm()[a, b], self.dm()[c, b], self.dm()[a, c]
            with np.errstate(divide="ignore", invalid="ignore"):
                cs = (lab ** 2 + lcb ** 2 - lac ** 2) / (2 * lab * lcb)
            cs = np.clip(np.nan_to_num(cs), -1, 1)
            return np.sqrt(1 - cs ** 2) * 0.5      # halve: the third side need not be the consistent image
        u, v = self.x0[a] - self.x0[b], self.x0[c] - self.x0[b]
        cr = np.linalg.norm(np.cross(u, v), axis=1)
        return cr / np.maximum(np.linalg.norm(u, axis=1) * np.linalg.norm(v, axis=1), 1e-12)

    def _cont(self, name, jv, r, t, tol, mask=None, diff=None):
        if r.shape != t.shape:
            self.fail(name, jv, "%s: result shape changes under the transformation" % name, list(t.shape), list(r.shape), kind="shape")
            return "fail"
        d = np.abs(t - r) if diff is None else diff
        bad = d > tol
        if mask is not None:
            bad &= mask
        # measured use of the bound on this run (evidence: how much headroom the unchanged tree has)
        with np.errstate(divide="ignore", invalid="ignore"):
            ratio = np.where(np.isfinite(d) & (tol > 0), d / np.maximum(tol, 1e-30), 0.0)
        if mask is not None:
            ratio = np.where(mask, ratio, 0.0)
        hr = self.ctx.notes.setdefault("coverage_extra", {}).setdefault("c09", {}).setdefault("max_fraction_of_bound_used", {})
        key = "%s/%s" % (name, jv["kind"] if jv["kind"] != "rigid" else "rigid%g" % self.job["T"])
        hr[key] = round(max(hr.get(key, 0.0), float(ratio.max()) if ratio.size else 0.0), 4)
        bad |= ~np.isfinite(t) & np.isfinite(r)
        if bad.any():
            k = int(np.argmax(np.where(bad, d / np.maximum(tol, 1e-30), 0)))
            self.fail(name, jv, "%s changes under the transformation by more than the float32 bound" % name,
                      float(t.ravel()[k]), float(r.ravel()[k]), kind="magnitude", excess=float(d.ravel()[k] / max(tol.ravel()[k], 1e-30)),
                      scale=self.job.get("T"))
            return "fail"
        if mask is not None and not mask.all():
            st = self.ctx.notes.setdefault("coverage_extra", {}).setdefault("c09", {})
            st["entries_excluded_guard_band"] = st.get("entries_excluded_guard_band", 0) + int((~mask).sum())
        return "ok"


def run_jobs(ctx, jobs):
    stats = ctx.notes.setdefault("coverage_extra", {}).setdefault("c09", {})
    B = 6
    for i in range(0, len(jobs), B):
        chunk = jobs[i:i + B]
        res = ctx.run_impl("invar_impl.py", {"jobs": chunk}, timeout=3000)["jobs"]
        for job, r in zip(chunk, res):
            if job.get("multi"):
                # one Cmp per frame: frame f of every variant trajectory against frame f of the untransformed one
                for f, rf in enumerate(r["frames"]):
                    cmp_ = Cmp(ctx, job, rf)
                    for jv, tv in zip(job["variants"], rf["variants"]):
                        if jv["kind"] in ("ref", "jitter"):
                            continue
                        jf = dict(jv, frame=f)
                        if jv["kind"] == "rigid":
                            jf.update(q=jv["per_frame"][f]["q"], t=jv["per_frame"][f]["t"])
                        elif jv.get("whole_per_frame"):
                            jf["whole"] = jv["whole_per_frame"][f]
                        for name in job["observables"]:
                            verdict = cmp_.compare(name, jf, tv)
                            key = "multi/%s/%s" % (name, jv["kind"] if jv["kind"] != "rigid" else "rigid%g" % job["T"])
                            ctx.count({"s": job["label"], "seed": job["seed"], "v": jf, "o": name, "f": f}, nontrivial=True, bucket=key)
                            stats[verdict] = stats.get(verdict, 0) + 1
                stats["multi_frame_jobs"] = stats.get("multi_frame_jobs", 0) + 1
                continue
            cmp_ = Cmp(ctx, job, r)
            for jv, tv in zip(job["variants"], r["variants"]):
                if jv["kind"] in ("ref", "jitter"):
                    continue
                for name in job["observables"]:
                    verdict = cmp_.compare(name, jv, tv)
                    key = "%s/%s" % (name, jv["kind"] if jv["kind"] != "rigid" else "rigid%g" % job["T"])
                    ctx.count({"s": job["label"], "seed": job["seed"], "v": jv, "o": name}, nontrivial=True, bucket=key)
                    stats[verdict] = stats.get(verdict, 0) + 1


# ------------------------------------------------------------------------------------------ model ties
def zv(v):
    return "(%s)" % ", ".join(("(%d)" % x) if x < 0 else str(x) for x in v)


def tie_observables(ctx):
    """Invar/Model.v observables on integer coordinates vs mdtraj on the same coordinates."""
    rng = ctx.rng
    n_sys = 6 if ctx.tier == "quick" else 60
    jobs, exprs = [], []
    for s in range(n_sys):
        n = rng.choice([4, 7, 12, 30])
        pts = random_system(rng, n, size_nm=1.5, min_sep=0.1)
        jobs.append({"structure": {"xyz": pts, "grid": 10}, "box": None, "seed": rng.randrange(1 << 30), "cutoff": 0.4,
                     "observables": ["distances", "angles", "dihedrals", "rg", "gyration_moments"],
                     "variants": [{"kind": "ref"}], "label": "tie%d" % n, "T": 0.0})
    res = ctx.run_impl("invar_impl.py", {"jobs": jobs})["jobs"]
    lines = []
    for k, (job, r) in enumerate(zip(jobs, res)):
        pts = job["structure"]["xyz"]
        lines.append("Definition xs%d : list vec := [%s]." % (k, "; ".join(zv(p) for p in pts)))
        g = lambda i: "(nth %d xs%d vzero)" % (i, k)
        P, T, Q = r["index_sets"]["pairs"], r["index_sets"]["triplets"], r["index_sets"]["quartets"]
        lines.append("Definition o%d := (map (fun p : nat * nat => dist2_obs (nth (fst p) xs%d vzero) (nth (snd p) xs%d vzero)) [%s],"
                     % (k, k, k, "; ".join("(%d%%nat, %d%%nat)" % (a, b) for a, b in P)))
        lines.append("  [%s]," % "; ".join("angle_obs %s %s %s" % (g(a), g(b), g(c)) for a, b, c in T))
        lines.append("  [%s]," % "; ".join("dihedral_obs %s %s %s %s" % (g(a), g(b), g(c), g(d)) for a, b, c, d in Q))
        lines.append("  (rg_obs xs%d, trace (gyration xs%d), minor2 (gyration xs%d), det3 (gyration xs%d)))." % (k, k, k, k))
    expr = "(%s)" % ", ".join("o%d" % k for k in range(len(jobs))) if len(jobs) > 1 else "o0"
    rc, out = ctx.coq_eval(["MD.PBC.Model", "MD.Invar.Model"], expr, prelude="Open Scope Z_scope.\n" + "\n".join(lines))
    if rc != 0:
        ctx.break_("correspondence:invar-model-evaluation", out[-2000:])
        return
    import re
    body = out[out.index("="):]
    nums = [int(x) for x in re.findall(r"-?\d+", re.sub(r":\s*\(?list.*$", "", body, flags=re.S))]
    pos = 0
    bad = []
    for k, (job, r) in enumerate(zip(jobs, res)):
        n = r["n_atoms"]
        obs = r["variants"][0]["obs"]
        P, T, Q = r["index_sets"]["pairs"], r["index_sets"]["triplets"], r["index_sets"]["quartets"]
        for j in range(len(P)):
            d2 = nums[pos]; pos += 1
            ex = math.sqrt(d2) / U
            if abs(obs["distances"][j] - ex) > 4e-7 * ex + 1e-9:
                bad.append(("distance", k, j, obs["distances"][j], ex))
        for j in range(len(T)):
            p, l1, l2 = nums[pos:pos + 3]; pos += 3
            cs = max(-1.0, min(1.0, p / math.sqrt(l1 * l2)))
            ex = math.acos(cs)
            if abs(obs["angles"][j] - ex) > min(1e-6 / max(math.sin(ex), 1e-3), 1.5e-3) + 2e-6:
                bad.append(("angle", k, j, obs["angles"][j], ex))
        for j in range(len(Q)):
            l2, tr, pp = nums[pos:pos + 3]; pos += 3
            ex = math.atan2(math.sqrt(l2) * tr, pp)
            d = abs(obs["dihedrals"][j] - ex)
            d = min(d, 2 * math.pi - d)
            # conditioning guard: both atan2 arguments tiny relative to |b|^4 means near-collinear bonds
            scale = max(abs(math.sqrt(l2) * tr), abs(pp))
            if scale > 1e-3 * (l2 ** 2) and d > 2e-4:
                bad.append(("dihedral", k, j, obs["dihedrals"][j], ex))
        rg3, tr, m2, dt = nums[pos:pos + 4]; pos += 4
        ex = math.sqrt(rg3 / n ** 3) / U
        if abs(obs["rg"][0] - ex) > 1e-5 * ex + 1e-8:
            bad.append(("rg", k, 0, obs["rg"][0], ex))
        lam = obs["gyration_moments"]
        s = U ** 2 * n ** 3
        tri, m2i, dti = sum(lam), lam[0] * lam[1] + lam[1] * lam[2] + lam[0] * lam[2], lam[0] * lam[1] * lam[2]
        if abs(tri - tr / s) > 1e-5 * abs(tr / s) or abs(m2i - m2 / s ** 2) > 1e-4 * abs(m2 / s ** 2) + 1e-12:
            bad.append(("gyration", k, 0, [tri, m2i], [tr / s, m2 / s ** 2]))
        ctx.count({"tie": "observables", "k": k, "seed": job["seed"]}, nontrivial=True, bucket="tie/observables")
    if pos != len(nums):
        ctx.break_("correspondence:invar-model-evaluation", "parsed %d numbers, consumed %d" % (len(nums), pos))
    if bad:
        ctx.break_("correspondence:invar-observables", "mdtraj's value differs from the model's observable: %s" % (bad[:4],))


def tie_neighborlist(ctx):
    """One-bin model (Invar/Model.v nl_cur / nl_fix) vs md.compute_neighborlist on collinear atoms."""
    rng = ctx.rng
    n_cases = 40 if ctx.tier == "quick" else 400
    jobs, cases = [], []
    for k in range(n_cases):
        L = rng.randrange(6, 14) * U
        c = rng.randrange(U // 2, min(2 * U, L // 2 - U // 4)) + 0.5           # half-unit: no pair sits on the cutoff
        n = rng.randint(2, 7)
        xs = []
        while len(xs) < n:
            x = rng.randrange(0, L)
            if all(abs(x - y) >= 8 for y in xs):
                xs.append(x)
        if k % 2:
            ks = [rng.randint(-2, 2) for _ in xs]
            xs = [x + kk * L for x, kk in zip(xs, ks)]
        Ly = 8 * U
        pts = [[x, Ly // 2, Ly // 2] for x in xs]
        jobs.append({"structure": {"xyz": pts, "grid": 10}, "box": [[L / U, 0, 0], [0, Ly / U, 0], [0, 0, Ly / U]],
                     "seed": 1, "cutoff": c / U, "observables": ["neighborlist"], "variants": [{"kind": "ref"}],
                     "label": "collinear", "T": 0.0})
        cases.append((L, c, xs))
    res = ctx.run_impl("invar_impl.py", {"jobs": jobs})["jobs"]
    coqcases = []
    for (L, c, xs), r in zip(cases, res):
        nl = r["variants"][0]["obs"]["neighborlist"]
        n = len(xs)
        mat = "[" + "; ".join("[" + "; ".join("true" if j in nl[i] else "false" for j in range(n)) + "]" for i in range(n)) + "]"
        # doubled units so that the half-integer cutoff is an integer
        inp = "(%d, %d, [%s])" % (2 * L, int(2 * c), "; ".join("(%d)" % (2 * x) for x in xs))
        coqcases.append((inp, mat))
    eqb = "(fun a b => if list_eq_dec (list_eq_dec Bool.bool_dec) a b then true else false)"
    out = {}
    for variant in ("nl_cur", "nl_fix"):
        bad, errs = ctx.coq_mismatches(["MD.PBC.Model", "MD.Invar.Model"], ("Z * Z * list Z", "list (list bool)"), eqb,
                                       "(fun i => %s (fst (fst i)) (snd (fst i)) (snd i))" % variant, coqcases,
                                       prelude="Open Scope Z_scope.")
        if errs:
            ctx.break_("correspondence:neighborlist-model-evaluation", "\n".join(errs))
            return None
        out[variant] = bad
    for k in range(len(cases)):
        ctx.count({"tie": "nl", "k": k, "case": cases[k]}, nontrivial=True, bucket="tie/neighborlist-1d")
    which = "nl_fix" if not out["nl_fix"] else ("nl_cur" if not out["nl_cur"] else None)
    ctx.notes.setdefault("coverage_extra", {}).setdefault("c09", {})["neighborlist_variant_matching_impl"] = which
    if which is None:
        k = out["nl_cur"][0]
        ctx.break_("correspondence:neighborlist-model", "neither nl_cur nor nl_fix reproduces compute_neighborlist, e.g. L=%s c=%s xs=%s -> %s"
                   % (cases[k][0], cases[k][1], cases[k][2], res[k]["variants"][0]["obs"]["neighborlist"]))
    return which


def correspond(ctx):
    tie_observables(ctx)
    which = tie_neighborlist(ctx)
    jobs = rigid_jobs(ctx) + lattice_jobs(ctx)
    ctx.log("jobs:", len(jobs))
    run_jobs(ctx, jobs)
    # a neighbour-list change after a lattice shift is 'explained' only while the as-found variant is what mdtraj does
    if which != "nl_cur":
        for f in ctx.failures:
            if f["tags"].get("explained_by") == "nlist_raw_positions":
                f["tags"]["explained_by"] = None
    ctx.log("stats:", ctx.notes.get("coverage_extra", {}).get("c09"))


def search(ctx, broken):
    jobs = rigid_jobs(ctx) + lattice_jobs(ctx)
    run_jobs(ctx, jobs)


def replay(ctx, rec):
    c = rec["case"]
    job = dict(c["job"])
    job["variants"] = list(c["ref_variants"]) + [c["variant"]]
    job["observables"] = [c["observable"]]
    which = tie_neighborlist(ctx) if c["observable"] == "neighborlist" else None
    run_jobs(ctx, [job])
    if c["observable"] == "neighborlist" and which != "nl_cur":
        for f in ctx.failures:
            if f["tags"].get("explained_by") == "nlist_raw_positions":
                f["tags"]["explained_by"] = None
