"""C08 helper: a small C/C++ scanner that turns mdtraj's per-frame loops into terms of MD.Sched.FrameLoop.

Regexes + brace matching, nothing more.  It answers one question per loop: which variables does one iteration read
before it has written them itself (state carried from the previous frame), and is every pointer into a per-frame
array that the body uses advanced by the body (or indexed with the loop variable)?

    scan_loop(src, function, ...)      -> Term   (a frame loop inside a function)
    scan_percall(src, function, ...)   -> Term   (a function called once per frame/atom: its body is the iteration and
                                                  only static / file-scope variables can carry state)

A Term has .ops (list of Coq op texts), .names (cells / cursors / arrays / globals, for the comment in the generated
file), .shared (outer variables written).  Anything outside the small accepted grammar raises ScanError (fail closed:
the caller records the translator as degraded and the generated file is not refreshed).

Trusted input: CALLEE_EFFECTS below - what a callee does to the memory an argument points to (W = overwrites it
before reading it, RW = reads it too, default R).  It is a hand-written summary of the callees' bodies.
"""
import re


class ScanError(Exception):
    pass


KEYWORDS = {"if", "else", "for", "while", "do", "switch", "case", "default", "break", "continue", "return", "const", "static",
            "int", "float", "double", "bool", "char", "long", "unsigned", "signed", "void", "size_t", "true", "false", "NULL",
            "sizeof", "new", "delete", "struct", "typedef", "using", "namespace", "std", "vector", "pair", "inline", "extern",
            "fvec4", "ivec4", "__m128", "__m128d", "__m128i", "int32_t", "moments_t", "ss_t", "const_iterator", "iterator",
            "FLT_MAX", "M_PI", "nullptr", "auto", "register", "volatile", "goto", "isnan", "restrict"}

# callee -> {argument position: "W" | "RW"}; every other argument is only read.
CALLEE_EFFECTS = {
    "kabsch_sander": {7: "RW", 8: "RW"},          # store_energies keeps the best two: reads what is there
    # asa_frame(frame, n_atoms, radii, sphere_points, n_sphere_points, neighbor_indices, centered_sphere_points, mask, areas):
    # the two work buffers are filled (neighbor_indices[0..n), centered_sphere_points[0..n_sphere_points)) before exactly
    # that range is read: hand-read from asa_frame like the rest of this table, and PROVED for the buffer-level Gallina
    # model of asa_frame (MD.Sasa.LowLevelProofs.asa_frame_ll_ignores_work_buffers = Props/C08.v
    # sasa_work_buffers_carry_nothing); areas is accumulated into (areas[i]++, areas[i] *= c): read-modify-write
    "asa_frame": {5: "W", 6: "W", 8: "RW"},
    "calculate_beta_sheets": {4: "RW"},
    "calculate_alpha_helices": {7: "RW"},
    "ks_assign_hydrogens": {3: "W"},              # every non-skipped residue's entry is stored before it is read
    "ks_donor_acceptor": {},
    "store_energies": {0: "RW", 1: "RW"},
    "dist": {2: "W", 3: "W"}, "dist_mic": {3: "W", 4: "W"}, "dist_mic_triclinic": {3: "W", 4: "W"},
    "moments_clear": {0: "W"}, "moments_push": {0: "RW"}, "moments_mean": {}, "moments_second": {}, "moments_third": {},
    "moments_fourth": {},
    "aos_deinterleaved_loadu": {1: "W", 2: "W", 3: "W"}, "aos_interleaved_storeu": {},
    "_mm_storeu_pd": {0: "W"}, "_mm_storeu_ps": {0: "W"}, "_mm_store_ss": {0: "W"}, "_mm_store_sd": {0: "W"},
    "memset": {0: "W"}, "std::fill_n": {0: "W"}, "fill_n": {0: "W"}, "std::fill": {0: "W"}, "fill": {0: "W"},
    "memcpy": {0: "W"}, "std::copy": {2: "W"},
}
# methods: name -> effect on the object ("W", "RW", "R") and, for store-like methods, on argument 0
METHOD_EFFECTS = {"push_back": "RW", "clear": "W", "assign": "W", "resize": "RW", "size": "R", "begin": "R", "end": "R",
                  "empty": "R", "store": "R", "swap": "RW", "insert": "RW", "reserve": "R", "at": "R", "back": "R", "front": "R"}
METHOD_ARG_EFFECTS = {"store": {0: "W"}, "swap": {0: "RW"}}
PURE = {"sqrtf", "sqrt", "cbrt", "acos", "acosf", "atan2f", "atan2", "roundf", "round", "floorf", "floor", "fabs", "fabsf", "dot3",
        "dot4", "cross", "min", "max", "isnan", "printf", "exit", "cos", "sin", "cosf", "sinf", "abs", "ceil", "ceilf", "pow",
        "reduce_add", "transpose", "any", "blend"}
PERFRAME_NAMES = {"xyz", "xyzlist", "box_matrix", "distance_out", "displacement_out", "out", "hbonds", "henergies", "secondary",
                  "coords", "traces"}
TYPE_RE = (r"(?:(?:const|static|unsigned|signed|register|volatile)\s+)*"
           r"(?:long\s+long|long\s+int|(?:std::)?vector\s*<[^;=(){}]*>(?:::(?:const_)?iterator)?|[A-Za-z_][\w]*(?:::[A-Za-z_]\w*)*)")


def strip_comments(src):
    src = re.sub(r"/\*.*?\*/", lambda m: re.sub(r"[^\n]", " ", m.group(0)), src, flags=re.S)
    return re.sub(r"//[^\n]*", "", src)


def preprocess(src, defines=()):
    """Resolve #ifdef/#ifndef/#else/#endif against `defines` (names not decided either way: keep both branches out:
    only names in `decided` are evaluated); drop every other preprocessor line except #pragma."""
    out, stack = [], []
    defines = set(defines)
    src = src.replace("\\\n", " ")
    for line in src.splitlines():
        m = re.match(r"\s*#\s*(ifdef|ifndef|if|else|elif|endif|define|undef|include|pragma)\b\s*(.*)", line)
        if not m:
            if all(stack):
                out.append(line)
            continue
        d, rest = m.group(1), m.group(2).strip()
        if d == "ifdef":
            stack.append(rest.split()[0] in defines)
        elif d == "ifndef":
            stack.append(rest.split()[0] not in defines)
        elif d == "if":
            mm = re.match(r"defined\s*\(?\s*(\w+)\s*\)?\s*$", rest)
            stack.append((mm.group(1) in defines) if mm else True)
        elif d in ("else", "elif"):
            if not stack:
                raise ScanError("#else without #if")
            stack[-1] = not stack[-1]
        elif d == "endif":
            if not stack:
                raise ScanError("#endif without #if")
            stack.pop()
        elif d == "pragma" and all(stack):
            out.append(line)
    return "\n".join(out)


def match_close(s, i, op="{", cl="}"):
    depth = 0
    for j in range(i, len(s)):
        if s[j] == op:
            depth += 1
        elif s[j] == cl:
            depth -= 1
            if depth == 0:
                return j
    raise ScanError("unbalanced %s%s" % (op, cl))


def find_function(src, name):
    """(parameter text, body text including braces, start offset) of the definition of `name`."""
    for m in re.finditer(r"\b%s\s*\(" % re.escape(name), src):
        p0 = src.index("(", m.start())
        p1 = match_close(src, p0, "(", ")")
        rest = src[p1 + 1:]
        mm = re.match(r"\s*(?:const\s*)?\{", rest)
        if mm:
            b0 = p1 + 1 + mm.end() - 1
            return src[p0 + 1:p1], src[b0:match_close(src, b0) + 1], m.start()
    raise ScanError("definition of %s not found" % name)


def split_top(s, sep=","):
    parts, depth, cur = [], 0, ""
    for ch in s:
        if ch in "([{<" and not (ch == "<" and sep != ","):
            depth += 1
        elif ch in ")]}>" and not (ch == ">" and sep != ","):
            depth -= 1
        if ch == sep and depth == 0:
            parts.append(cur)
            cur = ""
        else:
            cur += ch
    parts.append(cur)
    return [p.strip() for p in parts if p.strip()]


def parse_params(text):
    ps = []
    for p in split_top(text):
        m = re.match(r"(.*?)([A-Za-z_]\w*)\s*(\[[^\]]*\])?\s*$", p.strip(), re.S)
        if not m:
            raise ScanError("parameter %r" % p)
        ty = m.group(1)
        ps.append({"name": m.group(2), "const": bool(re.search(r"\bconst\b", ty)),
                   "ptr": ("*" in ty) or ("&" in ty) or bool(m.group(3))})
    return ps


# ------------------------------------------------------------------------------------------ statements
def flatten(body):
    """Flat list of (kind, text): kind in {"stmt", "cond"}; braces and control keywords removed, for-headers expanded
    to init / condition / step, in textual order."""
    s = body.strip()
    if s.startswith("{"):
        s = s[1:match_close(s, 0)]
    out = []
    i, n = 0, len(s)
    cur = ""

    def flush():
        nonlocal cur
        t = " ".join(cur.split())
        if t:
            out.append(("stmt", t))
        cur = ""
    while i < n:
        ch = s[i]
        m = re.match(r"(for|if|while|switch)\s*\(", s[i:]) if (ch in "fiws" and (i == 0 or not (s[i - 1].isalnum() or s[i - 1] == "_"))) else None
        if m and cur.strip() in ("", "else"):
            cur = ""
            p0 = i + m.end() - 1
            p1 = match_close(s, p0, "(", ")")
            head = s[p0 + 1:p1]
            if m.group(1) == "for":
                parts = [x.strip() for x in re.split(r";", head)]
                if len(parts) != 3:
                    raise ScanError("for header %r" % head)
                if parts[0]:
                    out.append(("stmt", " ".join(parts[0].split())))
                if parts[1]:
                    out.append(("cond", " ".join(parts[1].split())))
                if parts[2]:
                    out.append(("stmt", " ".join(parts[2].split())))
            else:
                out.append(("cond", " ".join(head.split())))
            i = p1 + 1
            continue
        if ch == "{" and cur.rstrip().endswith("="):
            j = match_close(s, i)                  # brace initialiser of a declaration
            cur += s[i:j + 1]
            i = j + 1
            continue
        if ch in "{}":
            flush()
            i += 1
            continue
        if ch == ";":
            flush()
            i += 1
            continue
        if ch in "([":
            j = match_close(s, i, ch, ")" if ch == "(" else "]")
            cur += s[i:j + 1]
            i = j + 1
            continue
        cur += ch
        i += 1
    flush()
    res = []
    for kind, t in out:
        t = re.sub(r"^(?:else\s+)+", "", t)
        t = re.sub(r"^(?:(?:case\s+[\w:]+|default)\s*:\s*)+", "", t)
        if t in ("", "else", "break", "continue", "do"):
            continue
        if t.startswith("#pragma"):
            continue
        res.append((kind, t))
    return res


def idents(text):
    text = re.sub(r"'(?:\\.|[^'])'", " ", text)
    text = re.sub(r'"(?:\\.|[^"])*"', " ", text)
    text = re.sub(r"(?<![\w.])\d+\.?\d*(?:[eE][-+]?\d+)?[fFuUlL]*", " ", text)
    text = re.sub(r"(?:\.|->)\s*[A-Za-z_]\w*", " ", text)          # fields / methods
    return [x for x in re.findall(r"[A-Za-z_]\w*(?:::[A-Za-z_]\w*)*", text) if x not in KEYWORDS]


def base_var(arg):
    m = re.match(r"[\s&\*\(]*([A-Za-z_]\w*)", arg)
    return m.group(1) if m else None


DECL_RE = re.compile(r"^(%s)(\s+(?:[\*&]\s*)*|\s*(?:[\*&]\s*)+)([A-Za-z_]\w*)\b(.*)$" % TYPE_RE, re.S)


def parse_decl(t):
    """None or list of (name, has_init, init_text) for a declaration statement."""
    m = DECL_RE.match(t)
    if not m:
        return None
    ty, name, rest = m.group(1).strip(), m.group(3), m.group(4)
    first = re.match(r"[A-Za-z_]\w*", ty)
    if ty in ("return", "delete", "else", "case", "goto", "new") or name in KEYWORDS:
        return None
    if first and first.group(0) in ("return", "delete", "else", "goto"):
        return None
    # "a b" with a not a type-like word followed by operator: e.g. "x = y" never matches (needs two identifiers)
    decls = []
    for d in split_top(name + rest):
        dm = re.match(r"^[\*&\s]*([A-Za-z_]\w*)\s*(.*)$", d, re.S)
        if not dm:
            raise ScanError("declarator %r" % d)
        tail = dm.group(2).strip()
        is_static = bool(re.search(r"\bstatic\b", ty))
        if tail.startswith("["):
            j = match_close(tail, 0, "[", "]")
            tail2 = tail[j + 1:].strip()
            decls.append((dm.group(1), tail2.startswith("="), tail, is_static))
        elif tail.startswith("(") or tail.startswith("=") or tail.startswith("{"):
            decls.append((dm.group(1), True, tail, is_static))
        elif tail == "":
            # a std::vector default-constructs to the empty vector; POD / SIMD types stay uninitialised
            is_class = bool(re.search(r"vector\s*<", ty)) and "iterator" not in ty
            decls.append((dm.group(1), is_class, "", is_static))
        else:
            return None
    return decls


ASSIGN_RE = re.compile(r"(?<![=!<>+\-*/%&|^])=(?!=)")


def find_calls(text):
    """[(callee, [args], is_method, object)] for every call in text (innermost included)."""
    calls = []
    for m in re.finditer(r"((?:[A-Za-z_]\w*\s*(?:\.|->)\s*)?(?:[A-Za-z_]\w*::)*[A-Za-z_]\w*)\s*\(", text):
        name = re.sub(r"\s+", "", m.group(1))
        p0 = m.end() - 1
        try:
            p1 = match_close(text, p0, "(", ")")
        except ScanError:
            continue
        args = split_top(text[p0 + 1:p1])
        if "." in name or "->" in name:
            obj, meth = re.split(r"\.|->", name)[0], re.split(r"\.|->", name)[-1]
            calls.append((meth, args, True, obj))
        else:
            if name in KEYWORDS and name not in ("isnan",):
                continue
            calls.append((name, args, False, None))
    return calls


class Term:
    def __init__(self):
        self.ops, self.cells, self.curs, self.arrs, self.globs, self.shared, self.trace = [], {}, {}, {}, {}, [], []

    def num(self, table, name, start=0):
        if name not in table:
            table[name] = len(table) + start
        return table[name]

    def coq(self):
        return "[" + ";\n   ".join(self.ops) + "]"

    def legend(self):
        f = lambda d: ", ".join("%d=%s" % (v, k) for k, v in sorted(d.items(), key=lambda kv: kv[1]))
        return "cells: %s | cursors: %s | per-frame arrays: %s | globals: %s" % (f(self.cells), f(self.curs), f(self.arrs), f(self.globs))


def _scan_body(stmts, loopvar, perframe, outer_vars, params, percall=False, frozen=()):
    """Common engine.  stmts: flattened body; perframe: names of per-frame pointer parameters; outer_vars: names declared
    outside the iteration (incl. parameters); returns Term."""
    T = Term()
    T.num(T.cells, "<control>")
    known = set(outer_vars) | {p["name"] for p in params}
    pnames = {p["name"] for p in params}
    local_decl = set()
    # which per-frame parameters are advanced by the body, and where last
    adv_last = {}
    for k, (kind, t) in enumerate(stmts):
        for p in perframe:
            if re.search(r"(?<![\w.>])%s\s*(?:\+\+|\+=)" % re.escape(p), t) or re.search(r"\+\+\s*%s\b" % re.escape(p), t):
                adv_last[p] = k
            bad = bool(re.search(r"(?<![\w.>])%s\s*(?:--|-=|\*=|/=)" % re.escape(p), t))
            for mm in re.finditer(r"(?<![\w.>\]])%s\s*=(?!=)" % re.escape(p), t):
                if not t[:mm.start()].rstrip().endswith("*"):
                    bad = True
            if bad:
                raise ScanError("per-frame pointer %s is modified other than by += / ++" % p)

    def has_lv(text, name):
        if not loopvar:
            return False
        for m in re.finditer(r"(?<![\w.>])%s\b\s*(\[|\+)" % re.escape(name), text):
            if m.group(1) == "[":
                j = match_close(text, m.end() - 1, "[", "]")
                seg = text[m.end():j]
            else:
                seg = re.split(r"[;,]", text[m.end():])[0]
            if re.search(r"\b%s\b" % re.escape(loopvar), seg):
                return True
        return False

    def atom(name, text):
        if name in perframe:
            accessed = re.search(r"\*\s*\(?\s*%s\b|(?<![\w.>])%s\s*(?:\[|\+|,|\))" % (re.escape(name), re.escape(name)), text)
            nullcmp = re.search(r"(?<![\w.>])%s\s*(?:!=|==)\s*(?:NULL|0|nullptr)\b|(?:NULL|nullptr)\s*(?:!=|==)\s*%s\b" % (re.escape(name), re.escape(name)), text)
            if nullcmp and not (accessed and not re.search(r"(?<![\w.>])%s\s*\)" % re.escape(name), text) is None and False):
                only_null = not re.search(r"\*\s*\(?\s*%s\b|(?<![\w.>])%s\s*(?:\[|\+|,)" % (re.escape(name), re.escape(name)), text)
                if only_null:
                    return "FGlob %d" % T.num(T.globs, name + "!=NULL")
            a = T.num(T.arrs, name)
            if has_lv(text, name):
                return "FIdx %d" % a
            return "FVia %d %d" % (T.num(T.curs, name), a)
        if percall and name in pnames and name not in local_decl:
            return "FGlob %d" % T.num(T.globs, name)      # objects handed in by the caller of a per-call function
        if name in frozen and name not in written_somewhere and name not in local_decl:
            # computed before the loop from a per-frame array: either a table indexed by the loop variable, or a value
            # frozen at whatever frame the pointer stood on before the loop (a cursor that is never advanced)
            a = T.num(T.arrs, name)
            if has_lv(text, name):
                return "FIdx %d" % a
            return "FVia %d %d" % (T.num(T.curs, name + "@before-loop"), a)
        if name in T.cells or name in local_decl or name in written_somewhere:
            return "FCell %d" % T.num(T.cells, name)
        return "FGlob %d" % T.num(T.globs, name)

    def expr(names, text):
        ats = []
        for nme in names:
            a = atom(nme, text)
            if a not in ats:
                ats.append(a)
        if not ats:
            return "FConst 0"
        e = ats[0]
        for a in ats[1:]:
            e = "FAdd (%s) (%s)" % (e, a)
        return e

    # pass 1: which outer names are written anywhere in the body (they become cells)
    written_somewhere = set()
    analysed = []
    for kind, t in stmts:
        analysed.append(_analyse_stmt(kind, t, known, local_decl, perframe))
        for d in analysed[-1]["decls"]:
            known.add(d[0])
            local_decl.add(d[0])
    for a in analysed:
        for nme, _k in a["writes"]:
            if nme not in perframe:
                written_somewhere.add(nme)
    T.shared = sorted(n for n in written_somewhere if n in outer_vars)
    static_locals = set()
    for a in analysed:
        for d in a["decls"]:
            if d[3]:
                static_locals.add(d[0])
    # pass 2: emit
    for k, a in enumerate(analysed):
        t = a["text"]
        reads = [n for n in a["reads"] if n in known and n != loopvar]
        E = expr(reads, t)
        emitted = False
        for d in a["decls"]:
            if d[0] in static_locals:
                continue                      # initialised once per process, not per iteration
            if d[1]:
                T.ops.append("FSet %d (%s)" % (T.num(T.cells, d[0]), E))
                emitted = True
        for nme, wk in a["writes"]:
            if nme in [d[0] for d in a["decls"]]:
                continue
            if nme in perframe:
                if wk == "ADV":
                    if adv_last.get(nme) == k:
                        T.ops.append("FAdv %d" % T.num(T.curs, nme))
                        emitted = True
                    continue
                if has_lv(t, nme):
                    T.ops.append("FOutIdx (%s)" % E)
                else:
                    T.ops.append("FOutVia %d (%s)" % (T.num(T.curs, nme), E))
                emitted = True
                continue
            if percall and nme in {p["name"] for p in params}:
                T.ops.append("FOutIdx (%s)" % E)     # result handed back through a pointer parameter of the call
                emitted = True
                continue
            c = T.num(T.cells, nme)
            if wk == "W":
                T.ops.append("FSet %d (%s)" % (c, E))
            else:
                ee = E if ("FCell %d" % c) in E else ("FAdd (FCell %d) (%s)" % (c, E) if E != "FConst 0" else "FCell %d" % c)
                T.ops.append("FSet %d (%s)" % (c, ee))
            emitted = True
        if not emitted and reads:
            if a["kind"] == "return":
                T.ops.append("FOutIdx (%s)" % E)
            else:
                T.ops.append("FSet 0 (%s)" % E)       # a condition / call without effect: its reads still count
        T.trace.append((t, a["writes"], reads))
    return T


def _lhs_target(lhs):
    """(name, form) for an assignment target; form in scalar | elem | deref | field."""
    lhs = lhs.strip()
    m = re.match(r"^\(?\s*\*\s*\(?\s*([A-Za-z_]\w*)", lhs)
    if m:
        return m.group(1), "deref"
    m = re.match(r"^([A-Za-z_]\w*)\s*$", lhs)
    if m:
        return m.group(1), "scalar"
    m = re.match(r"^([A-Za-z_]\w*)\s*\[", lhs)
    if m:
        return m.group(1), "elem"
    m = re.match(r"^([A-Za-z_]\w*)\s*(?:->|\.)", lhs)
    if m:
        return m.group(1), "field"
    raise ScanError("assignment target %r" % lhs)


def _analyse_stmt(kind, t, known, local_decl, perframe):
    res = {"text": t, "decls": [], "writes": [], "reads": [], "kind": kind}
    body = t
    if kind == "cond":
        res["reads"] = idents(t)
        _apply_calls(t, res, known, perframe)
        return res
    if t.startswith("return"):
        res["kind"] = "return"
        res["reads"] = idents(t[6:])
        _apply_calls(t, res, known, perframe)
        return res
    d = parse_decl(t)
    if d is not None:
        res["decls"] = d
        inits = " ".join(x[2] for x in d)
        res["reads"] = [i for i in idents(inits) if i not in [x[0] for x in d]]
        for x in d:
            if x[1]:
                res["writes"].append((x[0], "W"))
        _apply_calls(inits, res, known, perframe)
        return res
    # increments / compound assignments / (chained) assignments
    m = re.match(r"^(?:\+\+|--)\s*(.+)$", t) or re.match(r"^(.+?)\s*(?:\+\+|--)$", t)
    if m and not ASSIGN_RE.search(t):
        name, form = _lhs_target(m.group(1))
        res["writes"].append((name, "ADV" if name in perframe and form == "scalar" else "RW"))
        res["reads"] = idents(t)
        return res
    m = re.match(r"^(.+?)\s*(\+=|-=|\*=|/=|%=|\|=|&=|\^=|<<=|>>=)\s*(.+)$", t, re.S)
    if m and not ASSIGN_RE.search(m.group(1)):
        name, form = _lhs_target(m.group(1))
        res["writes"].append((name, "ADV" if (name in perframe and form == "scalar" and m.group(2) == "+=") else "RW"))
        res["reads"] = idents(t)
        _apply_calls(m.group(3), res, known, perframe)
        return res
    parts = ASSIGN_RE.split(t)
    if len(parts) >= 2 and not re.match(r"^\s*[A-Za-z_][\w:]*\s*\(", t):
        rhs = parts[-1]
        rreads = idents(rhs)
        for lhs in parts[:-1]:
            name, form = _lhs_target(lhs)
            idx_reads = [i for i in idents(lhs) if i != name]
            if form == "scalar":
                res["writes"].append((name, "W"))
            elif name in perframe:
                res["writes"].append((name, "W"))
                rreads = rreads + idx_reads
            else:
                res["writes"].append((name, "RW"))       # element / field / through-pointer write: partial
                rreads = rreads + idx_reads + [name]
        res["reads"] = rreads
        _apply_calls(rhs, res, known, perframe)
        return res
    # a call statement (or an expression statement)
    res["reads"] = idents(t)
    _apply_calls(t, res, known, perframe)
    return res


def _apply_calls(text, res, known, perframe):
    for callee, args, is_method, obj in find_calls(text):
        if is_method:
            eff = METHOD_EFFECTS.get(callee)
            if eff is None:
                raise ScanError("unknown method %s in %r" % (callee, text))
            if obj in known and eff in ("W", "RW"):
                res["writes"].append((obj, eff))
                if eff == "W" and obj in res["reads"]:
                    res["reads"] = [r for r in res["reads"] if r != obj] + [i for a in args for i in idents(a)]
            argeff = METHOD_ARG_EFFECTS.get(callee, {})
        else:
            if callee in CALLEE_EFFECTS:
                argeff = CALLEE_EFFECTS[callee]
            elif callee in PURE or callee.startswith("_mm_") or re.match(r"^(?:std::)?(?:vector|pair)\b", callee) or callee in KEYWORDS:
                argeff = {}
            else:
                # unknown callee: harmless only when every argument is a plain value
                if any(a.strip().startswith("&") for a in args):
                    raise ScanError("unknown callee %s receives an address in %r" % (callee, text))
                argeff = {}
        for k, a in enumerate(args):
            e = argeff.get(k)
            if e in ("W", "RW"):
                b = base_var(a)
                if b is None:
                    raise ScanError("argument %r of %s" % (a, callee))
                res["writes"].append((b, e))
                if e == "W":
                    others = [i for i in idents(a) if i != b]
                    cnt = sum(1 for x in idents(text) if x == b)
                    if cnt <= 1 or callee in ("std::fill", "fill", "std::fill_n", "fill_n", "memset"):
                        res["reads"] = [r for r in res["reads"] if r != b] + others


# ------------------------------------------------------------------------------------------ entry points
FILL_LOOP_RE = re.compile(r"for\s*\(\s*(?:int|size_t|unsigned)\s+(\w+)\s*=\s*0\s*;\s*\1\s*<\s*([\w\*\s]+?)\s*;\s*(?:\1\s*\+\+|\+\+\s*\1)\s*\)\s*"
                          r"\{\s*(\w+)\s*\[\s*\1\s*\]\s*=\s*(-?[\d.]+f?)\s*;\s*\}")


def rewrite_fill_loops(body):
    """`for (int k = 0; k < N; k++) { buf[k] = CONST; }` overwrites buf[0..N) without reading it: the same effect as
    std::fill_n(buf, N, CONST).  (That N covers everything read later is not checked: ranges/strides are outside the scanner.)"""
    return FILL_LOOP_RE.sub(lambda m: "std::fill_n(%s, %s, %s);" % (m.group(3), m.group(2), m.group(4)), body)


def scan_loop(src, function, bound=("n_frames",), defines=(), perframe_extra=()):
    """The frame loop `for (LV = 0; LV < n_frames; LV++)` of `function`."""
    code = preprocess(strip_comments(src), defines)
    ptext, body, _ = find_function(code, function)
    params = parse_params(ptext)
    m = None
    for b in bound:
        m = re.search(r"for\s*\(\s*(?:(?:long\s+long|int|size_t|unsigned)\s+)?([A-Za-z_]\w*)\s*=\s*0\s*;\s*\1\s*<\s*%s\s*;" % re.escape(b), body)
        if m:
            break
    if not m:
        raise ScanError("frame loop of %s not found" % function)
    lv = m.group(1)
    p0 = body.index("(", m.start())
    p1 = match_close(body, p0, "(", ")")
    after = body[p1 + 1:]
    am = re.match(r"\s*\{", after)
    if not am:
        raise ScanError("frame loop of %s has no block" % function)
    b0 = p1 + 1 + am.end() - 1
    loop_body = rewrite_fill_loops(body[b0:match_close(body, b0) + 1])
    pre = body[1:m.start()]
    outer = set()
    for kind, t in flatten("{" + re.sub(r"[{}]", ";", pre) + "}"):
        if kind != "stmt":
            continue
        d = parse_decl(t)
        if d:
            outer |= {x[0] for x in d}
    perframe = {p["name"] for p in params if p["ptr"] and (p["name"] in PERFRAME_NAMES or p["name"] in perframe_extra)}
    # taint: variables whose value before the loop was computed from a per-frame array
    frozen = set()
    known = outer | {p["name"] for p in params}
    for kind, t in flatten("{" + re.sub(r"[{}]", ";", pre) + "}"):
        a = _analyse_stmt(kind, t, known, set(), perframe)
        src_taint = False
        for r in a["reads"]:
            if r in frozen:
                src_taint = True
            if r in perframe and re.search(r"\*\s*\(?\s*%s\b|(?<![\w.>])%s\s*(?:\[|\+|,|\))" % (re.escape(r), re.escape(r)), t) \
                    and not re.search(r"(?<![\w.>])%s\s*(?:!=|==)\s*(?:NULL|0|nullptr)\b" % re.escape(r), t):
                src_taint = True
        if src_taint:
            frozen |= {w for w, _k in a["writes"] if w not in perframe}
    T = _scan_body(flatten(loop_body), lv, perframe, outer | {p["name"] for p in params}, params, frozen=frozen)
    T.frozen = sorted(frozen)
    T.loopvar = lv
    # variables written by every thread: only meaningful when the loop is an omp loop (decided by the caller)
    T.shared = [n for n in T.shared if n in outer]
    return T


def file_scope_vars(code):
    """Names of mutable variables defined at file scope (namespace blocks are transparent)."""
    stack, cur, names = [], "", []
    for ch in code:
        if ch == "{":
            head = " ".join(cur.split())
            if re.match(r"^(?:inline\s+)?namespace\b[^;{}()=]*$", head) or re.match(r'^extern\s+"C"\s*$', head):
                stack.append("ns")
            else:
                stack.append("blk")
            cur = " " if stack[-1] == "blk" else ""
            continue
        if ch == "}":
            if stack:
                stack.pop()
            cur = ""
            continue
        if "blk" not in stack:
            if ch == ";":
                t = " ".join(cur.split())
                cur = ""
                if not t or "(" in t.split("=")[0] or re.match(r"^(typedef|using|extern|struct|class|namespace|template|enum|friend)\b", t):
                    continue
                if re.search(r"\bconst\b", t.split("=")[0]) and "*" not in t.split("=")[0]:
                    continue
                d = parse_decl(t)
                if d:
                    names += [x[0] for x in d]
            else:
                cur += ch
    return names


def static_locals(code):
    """Names of non-const static local variables (inside any function body)."""
    names = []
    depth = 0
    cur = ""
    for ch in code:
        if ch == "{":
            depth += 1
            cur = ""
        elif ch == "}":
            depth -= 1
            cur = ""
        elif ch == ";":
            t = " ".join(cur.split())
            cur = ""
            if depth > 0 and re.match(r"^static\b", t) and "(" not in t.split("=")[0] and not re.match(r"^static\s+const\b(?!.*\*)", t):
                d = parse_decl(t)
                if d:
                    names += [x[0] for x in d]
        else:
            cur += ch
    return names


def file_static_state(src, defines=()):
    """Everything in a kernel source file that outlives a call: mutable file-scope variables and static locals."""
    code = preprocess(strip_comments(src), defines)
    return sorted(set(file_scope_vars(code)) | set(static_locals(code)))


def scan_percall(src, function, defines=()):
    """A function that is called once per frame (or per frame and atom): the body is the iteration; only static locals
    and file-scope variables can carry state from one call to the next."""
    code = preprocess(strip_comments(src), defines)
    ptext, body, _ = find_function(code, function)
    params = parse_params(ptext)
    outer = set(file_scope_vars(code))
    stmts = flatten(body)
    for kind, t in stmts:
        d = parse_decl(t) if kind == "stmt" else None
        if d:
            outer |= {x[0] for x in d if x[3]}
    T = _scan_body(stmts, None, set(), outer, params, percall=True)
    T.shared = [n for n in T.shared if n in outer]
    return T
