"""C14 -- reported hydrogen bonds are exactly those meeting the stated criteria.

Model   : coq/Hbond/Model.v (triplets, exact squared-distance / cosine tests, frequency with prefilter, cone),
          coq/Hbond/KsModel.v (Kabsch-Sander loop, hydrogen placement with two variants, best-two bookkeeping);
          constants regenerated into coq/Gen/HbondTables.v.
Theorems: coq/Props/C14.v.
Tie     : md.baker_hubbard / md.wernet_nilsson / md.kabsch_sander on generated systems with exact grid
          coordinates, compared inside coqc with the model evaluated at guard-band shifted thresholds
          (strict <= mdtraj <= lenient); store_energies through a shim on exhaustive call sequences.
"""
import itertools
import math
import os
import re
from fractions import Fraction

import common
from common import cz, cnat, cbool, clist

LEVEL = "proof"
THEOREMS = "Props/C14.v"
EXTRA_TARGETS = ("Gen/HbondTables.vo", "Gen/HbondFormulas.vo", "Hbond/Run.vo", "Hbond/KsWrap.vo")
EXTS = ["_geometry"]
RULE = ("synthetic systems: peptides of 2..15 residues from templates (GLY ALA SER THR LYS ASP ASN PRO, N/C termini, "
        "waters, a ligand with N-H/O-H/O, residues with deleted backbone atoms, 15% of the residues under a name outside mdtraj's "
        "amino-acid table (HIE HID CYX ASH HSD NALA CALA LIG XYZ) with their full backbone), heavy atoms placed at random grid "
        "points of a small cube so that many donor/acceptor pairs are close, hydrogens 0.1 nm from the parent aimed "
        "at a random acceptor or at random, 1..6 frames by per-frame jitter, optional orthorhombic box with atoms "
        "whole / group-wise shifted / atom-wise shifted by lattice vectors / wrapped atom by atom across a cell corner, crossed "
        "with periodic in {True, False} (so periodic=False WITH a cell and periodic=True WITHOUT one occur); real systems: residue windows of tests/data structures with hydrogens, jittered and "
        "snapped to the grid; x freq in {0,0.1,0.25,0.5,0.75,0.99,1} (exact ties occur) x distance cutoff +-30% x angle cutoff 30..170 deg x exclude_water x sidechain_only x periodic; "
        "about a third of the aimed hydrogens are EXACTLY or nearly collinear with donor and acceptor (180 / 0 degrees); 10% of the "
        "residues carry a second atom with a backbone name; the Kabsch-Sander residue records are derived by the model from the names; "
        "call histories: on ONE Topology/Trajectory object calls are interleaved with in-place edits that keep n_atoms and "
        "n_bonds (residue / atom renames, element changes, re-pointed bonds) and every call is compared with the model of the "
        "topology as it is at that moment; a case is non-trivial when mdtraj reports at least one bond; distinct by hash of (system, call)")
TRUSTED = ["harness/impl/hbond_impl.py (builds the Topology/Trajectory from the JSON description, calls the public API)",
           "harness/shims/hbond_shim.cpp (exposes the static store_energies)",
           "generator harness/props/C14.py: element/water/sidechain flags of the model topology are derived here from "
           "residue and atom names (the Kabsch-Sander residue records are derived by the model itself from the names, "
           "coq/Hbond/KsWrap.v); comparison by vm_compute inside coqc",
           "fixed-point evaluation (2^-44) of the hydrogen position and of the Kabsch-Sander energy in the model: numerical, "
           "accuracy not proved (cos(angle_cutoff) and the Wernet-Nilsson cone use proved rational enclosures instead)"]
ASSUMPTIONS = ["coordinates are multiples of 2^-10 nm (exact in float32); orthorhombic boxes only (triclinic minimum image is C05)",
               "triplets / donors whose geometry is within the guard band of a threshold (1e-5 nm, 2e-5 rad resp. 2e-5 nm for "
               "the cone; 2e-3 kcal/mol, 1e-4 nm^2 and second/third-best gap for Kabsch-Sander) are excluded and counted; for "
               "the cone the guard only covers mdtraj's float32 rounding: the model side is enclosed rigorously "
               "(wn_sure_is_sound / wn_maybe_is_complete)",
               "kabsch_sander has no periodic path (plain Euclidean distances whatever the cell): modelled and run that way",
               "reported Kabsch-Sander energies are compared with the model value under |diff| <= 1e-3 kcal/mol",
               "freq values are such that count/n_frames never ties with freq after rounding"]

G = 1024
SHIM = os.path.join(common.VERIF, "harness", "shims", "hbond_shim.cpp")
GUARD_NM = Fraction(1, 100000)
GUARD_DEG = Fraction(12, 10000)            # 2e-5 rad
GUARD_WN = Fraction(2, 100000)
KS_GE = Fraction(2, 1000)
KS_GCA = Fraction(1, 10000)
KS_TOL = Fraction(1, 1000)


# ------------------------------------------------------------------------------------------------ translator
def dec(s):
    s = s.strip().rstrip("fF")
    return Fraction(s)


def qz(fr):
    return "(%d, %d)" % (fr.numerator, fr.denominator) if fr.denominator != 1 or True else ""


def translate_formulas(ctx):
    """T2-style translation of ks_donor_acceptor() (geometry.cpp) into coq/Gen/HbondFormulas.v.  Fail closed: every
    statement of the function body must match the small grammar below."""
    cpp = open(os.path.join(common.REPO, "mdtraj/geometry/src/geometry.cpp")).read()
    m = re.search(r"static\s+float\s+ks_donor_acceptor\s*\(\s*const float\*\s*xyz\s*,\s*const float\*\s*hcoords\s*,\s*"
                  r"const int\*\s*nco_indices\s*,\s*int\s+donor\s*,\s*int\s+acceptor\s*\)\s*\{(.*?)\n\}", cpp, re.S)
    if not m:
        raise ValueError("ks_donor_acceptor: signature not recognised")
    body = re.sub(r"//[^\n]*", "", m.group(1))
    body = re.sub(r"/\*.*?\*/", "", body, flags=re.S)
    stmts = [re.sub(r"\s+", "", x) for x in body.split(";")]
    stmts = [x for x in stmts if x]
    num = r"(-?[0-9]+(?:\.[0-9]*)?f?)"
    sites, diffs = {}, {}
    coupling = packed = recip = energy = clamp = None
    for st in stmts:
        mm = re.fullmatch(r"fvec4(\w+)\(%s,%s,%s,%s\)" % (num, num, num, num), st)
        if mm:
            if coupling is not None:
                raise ValueError("two constant vectors in ks_donor_acceptor")
            coupling = (mm.group(1), [dec(mm.group(i)) for i in range(2, 6)])
            continue
        mm = re.fullmatch(r"fvec4(\w+)\(xyz\[3\*nco_indices\[3\*(donor|acceptor)(?:\+([0-2]))?\]\],"
                          r"xyz\[3\*nco_indices\[3\*(donor|acceptor)(?:\+([0-2]))?\]\+1\],"
                          r"xyz\[3\*nco_indices\[3\*(donor|acceptor)(?:\+([0-2]))?\]\+2\],0\)", st)
        if mm:
            roles = {(mm.group(2), mm.group(3) or "0"), (mm.group(4), mm.group(5) or "0"), (mm.group(6), mm.group(7) or "0")}
            if len(roles) != 1:
                raise ValueError("components of %s come from different atoms" % mm.group(1))
            sites[mm.group(1)] = roles.pop()
            continue
        mm = re.fullmatch(r"fvec4(\w+)\(hcoords\[4\*(donor|acceptor)\],hcoords\[4\*(donor|acceptor)\+1\],"
                          r"hcoords\[4\*(donor|acceptor)\+2\],0\)", st)
        if mm:
            if len({mm.group(2), mm.group(3), mm.group(4)}) != 1:
                raise ValueError("components of %s come from different hydrogens" % mm.group(1))
            sites[mm.group(1)] = (mm.group(2), "h")
            continue
        mm = re.fullmatch(r"fvec4(\w+)=(\w+)-(\w+)", st)
        if mm:
            diffs[mm.group(1)] = (mm.group(2), mm.group(3))
            continue
        mm = re.fullmatch(r"fvec4(\w+)\(dot3\((\w+),(\w+)\),dot3\((\w+),(\w+)\),dot3\((\w+),(\w+)\),dot3\((\w+),(\w+)\)\)", st)
        if mm:
            g = mm.groups()
            if any(g[1 + 2 * k] != g[2 + 2 * k] for k in range(4)):
                raise ValueError("dot3 of two different vectors")
            packed = (g[0], [g[1], g[3], g[5], g[7]])
            continue
        mm = re.fullmatch(r"fvec4(\w+)=1\.0f?/sqrt\((\w+)\)", st)
        if mm:
            recip = (mm.group(1), mm.group(2))
            continue
        mm = re.fullmatch(r"float(\w+)=dot4\((\w+),(\w+)\)", st)
        if mm:
            energy = mm.groups()
            continue
        mm = re.fullmatch(r"return\((\w+)<%s\?%s:(\w+)\)" % (num, num), st)
        if mm:
            clamp = mm.groups()
            continue
        raise ValueError("ks_donor_acceptor: statement outside the grammar: %s" % st)
    if None in (coupling, packed, recip, energy, clamp):
        raise ValueError("ks_donor_acceptor: a part of the formula is missing")
    if recip[1] != packed[0] or set(energy[1:]) != {coupling[0], recip[0]} or clamp[0] != energy[0] or clamp[3] != energy[0]:
        raise ValueError("ks_donor_acceptor: data flow not recognised")
    SITE = {("donor", "0"): "KS_N", ("donor", "h"): "KS_H", ("acceptor", "1"): "KS_C", ("acceptor", "2"): "KS_O"}
    if sorted(sites.values()) != sorted(SITE):
        raise ValueError("ks_donor_acceptor: unexpected atom sources %s" % sorted(sites.values()))
    pairs = []
    for v in packed[1]:
        if v not in diffs or diffs[v][0] not in sites or diffs[v][1] not in sites:
            raise ValueError("ks_donor_acceptor: %s is not a difference of two loaded positions" % v)
        pairs.append((SITE[sites[diffs[v][0]]], SITE[sites[diffs[v][1]]]))
    cs = coupling[1]
    qq = lambda c: "(%d # %d)" % (c.numerator, c.denominator) if c >= 0 else "(%d # %d)" % (c.numerator, c.denominator)
    zz2 = lambda c: "(%d, %d)" % (c.numerator, c.denominator)
    src = {v: k for k, v in SITE.items()}
    slot = lambda s: "(%s, %s%%nat)" % ("true" if src[s][0] == "donor" else "false", "3" if src[s][1] == "h" else src[s][1])
    text = """(* GENERATED by harness/props/C14.py:translate from ks_donor_acceptor() in
   mdtraj/geometry/src/geometry.cpp -- do not edit.  Fail closed: any statement of that function outside
   the accepted grammar aborts the translation and breaks the tie. *)
From Coq Require Import ZArith QArith List.
Import ListNotations.

(* the four positions the function loads *)
Inductive ks_site := KS_N | KS_H | KS_C | KS_O.
(* (true = donor residue / false = acceptor residue, slot of nco_indices; 3 = the hcoords array) *)
Definition ks_site_source (s : ks_site) : bool * nat :=
  match s with KS_N => %s | KS_H => %s | KS_C => %s | KS_O => %s end.
(* fvec4 r_xy = r_x - r_y;  then the squared norms in packing order *)
Definition ks_packed : list (ks_site * ks_site) := [%s].
(* the constant vector *)
Definition ks_coupling_packed : list (Z * Z) := [%s]%%Z.
(* energy = dot4(coupling, 1/sqrt(d2)): as an expression in the inverse distances *)
Definition ks_energy_expr (inv : ks_site -> ks_site -> Q) : Q :=
  %s.
(* return (energy < T ? V : energy) *)
Definition ks_clamp_test : Z * Z := %s%%Z.
Definition ks_clamp_value : Z * Z := %s%%Z.
""" % (slot("KS_N"), slot("KS_H"), slot("KS_C"), slot("KS_O"),
       "; ".join("(%s, %s)" % pq for pq in pairs), "; ".join(zz2(c) for c in cs),
       " + ".join("%s * inv %s %s" % (qq(c), a, b) for c, (a, b) in zip(cs, pairs)),
       zz2(dec(clamp[1])), zz2(dec(clamp[2])))
    ctx.write_gen("Gen/HbondFormulas.v", text)


def translate(ctx):
    try:
        translate_formulas(ctx)
    except Exception as e:      # fail closed for the formula
        ctx.break_("translator:ks_donor_acceptor", str(e))
    import ast
    py = open(os.path.join(common.REPO, "mdtraj/geometry/hbond.py")).read()
    cpp = open(os.path.join(common.REPO, "mdtraj/geometry/src/geometry.cpp")).read()
    tree = ast.parse(py)
    fns = {n.name: n for n in tree.body if isinstance(n, ast.FunctionDef)}
    bh = fns["baker_hubbard"]
    names = [a.arg for a in bh.args.args]
    defaults = dict(zip(names[len(names) - len(bh.args.defaults):], bh.args.defaults))
    num = lambda node: Fraction(repr(ast.literal_eval(node)))
    bh_cut, bh_ang, bh_freq = num(defaults["distance_cutoff"]), num(defaults["angle_cutoff"]), num(defaults["freq"])
    wn = {}
    for st in fns["wernet_nilsson"].body:
        if isinstance(st, ast.Assign) and len(st.targets) == 1 and isinstance(st.targets[0], ast.Name) \
                and st.targets[0].id in ("distance_cutoff", "angle_const", "angle_cutoff"):
            wn[st.targets[0].id] = num(st.value)
    if set(wn) != {"distance_cutoff", "angle_const", "angle_cutoff"}:
        raise ValueError("wernet_nilsson constants not found")

    def grab(pat, what):
        m = re.search(pat, cpp)
        if not m:
            raise ValueError("%s not found in geometry.cpp" % what)
        return m
    ecut = dec(grab(r"HBOND_ENERGY_CUTOFF\s*=\s*(-?[0-9.]+f?)\s*;", "HBOND_ENERGY_CUTOFF").group(1))
    ca2 = dec(grab(r"MINIMAL_CA_DISTANCE2\s*=\s*([0-9.]+f?)\s*;", "MINIMAL_CA_DISTANCE2").group(1))
    cm = grab(r"fvec4\s+coupling\(\s*(-?[0-9.]+f?)\s*,\s*(-?[0-9.]+f?)\s*,\s*(-?[0-9.]+f?)\s*,\s*(-?[0-9.]+f?)\s*\)", "coupling")
    cs = [dec(cm.group(i)) for i in range(1, 5)]
    if len({abs(c) for c in cs}) != 1:
        raise ValueError("coupling magnitudes differ")
    order = grab(r"fvec4\s+d2_honchcno\(\s*dot3\(r_ho, r_ho\)\s*,\s*dot3\(r_nc, r_nc\)\s*,\s*dot3\(r_hc, r_hc\)\s*,\s*dot3\(r_no, r_no\)\s*\)",
                 "distance packing order (ho, nc, hc, no)")
    nh = dec(grab(r"r_n\s*\+\s*norm_r_co\s*\*\s*([0-9.]+f?)\s*;", "N-H length").group(1))
    fl = grab(r"energy\s*<\s*(-?[0-9.]+f?)\s*\?\s*(-?[0-9.]+f?)\s*:\s*energy", "energy floor")
    if dec(fl.group(1)) != dec(fl.group(2)):
        raise ValueError("energy floor test and value differ")
    floor = dec(fl.group(1))
    sign = lambda c: "(%d)" % (1 if c > 0 else -1)
    text = """(* GENERATED by harness/props/C14.py:translate from mdtraj/geometry/hbond.py and
   mdtraj/geometry/src/geometry.cpp -- do not edit.  Decimal literals as (numerator, denominator). *)
From Coq Require Import ZArith.
Local Open Scope Z_scope.

(* baker_hubbard(..., distance_cutoff=, angle_cutoff=, freq=) defaults *)
Definition bh_distance_cutoff : Z * Z := %s.
Definition bh_angle_cutoff : Z * Z := %s.
Definition bh_freq_default : Z * Z := %s.
(* wernet_nilsson: distance_cutoff; angle_const; angle_cutoff *)
Definition wn_distance_cutoff : Z * Z := %s.
Definition wn_angle_const : Z * Z := %s.
Definition wn_angle_cutoff : Z * Z := %s.
(* kabsch_sander (geometry.cpp) *)
Definition ks_energy_cutoff : Z * Z := %s.
Definition ks_minimal_ca_distance2 : Z * Z := %s.
Definition ks_coupling : Z * Z := %s.
Definition ks_coupling_signs : list Z := (%s :: %s :: %s :: %s :: nil).
Definition ks_nh_length : Z * Z := %s.
Definition ks_energy_floor : Z * Z := %s.
""" % (qz(bh_cut), qz(bh_ang), qz(bh_freq), qz(wn["distance_cutoff"]), qz(wn["angle_const"]), qz(wn["angle_cutoff"]),
       qz(ecut), qz(ca2), qz(abs(cs[0])), sign(cs[0]), sign(cs[1]), sign(cs[2]), sign(cs[3]), qz(nh), qz(floor))
    ctx.write_gen("Gen/HbondTables.v", text)


# ------------------------------------------------------------------------------------------------ systems
BACKBONE = {"C", "CA", "N", "O", "HA", "H"}
PROTEIN = {"GLY", "ALA", "SER", "THR", "LYS", "ASP", "ASN", "PRO", "VAL", "LEU", "ILE", "MET", "PHE", "TYR", "TRP",
           "CYS", "GLU", "GLN", "ARG", "HIS", "ACE", "NME", "NLE"}
WATER = {"H2O", "HHO", "HOH", "OH2", "OHH", "SOL", "TIP", "TIP2", "TIP3", "TIP4", "WAT"}
# complete-backbone residues may carry these names; none of them is in mdtraj's _PROTEIN_RESIDUES (nor in PROTEIN above)
NONTABLE_NAMES = ["HIE", "HID", "CYX", "ASH", "HSD", "NALA", "CALA", "LIG", "XYZ"]
SIDE = {
    "GLY": ([], []),
    "ALA": ([("CB", "C")], [("CA", "CB")]),
    "SER": ([("CB", "C"), ("OG", "O"), ("HG", "H")], [("CA", "CB"), ("CB", "OG"), ("OG", "HG")]),
    "THR": ([("CB", "C"), ("OG1", "O"), ("HG1", "H"), ("CG2", "C")], [("CA", "CB"), ("CB", "OG1"), ("OG1", "HG1"), ("CB", "CG2")]),
    "LYS": ([("CB", "C"), ("NZ", "N"), ("HZ1", "H"), ("HZ2", "H"), ("HZ3", "H")],
            [("CA", "CB"), ("CB", "NZ"), ("NZ", "HZ1"), ("NZ", "HZ2"), ("NZ", "HZ3")]),
    "ASP": ([("CB", "C"), ("CG", "C"), ("OD1", "O"), ("OD2", "O")], [("CA", "CB"), ("CB", "CG"), ("CG", "OD1"), ("CG", "OD2")]),
    "ASN": ([("CB", "C"), ("CG", "C"), ("OD1", "O"), ("ND2", "N"), ("HD21", "H"), ("HD22", "H")],
            [("CA", "CB"), ("CB", "CG"), ("CG", "OD1"), ("CG", "ND2"), ("ND2", "HD21"), ("ND2", "HD22")]),
    "PRO": ([("CB", "C"), ("CG", "C"), ("CD", "C")], [("CA", "CB"), ("CB", "CG"), ("CG", "CD"), ("CD", "N")]),
}


def make_system(rng, nres=None, want_ks=True):
    """-> dict(residues, bonds, parent (H -> heavy), n_atoms)"""
    nres = nres or rng.randint(2, 15)
    residues, bonds, parent = [], [], {}
    idx = 0
    prevC = None
    chain = 0
    for r in range(nres):
        name = rng.choice(["GLY", "ALA", "ALA", "SER", "THR", "LYS", "ASP", "ASN", "PRO", "PRO"])
        if r > 0 and rng.random() < 0.12:
            chain += 1
            prevC = None
        atoms = [("N", "N")]
        bl = []
        if name != "PRO":
            if prevC is None and rng.random() < 0.5:
                atoms += [("H1", "H"), ("H2", "H"), ("H3", "H")]
                bl += [("N", "H1"), ("N", "H2"), ("N", "H3")]
            else:
                atoms.append(("H", "H"))
                bl.append(("N", "H"))
        atoms += [("CA", "C"), ("HA", "H"), ("C", "C"), ("O", "O")]
        bl += [("N", "CA"), ("CA", "HA"), ("CA", "C"), ("C", "O")]
        sa, sb = SIDE[name]
        atoms += sa
        bl += sb
        last = (r == nres - 1)
        if last and rng.random() < 0.5:
            atoms.append(("OXT", "O"))
            bl.append(("C", "OXT"))
        # incomplete residue: drop one backbone atom (and the hydrogens bonded to it)
        if rng.random() < 0.10:
            gone = rng.choice(["O", "O", "C", "CA", "N"])
            dropped = {gone} | {b for a, b in bl if a == gone and b.startswith("H")}
            atoms = [a for a in atoms if a[0] not in dropped]
            bl = [b for b in bl if b[0] not in dropped and b[1] not in dropped]
        pos = {a[0]: idx + k for k, a in enumerate(atoms)}
        for a, b in bl:
            bonds.append([pos[a], pos[b]])
        # duplicate backbone names: a side-chain heavy atom carries the name of a backbone atom that comes earlier or
        # later in the residue (the wrapper must take the FIRST atom with the name); bonds keep their atom indices
        dup = None
        if rng.random() < 0.10:
            side = [k for k, a in enumerate(atoms) if a[0] not in BACKBONE and a[1] != "H" and not a[0].startswith("H")]
            if side:
                k = rng.choice(side)
                dup = (k, rng.choice(["CA", "O", "C", "N"]))
        for a, b in bl:
            if b[0] == "H" and dict(atoms)[b] == "H":
                parent[pos[b]] = pos[a]
        if prevC is not None and "N" in pos:
            bonds.append([prevC, pos["N"]])
        prevC = pos.get("C")
        # residue names outside mdtraj's amino-acid table (force-field / protonation-state variants, arbitrary names) on a
        # residue built from a protein template: whether it takes part in Kabsch-Sander bonds is decided by its backbone
        # atoms, not by its name (for baker_hubbard / wernet_nilsson it is then not "protein": no side-chain atoms)
        if rng.random() < 0.15:
            name = rng.choice(NONTABLE_NAMES)
        residues.append({"name": name, "chain": chain, "atoms": [list(a) for a in atoms]})
        if dup is not None:
            # side-chain atoms follow the backbone in the templates: the duplicate is the LATER carrier of the name (or the
            # only one when the genuine atom was deleted above: it then completes the residue)
            residues[-1]["atoms"][dup[0]][0] = dup[1]
        idx += len(atoms)
    for _ in range(rng.choice([0, 0, 1, 2, 4])):
        chain_w = chain + 1
        residues.append({"name": "HOH", "chain": chain_w, "atoms": [["O", "O"], ["H1", "H"], ["H2", "H"]]})
        bonds += [[idx, idx + 1], [idx, idx + 2]]
        parent[idx + 1] = idx
        parent[idx + 2] = idx
        idx += 3
    if rng.random() < 0.5:
        residues.append({"name": "LIG", "chain": chain + 2,
                         "atoms": [["C1", "C"], ["N1", "N"], ["H1", "H"], ["O1", "O"], ["O2", "O"], ["H2", "H"]]})
        bonds += [[idx, idx + 1], [idx + 1, idx + 2], [idx, idx + 3], [idx, idx + 4], [idx + 4, idx + 5]]
        parent[idx + 2] = idx + 1
        parent[idx + 5] = idx + 4
        idx += 6
    if rng.random() < 0.5:
        rng.shuffle(bonds)
    bonds = [b if rng.random() < 0.5 else b[::-1] for b in bonds]
    return {"residues": residues, "bonds": bonds, "parent": parent, "n_atoms": idx}


def elements(sysd):
    return [a[1] for r in sysd["residues"] for a in r["atoms"]]


def place(rng, sysd, n_frames, periodic):
    """integer grid coordinates: heavy atoms in a small cube, H 0.1 nm from the parent"""
    els = elements(sysd)
    n = len(els)
    heavy = [i for i in range(n) if i not in sysd["parent"]]
    side = rng.uniform(0.45, 0.9) * max(1.0, (len(heavy) / 30.0) ** (1 / 3.0))
    pts = {}
    mind = int(0.09 * G)
    for i in heavy:
        for _try in range(200):
            p = [rng.randint(0, int(side * G)) for _ in range(3)]
            if all(sum((p[k] - q[k]) ** 2 for k in range(3)) >= mind * mind for q in pts.values()):
                break
        pts[i] = p
    acc = [i for i in heavy if els[i] in ("N", "O")]
    aim = {}
    for h, par in sysd["parent"].items():
        aim[h] = rng.choice(acc) if acc and rng.random() < 0.7 else None
    # exactly / nearly collinear D-H...A (180 degrees, delta = 0) and exactly folded back A...D-H (0 degrees): legal inputs
    # on which the law-of-cosines cosine of mdtraj lands at or slightly beyond -1 / +1.  The acceptor is re-positioned on
    # the grid line through D in every frame: D + k*u, H = D + m*u (+ one grid unit off axis for "nearly").
    linear = {}
    used = set()
    for h, par in sysd["parent"].items():
        if aim[h] is not None and aim[h] != par and aim[h] not in used and par not in used and rng.random() < 0.3 \
                and aim[h] not in sysd["parent"].values():
            u = None
            while not u or not any(u):
                u = [rng.randint(-14, 14) for _ in range(3)]
            lu = math.sqrt(sum(c * c for c in u))
            m = max(1, int(round(0.1 * G / lu)))
            k = m + max(1, int(round(rng.uniform(0.13, 0.26) * G / lu)))
            linear[h] = (aim[h], u, m, k if rng.random() < 0.8 else -k, rng.choice([0, 0, 1]))
            used.add(aim[h])
            used.add(par)
    box = None
    if periodic:
        L = [int(rng.choice([1.5, 2.0, 2.5, 3.0]) * G) for _ in range(3)]
        box = L
    wrap = rng.choice(["whole", "groups", "atomwise", "wrapped"]) if box is not None else "none"
    off = [-rng.randint(0, int(side * G)) for _ in range(3)]
    sysd["wrap"] = wrap
    sysd["n_linear"] = len(linear)
    frames = []
    for f in range(n_frames):
        jit = rng.choice([0.0, 0.01, 0.03])
        xyz = [None] * n
        for i in heavy:
            xyz[i] = [pts[i][k] + int(round(rng.gauss(0, jit) * G)) for k in range(3)]
        for h, (a, u, m, k, near) in linear.items():
            par = sysd["parent"][h]
            xyz[a] = [xyz[par][c] + k * u[c] for c in range(3)]
        for h, par in sysd["parent"].items():
            if h in linear:
                a, u, m, k, near = linear[h]
                xyz[h] = [xyz[par][c] + m * u[c] for c in range(3)]
                if near:
                    xyz[h][rng.randrange(3)] += 1
                continue
            if aim[h] is not None and aim[h] != par:
                v = [xyz[aim[h]][k] - xyz[par][k] + rng.gauss(0, 0.25) * G * 0.2 for k in range(3)]
            else:
                v = [rng.gauss(0, 1) for _ in range(3)]
            nv = math.sqrt(sum(c * c for c in v)) or 1.0
            ln = rng.uniform(0.095, 0.105) * G
            xyz[h] = [xyz[par][k] + int(round(v[k] / nv * ln)) for k in range(3)]
        if box is not None:
            # how the system sits in the cell (same for all frames of a system, drawn once below)
            if wrap == "groups":
                # lattice translations of whole small groups (a heavy atom with its hydrogens)
                for i in heavy:
                    if rng.random() < 0.25:
                        sh = [rng.choice([-1, 0, 1]) * box[k] for k in range(3)]
                        for j in [i] + [h for h, par in sysd["parent"].items() if par == i]:
                            xyz[j] = [xyz[j][k] + sh[k] for k in range(3)]
            elif wrap == "atomwise":
                # every atom independently moved by a lattice vector: D-H bonds and D...A pairs straddle faces, the plain
                # and the minimum-image distance of a bonded pair differ
                for j in range(n):
                    if rng.random() < 0.3:
                        xyz[j] = [xyz[j][k] + rng.choice([-1, 0, 1]) * box[k] for k in range(3)]
            elif wrap == "wrapped":
                # the cluster is put across a corner of the cell and every atom is wrapped into [0, L)
                for j in range(n):
                    xyz[j] = [(xyz[j][k] + off[k]) % box[k] for k in range(3)]
        frames.append({"xyz": xyz, "box": list(box) if box is not None else None})
    return frames


def model_flags(sysd):
    """(element, is_water, is_sidechain) per atom for the Coq topology -- independent of mdtraj"""
    out = []
    for r in sysd["residues"]:
        for name, el in r["atoms"]:
            e = {"N": "EN", "O": "EO", "H": "EH", "C": "EC"}.get(el, "EX")
            out.append((e, r["name"] in WATER, (name not in BACKBONE) and (r["name"] in PROTEIN)))
    return out


def ks_residues(sysd):
    out, idx = [], 0
    for r in sysd["residues"]:
        pos = {}
        for k, (name, _el) in enumerate(r["atoms"]):
            pos.setdefault(name, idx + k)
        out.append((pos.get("N"), pos.get("CA"), pos.get("C"), pos.get("O"), r["name"] == "PRO"))
        idx += len(r["atoms"])
    return out


def gen_calls(rng, tier):
    calls = []
    for _ in range(3 if tier == "quick" else 4):
        c = {"fn": "baker_hubbard", "freq": rng.choice([0.0, 0.1, 0.5, 0.99, 0.0, 0.1, 0.5, 1.0, 0.25, 0.75]),
             "exclude_water": rng.random() < 0.6, "periodic": rng.random() < 0.7, "sidechain_only": rng.random() < 0.25,
             "distance_cutoff": None, "angle_cutoff": None}
        if rng.random() < 0.6:
            c["distance_cutoff"] = rng.choice([0.175, 0.2, 0.25, 0.3, 0.325, 0.21875])
        if rng.random() < 0.6:
            c["angle_cutoff"] = rng.choice([84, 100, 120, 135, 156, 90, 110.5, 30, 60, 170])
        calls.append(c)
    for _ in range(1 if tier == "quick" else 2):
        calls.append({"fn": "wernet_nilsson", "exclude_water": rng.random() < 0.6, "periodic": rng.random() < 0.7,
                      "sidechain_only": rng.random() < 0.25})
    calls.append({"fn": "kabsch_sander"})
    return calls


REAL_FILES = {"1vii.pdb": 36, "bpti.pdb": 58, "2EQQ.pdb": 28, "1vii_sustiva_water.pdb": 60, "aaqaa-wat.pdb": 40,
              "GG-tip4pew.pdb": 20}
KNOWN_NONPROTEIN = {"EFZ", "LIG", "NA", "CL", "NH2"} | WATER


def real_systems(ctx, n_sys):
    """windows of real structures with hydrogens (topology with mdtraj's standard bonds), jittered frames"""
    rng = ctx.rng
    reqs = []
    for _ in range(n_sys):
        f = rng.choice(sorted(REAL_FILES))
        N = REAL_FILES[f]
        w = rng.randint(2, 12)
        lo = rng.randrange(0, max(1, N - w))
        reqs.append({"file": f, "frame": rng.randrange(20), "residues": [lo, lo + w]})
    dumps = ctx.run_impl("hbond_impl.py", {"repo": common.REPO, "G": G, "dump": reqs})["dump"]
    out = []
    for rq, d in zip(reqs, dumps):
        if d is None or any(r["name"] not in PROTEIN and r["name"] not in KNOWN_NONPROTEIN for r in d["residues"]):
            continue
        n = len(d["xyz"])
        if n > 260 or not d["bonds"]:
            continue
        s = {"residues": d["residues"], "bonds": d["bonds"], "parent": {}, "n_atoms": n}
        F = rng.randint(1, 4)
        frames = []
        for f in range(F):
            jit = rng.choice([0.0, 0.005, 0.02, 0.05])
            frames.append({"xyz": [[c + int(round(rng.gauss(0, jit) * G)) for c in v] for v in d["xyz"]], "box": None})
        s["wrap"] = "none"
        if rng.random() < 0.4:
            L = [int(rng.choice([3.0, 4.0]) * G)] * 3
            s["wrap"] = rng.choice(["whole", "wrapped"])
            off = [rng.randint(0, L[0]) for _ in range(3)]
            for fr in frames:
                fr["box"] = list(L)
                if s["wrap"] == "wrapped":     # molecule split across faces, atom by atom
                    fr["xyz"] = [[(v[k] + off[k]) % L[k] for k in range(3)] for v in fr["xyz"]]
        s["frames"] = frames
        s["oob"] = [rng.randint(-2 * G, 2 * G) for _ in range(3)]
        s["calls"] = gen_calls(rng, ctx.tier)
        s["stream"] = "real"
        s["source"] = rq
        out.append(s)
    return out


def apply_edit_desc(s, st):
    """the same in-place edit on the description the model is built from"""
    op = st["op"]
    flat = [(ri, ai) for ri, r in enumerate(s["residues"]) for ai in range(len(r["atoms"]))]
    if op == "rename_residue":
        s["residues"][st["res"]]["name"] = st["name"]
    elif op == "rename_atom":
        ri, ai = flat[st["atom"]]
        s["residues"][ri]["atoms"][ai][0] = st["name"]
    elif op == "set_element":
        ri, ai = flat[st["atom"]]
        s["residues"][ri]["atoms"][ai][1] = st["element"]
    elif op == "repoint_bond":
        s["bonds"].pop(st["bond"])
        s["bonds"].append(sorted(st["new"]))


def gen_history(rng, s, tier):
    """calls interleaved with count-preserving in-place edits that add or remove donors, acceptors, waters, sidechain
    or backbone atoms"""
    import copy
    cur = copy.deepcopy({"residues": s["residues"], "bonds": s["bonds"]})
    base_calls = gen_calls(rng, tier)
    steps = [{"op": "call", "call": c} for c in base_calls]        # first use of the object
    for _ in range(rng.randint(2, 4)):
        for _e in range(rng.randint(1, 2)):
            names = [(ri, ai, a[0], a[1], r["name"]) for ri, r in enumerate(cur["residues"]) for ai, a in enumerate(r["atoms"])]
            kind = rng.choice(["water", "atom", "atom", "element", "element", "residue", "bond"])
            st = None
            if kind == "water":
                cand = [ri for ri, r in enumerate(cur["residues"]) if r["name"] in ("HOH", "W")]
                if cand:
                    ri = rng.choice(cand)
                    st = {"op": "rename_residue", "res": ri, "name": "W" if cur["residues"][ri]["name"] == "HOH" else "HOH"}
            elif kind == "residue":
                ri = rng.randrange(len(cur["residues"]))
                st = {"op": "rename_residue", "res": ri, "name": rng.choice(["PRO", "ALA", "XYZ", "GLY", "HOH", "HIE", "CYX"])}
            elif kind == "atom":
                swap = {"O": "OT1", "OT1": "O", "N": "NT", "NT": "N", "CA": "CX", "CX": "CA", "C": "CY", "CY": "C",
                        "H": "HN", "HN": "H", "OG": "O", "HA": "HB9"}
                cand = [k for k, (ri, ai, nm, el, rn) in enumerate(names) if nm in swap]
                if cand:
                    k = rng.choice(cand)
                    st = {"op": "rename_atom", "atom": k, "name": swap[names[k][2]]}
            elif kind == "element":
                k = rng.randrange(len(names))
                el = names[k][3]
                st = {"op": "set_element", "atom": k, "element": rng.choice([e for e in ("C", "N", "O", "H", "S") if e != el])}
            elif kind == "bond" and cur["bonds"]:
                els = [x[3] for x in names]
                cand = [bi for bi, (a, b) in enumerate(cur["bonds"]) if "H" in (els[a], els[b])]
                if cand:
                    bi = rng.choice(cand)
                    a, b = cur["bonds"][bi]
                    h = a if els[a] == "H" else b
                    other = rng.choice([i for i in range(len(names)) if i != h and els[i] != "H"])
                    if sorted([h, other]) not in [sorted(x) for x in cur["bonds"]]:
                        st = {"op": "repoint_bond", "bond": bi, "new": [h, other]}
            if st is not None:
                steps.append(st)
                apply_edit_desc(cur, st)
        for c in rng.sample(base_calls, min(len(base_calls), rng.randint(2, 4))):
            steps.append({"op": "call", "call": c})
    return steps


def expand_history(s, results):
    """one snapshot system per call step: the description as it is at that step, with mdtraj's answer for that step"""
    import copy
    cur = copy.deepcopy({"residues": s["residues"], "bonds": s["bonds"]})
    snaps, k = [], 0
    for si, st in enumerate(s["history"]):
        if st["op"] != "call":
            apply_edit_desc(cur, st)
            continue
        snap = {"residues": copy.deepcopy(cur["residues"]), "bonds": copy.deepcopy(cur["bonds"]), "frames": s["frames"],
                "oob": s["oob"], "calls": [st["call"]], "stream": "history", "wrap": s.get("wrap", "none"),
                "parent": {}, "n_atoms": s["n_atoms"], "origin": s, "step": si}
        snaps.append((snap, [results[k]]))
        k += 1
    return snaps


def build_systems(ctx, n_sys):
    rng = ctx.rng
    out = real_systems(ctx, max(2, n_sys // 4))
    for k in range(n_sys - len(out)):
        s = make_system(rng)
        F = rng.randint(1, 6)
        s["frames"] = place(rng, s, F, periodic=rng.random() < 0.5)
        s["oob"] = [rng.randint(-2 * G, 2 * G) for _ in range(3)]
        s["calls"] = gen_calls(rng, ctx.tier)
        s["stream"] = "synthetic"
        out.append(s)
    # call histories on one object: in-place edits between calls
    for k in range(max(3, n_sys // 9) if n_sys < 200 else n_sys // 12):
        s = make_system(rng, rng.randint(2, 6))
        s["frames"] = place(rng, s, rng.randint(1, 3), periodic=rng.random() < 0.3)
        s["oob"] = [rng.randint(-2 * G, 2 * G) for _ in range(3)]
        s["history"] = gen_history(rng, s, ctx.tier)
        s["calls"] = []
        s["stream"] = "history"
        out.append(s)
    # degenerate topologies
    nb = make_system(rng, 2)
    nb["bonds"] = []
    nb["parent"] = {}
    nb["frames"] = [{"xyz": [[rng.randint(0, G) for _ in range(3)] for _ in range(nb["n_atoms"])], "box": None}]
    nb["oob"] = [0, 0, 0]
    nb["calls"] = [c for c in gen_calls(rng, "quick") if c["fn"] != "kabsch_sander"][:2]
    nb["stream"] = "nobonds"
    out.append(nb)
    return out


# ------------------------------------------------------------------------------------------------ coq text
def cq(fr):
    fr = Fraction(fr)
    return "(%s, %s)" % (cz(fr.numerator), cz(fr.denominator))


def zz(n):
    n = int(n)
    return "%d" % n if n >= 0 else "(%d)" % n


def cvec(v):
    return "(%s, %s, %s)" % (zz(v[0]), zz(v[1]), zz(v[2]))


def coq_topo(sysd):
    fl = model_flags(sysd)
    return "(mkTopo %s %s)" % (clist(["(mkAtom %s %s %s)" % (e, cbool(w), cbool(sc)) for e, w, sc in fl]),
                               clist(["(%s, %s)" % (cnat(a), cnat(b)) for a, b in sysd["bonds"]]))


def coq_frames(sysd):
    return clist(["(mkFrame %s %s)" % (clist([cvec(v) for v in fr["xyz"]]),
                                        "(Some %s)" % cvec(fr["box"]) if fr["box"] is not None else "None")
                  for fr in sysd["frames"]])


def coq_trips(l):
    return clist(["(%s, %s, %s)" % (cnat(a), cnat(b), cnat(c)) for a, b, c in l])


def copt_q(x):
    return "None" if x is None else "(Some %s)" % cq(Fraction(repr(x)))


def coq_residues(sysd):
    """the residues as the topology presents them (residue name, [(atom index, atom name)]): the model derives the
    N/CA/C/O indices, the proline flag and completeness itself (coq/Hbond/KsWrap.v prep = _prep_kabsch_sander_arrays)"""
    out, idx = [], 0
    for r in sysd["residues"]:
        atoms = clist(["(%s, %s)" % (cnat(idx + k), common.cstr(name)) for k, (name, _el) in enumerate(r["atoms"])])
        out.append("(%s, %s)" % (common.cstr(r["name"]), atoms))
        idx += len(r["atoms"])
    return "(prep %s)" % clist(out)


BH_TY = "bool * bool * bool * (Z * Z) * option (Z * Z) * option (Z * Z) * (Z * Z) * (Z * Z) * Z * topo * list frame"
WN_TY = "bool * bool * bool * (Z * Z) * Z * topo * list frame"
KS_TY = "Z * hvariant * Z * (Z * Z) * Z * list residue * list vec * vec"
SC = 1 << 44


def needs_prev_incomplete(sysd):
    """a complete residue preceded by one lacking C or O: the two hydrogen-placement variants differ there"""
    rs = ks_residues(sysd)
    for i in range(1, len(rs)):
        n, ca, c, o, _p = rs[i]
        if None not in (n, ca, c, o) and (rs[i - 1][2] is None or rs[i - 1][3] is None):
            return True
    return False


def coq_files(ctx, files, par=4):
    """files: list of (name, text) each ending in Eval lines that print ("TAG"%string, n, [bad indices]).
    Runs up to `par` coqc in parallel; returns {name: {tag: set(bad)}} or None after reporting a break."""
    import subprocess
    out = {}
    todo = list(files)
    running = []
    errors = []

    def reap(pr, name):
        o = pr.communicate()[0]
        if pr.returncode != 0:
            errors.append(o[-3000:])
            return
        res = {}
        for m in re.finditer(r'\("([A-Z_]+)"%string,\s*(\d+)(?:%nat)?,\s*(\[[^\]]*\]|nil)\s*[,)]', o, re.S):
            res[m.group(1)] = {int(x) for x in re.findall(r"\d+", m.group(3))}
            res["#" + m.group(1)] = int(m.group(2))
        out[name] = res
    while todo or running:
        while todo and len(running) < par:
            name, text = todo.pop(0)
            path = os.path.join(ctx.tmp, name + ".v")
            with open(path, "w") as fh:
                fh.write(text)
            pr = subprocess.Popen(["timeout", "900", "coqc", "-Q", common.COQ, "MD", path], cwd=ctx.tmp,
                                  stdout=subprocess.PIPE, stderr=subprocess.STDOUT, text=True)
            running.append((pr, name))
        pr, name = running.pop(0)
        reap(pr, name)
    if errors:
        ctx.break_("correspondence:coqc-evaluation", "\n".join(errors))
        return None
    return out


def cases_block(tag, ty_in, ty_out, fn, chk, cnt, cases):
    """one evaluation of the model per case; prints the mismatching indices and the number of guard-band exclusions"""
    lines = ["Definition cases_%s : list (nat * (%s) * (%s)) := [" % (tag, ty_in, ty_out),
             ";\n".join("(%d%%nat, %s, %s)" % (j, a, b) for j, (a, b) in enumerate(cases)), "].",
             "Eval vm_compute in (let rs := map (fun c => (fst (fst c), %s (snd (fst c)), snd c)) cases_%s in" % (fn, tag),
             '  (("%s"%%string, List.length rs, map (fun r => fst (fst r)) (filter (fun r => negb (%s (snd (fst r)) (snd r))) rs)),'
             % (tag, chk),
             '   ("UNC%s"%%string, fold_left (fun acc r => (acc + %s (snd (fst r)))%%nat) rs 0%%nat, @nil nat))).' % (tag, cnt)]
    return "\n".join(lines)


HEADER = """From Coq Require Import ZArith List String Bool Ascii.
Import ListNotations.
Require Import MD.Gen.HbondTables MD.Hbond.Model MD.Hbond.KsModel MD.Hbond.KsWrap MD.Hbond.Run.
Open Scope nat_scope.
Open Scope Z_scope.
"""


def run_systems(ctx, systems, batch=6, spec=False):
    sfx = "_spec" if spec else ""
    payload = {"repo": common.REPO, "tmp": ctx.tmp, "shim": SHIM, "G": G,
               "systems": [{k: s[k] for k in ("residues", "bonds", "frames", "oob", "calls", "history") if k in s}
                           for s in systems]}
    res0 = ctx.run_impl("hbond_impl.py", payload)["systems"]
    expanded, res = [], []
    for s, r in zip(systems, res0):
        if s.get("history") is not None:
            for snap, rr in expand_history(s, r):
                expanded.append(snap)
                res.append(rr)
        else:
            expanded.append(s)
            res.append(r)
    systems = expanded
    ks_jobs_meta = []
    files, index = [], {}
    for b0 in range(0, len(systems), batch):
        chunk = list(range(b0, min(len(systems), b0 + batch)))
        prelude = []
        seen_frames = {}
        for si in chunk:
            prelude.append("Definition topo_%d : topo := %s." % (si, coq_topo(systems[si])))
            fid = id(systems[si]["frames"])          # snapshots of one call history share their frames
            if fid in seen_frames:
                prelude.append("Definition frames_%d : list frame := frames_%d." % (si, seen_frames[fid]))
            else:
                seen_frames[fid] = si
                prelude.append("Definition frames_%d : list frame := %s." % (si, coq_frames(systems[si])))
            prelude.append("Definition res_%d : list residue := %s." % (si, coq_residues(systems[si])))
        bh, wn, ks = [], [], []
        for si in chunk:
            s = systems[si]
            differ = needs_prev_incomplete(s)
            for ci, (c, r) in enumerate(zip(s["calls"], res[si])):
                key = {"sys": si, "call": ci}
                if c["fn"] == "baker_hubbard":
                    inp = "(%s, %s, %s, %s, %s, %s, %s, %s, %s, topo_%d, frames_%d)" % (
                        cbool(c["exclude_water"]), cbool(c["sidechain_only"]), cbool(c["periodic"]),
                        cq(Fraction(repr(c["freq"]))), copt_q(c["distance_cutoff"]), copt_q(c["angle_cutoff"]),
                        cq(GUARD_NM), cq(GUARD_DEG), cz(G), si, si)
                    exp = "ErrNoBonds" if r.get("err") == "ValueError:nobonds" else (
                        "(Ok %s)" % coq_trips(r["triplets"]) if "triplets" in r else None)
                    bh.append((key, inp, exp, r))
                elif c["fn"] == "wernet_nilsson":
                    inp = "(%s, %s, %s, %s, %s, topo_%d, frames_%d)" % (
                        cbool(c["exclude_water"]), cbool(c["sidechain_only"]), cbool(c["periodic"]), cq(GUARD_WN), cz(G), si, si)
                    exp = "ErrNoBonds" if r.get("err") == "ValueError:nobonds" else (
                        "(Ok %s)" % clist([coq_trips(x) for x in r["frames"]]) if "frames" in r else None)
                    wn.append((key, inp, exp, r))
                else:
                    if "frames" not in r:
                        ks.append((dict(key, frame=0, variant="both"), None, None, r))
                        continue
                    n = len(s["residues"])
                    for fi, fr in enumerate(r["frames"]):
                        if "inconsistent" in fr:
                            ctx.fail("md.kabsch_sander returns a sparse matrix whose (indptr, indices, data) arrays do not fit "
                                     "together when read after the call has returned", case_of(s, ci),
                                     observed=dict(fr, frame=fi, n_frames=len(r["frames"])),
                                     expected="per frame a self-contained n_residues x n_residues matrix (coq: MD.Hbond.KsWrap.csr_indptr)",
                                     tags={"fn": "kabsch_sander", "kind": "inconsistent-matrix"})
                            continue
                        rows = [[] for _ in range(n)]
                        weird = [b for b in fr["bonds"] if not (0 <= b[0] < n and 0 <= b[1] < n) or b[2] != b[2]
                                 or abs(b[2]) > 1e6]
                        if weird:
                            ctx.fail("md.kabsch_sander reports a bond with an out-of-range residue or a non-finite energy",
                                     case_of(s, ci), observed={"frame": fi, "bonds": [[b[0], b[1], str(b[2])] for b in weird[:5]]},
                                     expected="residue indices in range, finite energies", tags={"fn": "kabsch_sander", "kind": "garbage"})
                            continue
                        for d, a, e in fr["bonds"]:
                            rows[d].append((a, e))
                        exp = clist([clist(["(%s, %s)" % (cnat(a), cz(int(round(Fraction(e) * (1 << 32))))) for a, e in sorted(row)])
                                     for row in rows])
                        oob = s["frames"][fi - 1]["xyz"][-1] if fi > 0 else s["oob"]
                        for hv in (("h_cur", "h_fix") if differ else ("h_cur",)):
                            inp = "(%s, %s, %s, %s, %s, res_%d, f_xyz (nth %d frames_%d (mkFrame [] None)), %s)" % (
                                cz(G), hv, cz(int(KS_GE * SC)), cq(KS_GCA), cz(int(KS_TOL * SC)), si, fi, si, cvec(oob))
                            ks.append((dict(key, frame=fi, variant=hv if differ else "both", shape=fr["shape"], n=n), inp, exp, r))
        name = "c14_%d" % b0
        text = HEADER + "\n".join(prelude) + "\n"
        blocks = {}
        for tag, jobs, ty_in, ty_out, fn, chk, cnt in (
                ("BH", bh, BH_TY, "result (list triplet)", "run_bh" + sfx, "check_bh", "bh_unc"),
                ("WN", wn, WN_TY, "result (list (list triplet))", "run_wn" + sfx, "check_wn", "wn_unc"),
                ("KS", ks, KS_TY, "list (list (nat * Z))", "run_ks_t" + sfx, "check_ks_t", "ks_unc")):
            good = [(k, i, e, r) for k, i, e, r in jobs if i is not None and e is not None]
            blocks[tag] = (jobs, good)
            if good:
                text += cases_block(tag, ty_in, ty_out, fn, chk, cnt, [(i, e) for _k, i, e, _r in good]) + "\n"
        files.append((name, text))
        index[name] = blocks
    outs = coq_files(ctx, files)
    if outs is None:
        return
    ce = ctx.notes.setdefault("coverage_extra", {})
    for name in outs:
        for k, lab in (("#UNCBH", "excluded_bh_triplets_in_guard_band"), ("#UNCWN", "excluded_wn_triplet_frames_in_guard_band"),
                       ("#UNCKS", "excluded_ks_donor_frames_ambiguous")):
            ce[lab] = ce.get(lab, 0) + outs[name].get(k, 0)
    for name, blocks in index.items():
        for tag, fname in (("BH", "baker_hubbard"), ("WN", "wernet_nilsson")):
            jobs, good = blocks[tag]
            for k, i, e, r in jobs:
                if e is None:
                    s = systems[k["sys"]]
                    ctx.fail("md.%s raised %s" % (fname, r.get("err")), case_of(s, k["call"]), observed=r,
                             expected="a list of triplets", tags={"fn": fname, "kind": "raises"})
            if good and tag not in outs[name]:
                ctx.break_("correspondence:coqc-evaluation", "no %s result in %s" % (tag, name))
                return
            bad = outs[name].get(tag, set())
            for j, (k, i, e, r) in enumerate(good):
                s = systems[k["sys"]]
                c = s["calls"][k["call"]]
                nb = len(r.get("triplets", [])) if tag == "BH" else sum(len(x) for x in r.get("frames", []))
                ctx.count({"sys": digest_sys(s), "call": c}, nontrivial=nb > 0,
                          bucket="%s/%s/periodic=%s/cell=%s/%s" % (fname, s.get("stream", "replay"), bool(c.get("periodic")),
                                                                   s["frames"][0]["box"] is not None, s.get("wrap", "none")))
                if j in bad:
                    ctx.fail("md.%s: reported bonds are not the triplets meeting the criteria" % fname,
                             case_of(s, k["call"]), observed=r,
                             expected="coq: strict <= result <= lenient (MD.Hbond.Run.check_%s)" % tag.lower(),
                             tags={"fn": fname, "periodic": bool(c.get("periodic")), "stream": s.get("stream", "replay"),
                                   "cell": s["frames"][0]["box"] is not None, "wrap": s.get("wrap", "none")})
        jobs, good = blocks["KS"]
        for k, i, e, r in jobs:
            if i is None:
                s = systems[k["sys"]]
                ctx.fail("md.kabsch_sander raised %s" % r.get("err"), case_of(s, k["call"]), observed=r,
                         expected="one sparse matrix per frame", tags={"fn": "kabsch_sander", "kind": "raises"})
        if good and "KS" not in outs[name]:
            ctx.break_("correspondence:coqc-evaluation", "no KS result in %s" % name)
            return
        bad = outs[name].get("KS", set())
        for j, (k, i, e, r) in enumerate(good):
            k["bad"] = j in bad
            ks_jobs_meta.append((k, r))
            if k["shape"] != [k["n"], k["n"]]:
                ctx.fail("md.kabsch_sander: matrix shape is not n_residues x n_residues", case_of(systems[k["sys"]], k["call"]),
                         observed=k["shape"], expected=[k["n"]] * 2, tags={"fn": "kabsch_sander", "kind": "shape"})
    decide_ks(ctx, systems, ks_jobs_meta)


def digest_sys(s):
    return common.digest({k: s[k] for k in ("residues", "bonds", "frames")})


def case_of(s, call_index):
    if s.get("origin") is not None:
        o = s["origin"]
        return {"kind": "history", "residues": o["residues"], "bonds": o["bonds"], "frames": o["frames"], "oob": o["oob"],
                "history": o["history"], "failing_step": s["step"], "wrap": o.get("wrap", "none"), "stream": "history",
                "n_atoms": o["n_atoms"]}
    return {"kind": "system", "residues": s["residues"], "bonds": s["bonds"], "frames": s["frames"], "oob": s["oob"],
            "wrap": s.get("wrap", "none"),
            "parent": {str(k): v for k, v in s.get("parent", {}).items()}, "stream": s.get("stream", "replay"),
            "calls": [s["calls"][call_index]]}


def decide_ks(ctx, systems, meta):
    """two-variant rule for the hydrogen placement: mdtraj must agree with ONE variant on all frames of the run"""
    if not meta:
        return
    fails = {"h_cur": [], "h_fix": []}
    frames = {}
    for k, r in meta:
        for hv in (("h_cur", "h_fix") if k["variant"] == "both" else (k["variant"],)):
            frames.setdefault((k["sys"], k["call"], k["frame"]), {})[hv] = k["bad"]
            if k["bad"]:
                fails[hv].append(k)
    n_diff = 0
    for (si, ci, fi), v in frames.items():
        s = systems[si]
        differ = needs_prev_incomplete(s)
        n_diff += differ
        ctx.count({"sys": digest_sys(s), "ks_frame": fi}, nontrivial=bool(meta) and True,
                  bucket="kabsch_sander/%s%s" % (s["stream"], "/prev-incomplete" if differ else ""))
    agree = None
    for hv in ("h_fix", "h_cur"):
        if not fails[hv]:
            agree = hv
            break
    ce = ctx.notes.setdefault("coverage_extra", {})
    ce["ks_variant_matching_impl"] = agree
    ce["ks_frames_where_variants_can_differ"] = ce.get("ks_frames_where_variants_can_differ", 0) + n_diff
    if agree is None:
        # genuine disagreement with both variants
        both = [k for k in fails["h_cur"] if frames[(k["sys"], k["call"], k["frame"])].get("h_fix")]
        pick = (both or fails["h_cur"])[0]
        s = systems[pick["sys"]]
        ctx.fail("md.kabsch_sander: reported backbone H-bonds / energies deviate from the Kabsch-Sander model (both hydrogen variants)",
                 case_of(s, pick["call"]), observed={"frame": pick["frame"]}, expected="coq: MD.Hbond.Run.check_ks",
                 tags={"fn": "kabsch_sander", "explained_by": None})
        return
    if agree == "h_cur":
        # the as-found variant explains mdtraj and the repaired one does not: the known defect is present.
        k = fails["h_fix"][0] if fails["h_fix"] else None
        if k is not None:
            s = systems[k["sys"]]
            ctx.fail("md.kabsch_sander: amide hydrogen of a residue whose predecessor lacks C or O is placed from "
                     "out-of-range memory (explained by h_cur)", case_of(s, k["call"]), observed={"frame": k["frame"]},
                     expected="H = N for such a residue (variant h_fix)", tags={"fn": "kabsch_sander", "explained_by": "h_cur"})


# ------------------------------------------------------------------------------------------------ store_energies
def run_store(ctx):
    vals = [-4, -3, -2, -1] if ctx.tier == "quick" else [-5, -4, -3, -2, -1]
    maxlen = 3 if ctx.tier == "quick" else 4
    seqs = []
    for init in ("nan", "zero"):
        for L in range(0, maxlen + 1):
            for es in itertools.product(vals, repeat=L):
                seqs.append({"init": init, "calls": [[10 + k, float(e)] for k, e in enumerate(es)]})
    res = ctx.run_impl("hbond_impl.py", {"repo": common.REPO, "tmp": ctx.tmp, "shim": SHIM, "systems": [], "store": seqs})["store"]
    o = lambda a: "None" if a < 0 else "(Some %s)" % cnat(a)
    oe = lambda e: "None" if e is None else "(Some %s)" % cz(int(e))
    cases = []
    for s, (r, untouched) in zip(seqs, res):
        inp = "(%s, %s)" % (cbool(s["init"] == "nan"), clist(["(%s, %s)" % (cnat(a), cz(int(e))) for a, e in s["calls"]]))
        exp = "((%s, %s), (%s, %s))" % (o(r[0]), oe(r[1]), o(r[2]), oe(r[3]))
        cases.append((inp, exp))
        if not untouched:
            ctx.fail("store_energies wrote outside the donor's two slots", {"kind": "store", "seq": s}, observed=r,
                     expected="only slots 2*donor, 2*donor+1 change", tags={"fn": "store_energies", "kind": "oob-write"})
    bad, errs = ctx.coq_mismatches(["MD.Hbond.Model", "MD.Hbond.KsModel", "MD.Hbond.Run"],
                                   ("bool * list (nat * Z)", "slots"), "slots_eqb",
                                   "(fun c => run_store (fst c) (snd c))", cases, prelude="Local Open Scope Z_scope.")
    if errs:
        ctx.break_("correspondence:coqc-evaluation", "\n".join(errs))
        return
    for j, s in enumerate(seqs):
        ctx.count({"store": s}, nontrivial=len(s["calls"]) >= 2, bucket="store_energies/%s" % s["init"])
        if j in bad:
            ctx.fail("store_energies: slots do not hold the two lowest energies in order", {"kind": "store", "seq": s},
                     observed=res[j][0], expected="coq: MD.Hbond.Run.run_store", tags={"fn": "store_energies"})
    ctx.notes.setdefault("coverage_extra", {})["store_sequences_exhaustive"] = {
        "values": vals, "max_length": maxlen, "inits": ["nan", "zero"]}


def correspond(ctx):
    quick = ctx.tier == "quick"
    # the executable model must be built even when a theorem file failed (make stops launching jobs after a failure)
    ok, log = ctx.make(["Gen/HbondTables.vo", "Gen/HbondFormulas.vo", "Hbond/Run.vo", "Hbond/KsWrap.vo"])
    if not ok:
        ctx.break_("build:Hbond/Run.vo", log)
    run_store(ctx)
    systems = build_systems(ctx, 45 if quick else 900)
    ctx.log("systems:", len(systems))
    run_systems(ctx, systems)


def search(ctx, broken):
    # After a break the oracle is the model with the DOCUMENTED constants (doc_consts): a changed constant in the
    # source, which the regenerated model follows, then shows up as a failing input.
    run_systems(ctx, build_systems(ctx, 40), spec=True)


def replay(ctx, rec):
    c = rec["case"]
    if c.get("kind") == "store":
        ctx.tier = "quick"
        run_store(ctx)
        return
    s = dict(c)
    if c.get("kind") == "history":
        s["calls"] = []
        s["parent"] = {}
        run_systems(ctx, [s])
        return
    s["parent"] = {int(k): v for k, v in c.get("parent", {}).items()}
    s["n_atoms"] = sum(len(r["atoms"]) for r in s["residues"])
    run_systems(ctx, [s])
