"""C10 -- neighbour searches return exactly the atoms within the cutoff.

Model    coq/Neigh/Model.v  (neighbors.cpp brute force; neighborlist.cpp voxel list, as found and repaired)
Theorems coq/Props/C10.v
Tie      every generated frame goes through md.compute_neighbors / md.compute_neighborlist (public API,
         float32 cell exactly as Trajectory.unitcell_vectors hands it to the kernels) and the answer is
         compared inside coqc with the model evaluated on the same integers (coq/Neigh/Run.v).  The only
         slack is the property's exclusion band (pairs within 1e-5 nm of the cutoff).  The voxel list is
         accepted if it agrees with the as-found model on all cases (known defect: atoms outside the
         primary cell lose neighbours) or with the repaired model on all cases.
Oracle   exact-geometry brute force over lattice images (float64 on dyadic inputs, error << 1e-5) and
         md.compute_distances(periodic=...) on the same frame; structural checks (order, symmetry, ...).
"""
import math

import numpy as np

from common import cz, clist, cnat, copt, digest

LEVEL = "proof"
THEOREMS = "Props/C10.v"
EXTRA_TARGETS = ("Neigh/Run.vo", "Neigh/ApiRun.vo")
EXTS = ["neighbors", "neighborlist", "_geometry"]
RULE = ("frames on a 2^-10 nm grid: 1..3000 atoms x {uniform in the cell, clustered, on voxel boundaries, "
        "outside the primary cell (images -2..2), fractional coordinates} x cutoff {tiny, medium, half the "
        "shortest width, above it (tie only)} x cell {none, cubic, orthorhombic, triclinic, periodic=False}; "
        "compute_neighbors additionally x query/haystack subsets (overlapping, default haystack, invalid index); "
        "whole wrapper calls: 1-4 frames with per-frame cells x periodic given/omitted/False x empty/repeated/negative/out-of-range "
        "query x haystack omitted/None/empty/repeated/invalid x list/tuple/int32/int64 indices x compute_neighborlist frame "
        "omitted/negative/out of range; "
        "a case is non-trivial when at least one pair is within the cutoff; distinct by hash of the whole case")
TRUSTED = ["harness/impl/neigh_impl.py (builds the Trajectory, reports the float32 cell as exact integers)",
           "generator and float64 brute-force oracle in harness/props/C10.py; model-vs-implementation comparison "
           "is evaluated by vm_compute inside coqc (coq/Neigh/Run.v)"]
ASSUMPTIONS = ["float32 arithmetic inside the kernels is not modelled: the model is the kernels' logic in exact "
               "arithmetic on the same dyadic inputs; pairs within 1e-5 nm of the cutoff are excluded",
               "unit cell is lower-triangular (the only form Trajectory.unitcell_vectors produces)",
               "oracle comparisons are made for cutoff <= half the shortest cell width (the property's range); "
               "larger cutoffs are used for the model/implementation tie only"]

G = 1024
EPS = 1e-5
KNOWN_VARIANT = "nlist_cur"


# ----------------------------------------------------------------------------- generators
def approx_box(cell):
    """float64 lower-triangular cell from lengths (grid units) and angles, as mdtraj builds it."""
    a, b, c = [v / G for v in cell["lengths"]]
    al, be, ga = [math.radians(x) for x in cell["angles"]]
    ax = a
    bx, by = b * math.cos(ga), b * math.sin(ga)
    cx = c * math.cos(be)
    cy = c * (math.cos(al) - math.cos(be) * math.cos(ga)) / math.sin(ga)
    cz_ = math.sqrt(max(c * c - cx * cx - cy * cy, 1e-12))
    return np.array([[ax, 0, 0], [bx, by, 0], [cx, cy, cz_]])


def gen_cell(rng, kind, pattern=None):
    if kind == "none":
        return None
    if kind == "cubic":
        L = rng.randint(int(1.5 * G), 5 * G)
        if rng.random() < 0.4:
            L = rng.choice([2, 3, 4]) * G
        return {"lengths": [L, L, L], "angles": [90.0, 90.0, 90.0]}
    if kind == "ortho":
        return {"lengths": [rng.randint(int(1.5 * G), 5 * G) for _ in range(3)], "angles": [90.0, 90.0, 90.0]}
    # non-orthorhombic cells: every pattern of exactly-zero off-diagonal entries (b_x, c_x, c_y) of the
    # lower-triangular cell matrix must occur (the kernels decide "triclinic?" from individual entries):
    #   b_x = b*cos(gamma), c_x = c*cos(beta), c_y = c*(cos(alpha) - cos(beta)*cos(gamma))/sin(gamma)
    while True:
        L = [rng.randint(2 * G, 5 * G) for _ in range(3)]
        ang = lambda: round(rng.choice([rng.uniform(62, 88), rng.uniform(92, 118)]), 3)   # noqa: E731
        pat = pattern or rng.choice(PATTERNS + ["general"])
        if pat == "bx":            # monoclinic, unique axis c
            A = [90.0, 90.0, ang()]
        elif pat == "cx":          # monoclinic, unique axis b
            A = [90.0, ang(), 90.0]
        elif pat == "cy":          # monoclinic, unique axis a: only c_y is non-zero
            A = [ang(), 90.0, 90.0]
        elif pat == "bx_cx":       # c_y = 0 although neither beta nor gamma is 90: cos(alpha) = cos(beta)cos(gamma)
            be, ga = ang(), ang()
            A = [math.degrees(math.acos(math.cos(math.radians(be)) * math.cos(math.radians(ga)))), be, ga]
        elif pat == "bx_cy":
            A = [ang(), 90.0, ang()]
        elif pat == "cx_cy":
            A = [ang(), ang(), 90.0]
        elif pat == "hexagonal":
            L[1] = L[0]
            A = [90.0, 90.0, rng.choice([120.0, 60.0])]
        elif pat == "rhombic-dodecahedron":      # xy-square setting: a=(d,0,0) b=(0,d,0) c=(d/2,d/2,d/sqrt2)
            L[1] = L[2] = L[0]
            A = [60.0, 60.0, 90.0]
        else:
            A = [ang(), ang(), ang()]
            if rng.random() < 0.25:
                A[rng.randrange(3)] = 90.0
        cell = {"lengths": L, "angles": A, "pattern": pat}
        al, be, ga = [math.radians(x) for x in A]
        vol2 = 1 - math.cos(al) ** 2 - math.cos(be) ** 2 - math.cos(ga) ** 2 + 2 * math.cos(al) * math.cos(be) * math.cos(ga)
        if vol2 > 0.2:
            return cell


PATTERNS = ["bx", "cx", "cy", "bx_cx", "bx_cy", "cx_cy", "general", "hexagonal", "rhombic-dodecahedron"]


def widths(B):
    a, b, c = B
    V = abs(np.dot(a, np.cross(b, c)))
    return [V / np.linalg.norm(np.cross(b, c)), V / np.linalg.norm(np.cross(c, a)), V / np.linalg.norm(np.cross(a, b))]


def gen_positions(rng, n, cell, dist, c):
    if cell is not None:
        B = approx_box(cell)
        diag = np.array([B[0, 0], B[1, 1], B[2, 2]])
    else:
        B = None
        diag = np.array([rng.uniform(1.0, 4.0) for _ in range(3)])
    cn = c / G
    P = []
    if dist == "uniform":
        P = [[rng.random() * diag[k] for k in range(3)] for _ in range(n)]
    elif dist == "clustered":
        ncl = max(1, n // 12)
        cen = [[rng.random() * diag[k] for k in range(3)] for _ in range(ncl)]
        for _ in range(n):
            ce = rng.choice(cen)
            P.append([min(max(rng.gauss(ce[k], 0.6 * cn), 0.0), diag[k] * 0.9999) for k in range(3)])
    elif dist == "boundary":
        # multiples of the voxel size / of the cutoff / of quarter cells
        for _ in range(n):
            p = []
            for k in range(3):
                L = diag[k]
                kk = max(1, int(L / cn))
                nv = max(1, (10 * kk + 3) // 6)
                step = rng.choice([L / nv, cn, L / 4.0])
                m = rng.randint(0, max(0, int(L / step) - 1)) if step > 0 else 0
                v = m * step + (rng.choice([0, 0, 1, -1]) / G)
                p.append(min(max(v, 0.0), L * 0.9999))
            P.append(p)
    elif dist == "outside":
        P = [[rng.uniform(-2.0, 3.0) * diag[k] for k in range(3)] for _ in range(n)]
        # keep a few inside so that mixed pairs exist
        for i in range(0, n, 3):
            P[i] = [rng.random() * diag[k] for k in range(3)]
    elif dist == "faces":     # pairs whose minimum image crosses one face of the cell (each face in turn), all in the cell
        Br = B.copy() if B is not None else np.diag(diag)
        for i in range(0, n, 2):
            face = (i // 2) % 3
            p = np.array([rng.uniform(0.05, 0.95) * diag[k] for k in range(3)])
            p[face] = rng.uniform(0.0, 0.45) * cn                      # just inside the lower face
            d = np.array([rng.gauss(0, 1) for _ in range(3)])
            d *= rng.uniform(0.3, 0.95) * cn / np.linalg.norm(d)
            d[face] = -abs(d[face]) - 0.5 * p[face]                    # the partner is beyond that face ...
            q = p + d
            for r in (2, 1, 0):                                        # ... i.e. near the opposite face once wrapped
                q = q - math.floor(q[r] / Br[r, r]) * Br[r]
                p = p - math.floor(p[r] / Br[r, r]) * Br[r]
            P.append(list(p))
            if len(P) < n:
                P.append(list(q))
    elif dist == "degenerate":   # zero extent along one, two or three axes (planes, lines, a repeated point, 2-D lattices)
        shape = rng.choice(["plane-xy", "plane-xz", "plane-yz", "line-x", "line-y", "line-z", "point", "lattice-xy", "lattice-xz", "lattice-yz"])
        fixed = {"plane-xy": [2], "plane-xz": [1], "plane-yz": [0], "line-x": [1, 2], "line-y": [0, 2], "line-z": [0, 1],
                 "point": [0, 1, 2], "lattice-xy": [2], "lattice-xz": [1], "lattice-yz": [0]}[shape]
        base = [rng.random() * diag[k] for k in range(3)]
        step = rng.choice([0.5, 0.8, 1.0, 1.3]) * cn
        for i in range(n):
            if shape.startswith("lattice"):
                p = [base[k] + step * rng.randint(0, 5) for k in range(3)]
            else:
                p = [rng.random() * diag[k] for k in range(3)]
            for k in fixed:
                p[k] = base[k]
            P.append(p)
    elif dist == "frac":      # fractional coordinates of the cell vectors (typical MD data)
        for _ in range(n):
            f = [rng.random() for _ in range(3)]
            P.append(list(f[0] * B[0] + f[1] * B[1] + f[2] * B[2]))
    elif dist == "shifted":   # whole configuration translated by a lattice vector
        sh = [rng.randint(-2, 2) for _ in range(3)]
        for _ in range(n):
            f = [rng.random() for _ in range(3)]
            if B is None:
                P.append([f[k] * diag[k] + sh[k] * diag[k] for k in range(3)])
            else:
                P.append([f[k] * diag[k] + sh[0] * B[0][k] + sh[1] * B[1][k] + sh[2] * B[2][k] for k in range(3)])
    return [[int(math.floor(v * G)) for v in p] for p in P]


def gen_cutoff(rng, cell, mode):
    if cell is None:
        lo, hi = 0.05, 2.0
        if mode == "tiny":
            return max(1, int(rng.uniform(0.03, 0.12) * G))
        if mode == "low":
            return max(1, int(rng.uniform(0.15, 0.4) * G))
        return max(1, int(rng.uniform(lo, hi) * G))
    B = approx_box(cell)
    w = min(widths(B))
    half = w / 2.0
    if mode == "tiny":
        return max(8, int(rng.uniform(0.02, 0.08) * w * G))
    if mode == "half":
        return max(8, int(half * G) - rng.choice([0, 1, 2]))
    if mode == "above":
        return int(rng.uniform(0.52, 0.95) * min(B[0, 0], B[1, 1], B[2, 2]) * G)
    if mode == "low":
        return max(8, int(rng.uniform(0.06, 0.16) * w * G))
    return max(8, int(rng.uniform(0.1, 0.5) * w * G))


def gen_case(rng, api, n, kind, dist, cmode, periodic=True, pattern=None, cell="gen"):
    if cell == "gen":
        cell = gen_cell(rng, kind, pattern)
    if cell is None and dist in ("frac", "faces"):
        dist = "uniform"
    c = gen_cutoff(rng, cell, cmode)
    xyz = gen_positions(rng, n, cell, dist, c)
    case = {"api": api, "xyz": xyz, "cell": cell, "c": c, "periodic": periodic,
            "kind": (kind + ("/" + cell["pattern"] if cell and cell.get("pattern") else "")) if periodic else kind + "/nonperiodic",
            "dist": dist, "cmode": cmode}
    if api == "nb":
        r = rng.random()
        nq = rng.randint(1, max(1, min(n, 12)))
        q = rng.sample(range(n), nq)
        if r < 0.3:
            hay = None
        elif r < 0.8:
            hay = rng.sample(range(n), rng.randint(1, n))
        else:
            hay = sorted(rng.sample(range(n), rng.randint(1, n)))
        if rng.random() < 0.15 and len(q) > 1:
            q.append(q[0])                      # a repeated query atom
        if rng.random() < 0.06:
            (q if rng.random() < 0.5 else (hay if hay is not None else q)).append(n + rng.randint(0, 2))   # invalid
        if rng.random() < 0.03:
            q.append(-1)
        case["query"], case["hay"] = q, hay
    return case


def gen_coincident_case(rng, api, kind, pattern=None):
    """distinct atoms at minimum-image distance exactly 0: same coordinates (a virtual site on its host) and exact
    lattice translates (along every cell vector that lies on the coordinate grid); for compute_neighbors the pair is split
    over query and haystack in every way (disjoint, overlapping, both in both)"""
    n = rng.choice([2, 3, 5, 8, 13])
    case = gen_case(rng, api, n, kind, rng.choice(["uniform", "outside", "faces"]), rng.choice(["tiny", "mid", "half"]), True, pattern=pattern)
    xyz = case["xyz"]
    cell = case["cell"]
    vecs = []
    if cell is not None:
        L, A = cell["lengths"], cell["angles"]
        vecs.append([L[0], 0, 0])                                  # a is always on the grid
        if A[2] == 90.0:
            vecs.append([0, L[1], 0])
        if A[0] == 90.0 and A[1] == 90.0:
            vecs.append([0, 0, L[2]])
    pairs = []
    for _ in range(rng.choice([1, 1, 2, 3])):
        i, j = rng.sample(range(n), 2) if n >= 2 else (0, 0)
        sh = [0, 0, 0]
        if vecs and rng.random() < 0.6:
            v = rng.choice(vecs)
            k = rng.choice([-2, -1, 1, 2])
            sh = [k * x for x in v]
        xyz[j] = [xyz[i][d] + sh[d] for d in range(3)]
        pairs.append((i, j))
    case["dist"] = "coincident"
    if api == "nb":
        i, j = pairs[0]
        rest = [k for k in range(n) if k not in (i, j)]
        mode = rng.choice(["disjoint", "disjoint", "overlap", "both", "default"])
        extra_q = rng.sample(rest, rng.randint(0, min(2, len(rest))))
        if mode == "disjoint":
            q, hay = [i] + extra_q, [j] + [k for k in rest if k not in extra_q]
        elif mode == "overlap":
            q, hay = [i, j] + extra_q, [j] + rest
        elif mode == "both":
            q, hay = [j, i], [i, j] + rest
        else:
            q, hay = [i] + extra_q, None
        if hay is not None:
            rng.shuffle(hay)
        case["query"], case["hay"] = q, hay
    return case


def gen_api_case(rng):
    """one WHOLE call of a wrapper (neighbors.pyx / neighborlist.pyx) on a small multi-frame trajectory: all frames of
    compute_neighbors (per-frame cells, default / omitted / empty / repeated haystack, empty / repeated / negative /
    out-of-range query indices, periodic flag given or omitted, trajectory with or without cells), compute_neighborlist
    with its frame argument (omitted, negative, out of range); indices passed as list / tuple / int32 / int64 arrays"""
    api = rng.choice(["nb", "nb", "nl"])
    T = rng.randint(1, 4)
    n = rng.choice([2, 3, 5, 8, 13])
    ck = rng.choice(["none", "ortho", "tric", "mixed", "mixed"])
    if ck == "none":
        cells = None
    else:
        cells = [gen_cell(rng, ck if ck != "mixed" else rng.choice(["cubic", "ortho", "tric"])) for _ in range(T)]
    if cells is None:
        c = rng.randint(200, 1400)
    else:
        c = min(gen_cutoff(rng, cl, "mid") for cl in cells)
    frames = [gen_positions(rng, n, cells[f] if cells else None, rng.choice(["uniform", "outside", "faces", "clustered"]) if cells else
                            rng.choice(["uniform", "clustered"]), c) for f in range(T)]
    case = {"apicall": True, "api": api, "frames": frames, "cells": cells, "c": c, "periodic": rng.random() > 0.25,
            "idx_type": rng.choice(["int64", "int32", "list", "tuple"]), "kind": "apicall/" + ck}
    if api == "nb":
        q = rng.sample(range(n), rng.randint(1, min(n, 4)))
        r = rng.random()
        if r < 0.12:
            q = []
        elif r < 0.27:
            q = q + [q[0]]
        elif r < 0.42:
            q = q + [rng.choice([-1, -n, n, n + 2])]
        rng.shuffle(q)
        r = rng.random()
        hay, omitted = None, False
        if r < 0.15:
            omitted = True
        elif r < 0.3:
            hay = None
        elif r < 0.4:
            hay = []
        elif r < 0.55:
            hay = [rng.randrange(n) for _ in range(rng.randint(2, n + 3))]          # with repetitions
        elif r < 0.65:
            hay = rng.sample(range(n), rng.randint(1, n)) + [rng.choice([-1, n, n + 1])]
        else:
            hay = rng.sample(range(n), rng.randint(1, n))
        case.update(query=q, hay=hay, hay_omitted=omitted, periodic_omitted=case["periodic"] and rng.random() < 0.3)
    else:
        fr = rng.choice([0, T - 1, -1, -T, -T - 1, T, T + 3, rng.randrange(-T, T)])
        omitted = rng.random() < 0.15
        case.update(frame=0 if omitted else fr, frame_omitted=omitted)
    return case


def gen_zface_sweep_case(rng, api="nl"):
    """STRUCTURED: a triclinic cell whose reduced c vector has a y component, with at least 7 y voxels and 5 z voxels
    (b_y/cutoff >= 4, c_z/cutoff >= 3: neither the every-y-voxel fallback nor the window cap applies), filled with pairs that
    are neighbours ONLY through a z face of the cell: one atom just inside the face, its partner just beyond it (wrapped back
    by the c vector, so its voxel sits in the y window of the image cell, shifted by c_y), the y separation swept from
    -0.94 to +0.94 of the cutoff and the pair placed at a random y (every alignment with the y-voxel boundaries), both
    index orders, both faces."""
    while True:
        cell = gen_cell(rng, "tric", pattern=rng.choice(["cy", "cy", "bx_cy", "cx_cy", "general"]))
        Br = reduce_box_f(approx_box(cell))
        if abs(Br[2, 1]) < 0.05 * Br[1, 1]:
            continue
        w = min(widths(Br))
        cn = min(Br[1, 1] / rng.uniform(4.05, 6.5), Br[2, 2] / rng.uniform(3.05, 5.5), 0.49 * w)
        if Br[1, 1] / cn >= 4.02 and Br[2, 2] / cn >= 3.02 and cn > 0.3:
            break
    c = int(cn * G)
    cn = c / G
    K = rng.choice([16, 24, 32])
    P = []
    for k in range(K):
        dy = (-0.94 + 1.88 * (k + rng.random()) / K) * cn
        upper = rng.random() < 0.5
        zi = rng.uniform(0.0, 0.1) * cn
        dz = -(zi + rng.uniform(0.005, 0.1) * cn)
        rem = (0.96 * cn) ** 2 - dy * dy - dz * dz
        dx = rng.choice([-1, 1]) * rng.uniform(0, math.sqrt(max(rem, 0.0)))
        p = np.array([rng.random() * Br[0, 0], rng.random() * Br[1, 1], zi])
        d = np.array([dx, dy, dz])
        if upper:                       # mirror: the pair straddles the upper z face
            p[2] = Br[2, 2] - zi - 1e-4
            d[2] = -dz
        q = p + d
        for r in (2, 1, 0):
            q = q - math.floor(q[r] / Br[r, r]) * Br[r]
            p = p - math.floor(p[r] / Br[r, r]) * Br[r]
        pair = [list(p), list(q)]
        if rng.random() < 0.5:
            pair.reverse()
        P += pair
    xyz = [[int(math.floor(v * G)) for v in p] for p in P]
    case = {"api": api, "xyz": xyz, "cell": cell, "c": c, "periodic": True, "kind": "tric/" + cell["pattern"], "dist": "zface-sweep",
            "cmode": "quarter"}
    if api == "nb":
        n = len(xyz)
        q = rng.sample(range(n), rng.randint(1, min(n, 12)))
        case["query"], case["hay"] = q, None
    return case


def gen_seq_case(rng, api):
    """history across calls: one multi-frame trajectory whose cell changes from frame to frame ("traj"), or consecutive
    calls in one process ("calls"); consecutive cells share a_x and differ in ONE other respect (b, c, an angle,
    triclinic <-> orthorhombic with the same lengths, 3x3x3 -> 3x4x5)"""
    mode = rng.choice(["traj", "calls"])
    T = rng.randint(2, 4)
    ax = rng.randint(2 * G, 4 * G)
    cell = rng.choice([{"lengths": [ax, ax, ax], "angles": [90.0, 90.0, 90.0]},
                       {"lengths": [ax, rng.randint(2 * G, 5 * G), rng.randint(2 * G, 5 * G)], "angles": [90.0, 90.0, 90.0]},
                       {"lengths": [ax, rng.randint(2 * G, 5 * G), rng.randint(2 * G, 5 * G)],
                        "angles": [round(rng.uniform(70, 110), 3), round(rng.uniform(70, 110), 3), round(rng.uniform(70, 110), 3)]}])
    cells = [cell]
    for _ in range(T - 1):
        c2 = {"lengths": list(cells[-1]["lengths"]), "angles": list(cells[-1]["angles"])}
        what = rng.choice(["b", "c", "bc", "alpha", "beta", "gamma", "ortho", "tric"])
        if what in ("b", "bc"):
            c2["lengths"][1] = rng.randint(2 * G, 5 * G)
        if what in ("c", "bc"):
            c2["lengths"][2] = rng.randint(2 * G, 5 * G)
        if what in ("alpha", "beta", "gamma"):
            c2["angles"][{"alpha": 0, "beta": 1, "gamma": 2}[what]] = rng.choice([90.0, round(rng.uniform(70, 110), 3)])
        if what == "ortho":
            c2["angles"] = [90.0, 90.0, 90.0]
        if what == "tric":
            c2["angles"] = [round(rng.uniform(70, 110), 3) for _ in range(3)]
        cells.append(c2)
    wmin = min(min(widths(approx_box(c))) for c in cells)
    cut = max(8, int(rng.uniform(0.15, 0.5) * wmin * G))
    n = rng.choice([4, 8, 13, 21])
    subs = []
    for c in cells:
        kind = "ortho" if c["angles"] == [90.0, 90.0, 90.0] else "tric"
        sub = gen_case(rng, api, n, kind, rng.choice(["uniform", "faces", "outside", "shifted"]), "mid", True, cell=c)
        sub["c"] = cut
        sub["kind"] = kind + "/seq-" + mode
        subs.append(sub)
    if api == "nb":
        if mode == "traj":              # one call: one query / haystack for all frames
            for sub in subs[1:]:
                sub["query"], sub["hay"] = subs[0]["query"], subs[0]["hay"]
    return {"api": api, "seq": subs, "mode": mode}


def build_cases(ctx, scale=1.0):
    rng = ctx.rng
    quick = ctx.tier == "quick"
    cases = []
    kinds = ["none", "cubic", "ortho", "tric", "tric", "tric"]
    dists_nl = ["uniform", "clustered", "boundary", "outside", "frac", "shifted", "faces", "faces"]
    cmodes = ["tiny", "mid", "mid", "half", "half", "above"]
    n_small = int((200 if quick else 2500) * scale)
    for _ in range(n_small):
        kind = rng.choice(kinds)
        dist = rng.choice(dists_nl)
        cm = rng.choice(cmodes)
        if kind == "tric" and cm == "above":
            cm = "half"
        n = rng.choice([1, 2, 2, 3, 5, 8, 13, 21, 34, 55])
        per = rng.random() > 0.08
        cases.append(gen_case(rng, "nl", n, kind, dist, cm, per))
    for _ in range(n_small):
        kind = rng.choice(kinds)
        dist = rng.choice(dists_nl)
        cm = rng.choice(cmodes)
        n = rng.choice([1, 2, 3, 5, 8, 13, 21, 34, 55])
        per = rng.random() > 0.08
        cases.append(gen_case(rng, "nb", n, kind, dist, cm, per))
    # every zero pattern of the off-diagonal cell entries, both searches, pairs crossing every face -- in every run
    for pat in PATTERNS:
        for api in ("nl", "nb"):
            for k in range(int((2 if quick else 12) * scale) or 1):
                cases.append(gen_case(rng, api, rng.choice([8, 12, 20, 30]), "tric", "faces" if k % 2 == 0 else rng.choice(["outside", "shifted", "uniform"]),
                                      rng.choice(["mid", "half"]), True, pattern=pat))
    # distinct atoms at distance exactly 0 (coincident / exact lattice translates) -- in every run
    for kind in ("none", "cubic", "ortho", "tric"):
        for api in ("nb", "nb", "nl"):
            for _ in range(int((3 if quick else 25) * scale) or 1):
                cases.append(gen_coincident_case(rng, api, kind))
    # degenerate extents without a cell (planes, lines, repeated point, 2-D lattices, two atoms) -- in every run
    for api in ("nl", "nl", "nb"):
        for k in range(int((6 if quick else 40) * scale) or 1):
            per = k % 3 != 2
            cs = gen_case(rng, api, rng.choice([2, 2, 3, 5, 9, 16, 30]), "none" if per else rng.choice(["ortho", "tric"]), "degenerate",
                          rng.choice(["low", "mid"]), per)
            cases.append(cs)
    # history across calls: per-frame cells in one trajectory / consecutive calls, cells sharing a_x -- in every run
    for api in ("nb", "nb", "nl"):
        for _ in range(int((5 if quick else 40) * scale) or 1):
            cases.append(gen_seq_case(rng, api))
    # pairs that are neighbours only through a z face of a skewed cell, y separation swept over the y-voxel boundaries -- in every run
    for k in range(int((8 if quick else 80) * scale) or 1):
        cases.append(gen_zface_sweep_case(rng, "nl" if k % 4 else "nb"))
    # whole calls of the wrappers (all frames, default arguments, invalid indices, frame selection) -- in every run
    for _ in range(int((70 if quick else 700) * scale) or 1):
        cases.append(gen_api_case(rng))
    # medium and large frames
    med = [(200, 5), (600, 1)] if quick else [(200, 40), (600, 12), (1500, 4)]
    for n, cnt in med:
        for _ in range(int(cnt * scale) or 1):
            kind = rng.choice(["none", "cubic", "ortho", "tric"])
            dist = rng.choice(["uniform", "clustered", "outside", "boundary"])
            cm = rng.choice(["tiny", "low"])
            cases.append(gen_case(rng, "nl", n, kind, dist, cm))
            cases.append(gen_case(rng, "nb", n, kind, dist, rng.choice(["low", "mid", "half"])))
    big = [("ortho", "uniform"), ("none", "clustered")] if quick else \
          [("ortho", "uniform"), ("none", "clustered"), ("cubic", "outside"), ("tric", "uniform"), ("ortho", "boundary")]
    if scale >= 1.0:
        for kind, dist in big:
            cs = gen_case(rng, "nl", (1500 if kind == "none" else 2500) if quick else 3000, kind, dist, "low")
            if cs["cell"] is None:
                cs["c"] = int(0.25 * G)
            else:
                cs["c"] = min(cs["c"], int(0.3 * G))
            cases.append(cs)
    return cases


# ----------------------------------------------------------------------------- oracle (exact geometry)
def reduce_box_f(B):
    B = B.copy()

    def rnd(x):
        return math.floor(x + 0.5) if x >= 0 else -math.floor(-x + 0.5)
    B[2] -= B[1] * rnd(B[2, 1] / B[1, 1])
    B[2] -= B[0] * rnd(B[2, 0] / B[0, 0])
    B[1] -= B[0] * rnd(B[1, 0] / B[0, 0])
    return B


def mic_rows(P, Q, Br, nimg):
    """minimum-image distances between every row of P and every row of Q (float64; inputs are dyadic
    rationals with < 40 significant bits, so the error is far below the 1e-5 band)."""
    D = Q[None, :, :] - P[:, None, :]
    if Br is None:
        return np.sqrt((D * D).sum(-1))
    for r in (2, 1, 0):
        k = np.floor(D[..., r] / Br[r, r] + 0.5)
        D = D - k[..., None] * Br[r][None, None, :]
    if Br[1, 0] == 0 and Br[2, 0] == 0 and Br[2, 1] == 0:
        return np.sqrt((D * D).sum(-1))
    best = None
    rng_ = range(-nimg, nimg + 1)
    for k3 in rng_:
        for k2 in rng_:
            for k1 in rng_:
                E = D - (k1 * Br[0] + k2 * Br[1] + k3 * Br[2])[None, None, :]
                d2 = (E * E).sum(-1)
                best = d2 if best is None else np.minimum(best, d2)
    return np.sqrt(best)


def case_geometry(case, out):
    P = np.array(case["xyz"], dtype=np.float64).reshape(-1, 3) / G
    periodic = case.get("periodic", True) and out["box"] is not None
    if periodic:
        B = np.array(out["box"], dtype=np.float64) / float(1 << out["K"])
        Br = reduce_box_f(B)
        w = min(widths(Br))
        inside = bool(np.all((P >= 0) & (P < np.array([Br[0, 0], Br[1, 1], Br[2, 2]])[None, :])))
    else:
        Br, w, inside = None, float("inf"), True
    return P, Br, w, inside


def classify(d, c):
    """1 = within (below c - 1e-5), -1 = beyond (above c + 1e-5), 0 = exclusion band"""
    return np.where(d < c - EPS, 1, np.where(d > c + EPS, -1, 0))


def oracle_nl(case, out):
    """-> (failures [(kind, detail)], n_within, in_quantifier)"""
    res = out["res"]
    n = len(case["xyz"])
    fails = []
    if out["err"] is not None:
        return [("error", out["err"])], 0, True
    if len(res) != n:
        return [("shape", "len %d != n_atoms %d" % (len(res), n))], 0, True
    sets = []
    for i, a in enumerate(res):
        s = set(a)
        sets.append(s)
        if len(s) != len(a):
            fails.append(("duplicate", [i, a]))
        if i in s:
            fails.append(("reflexive", [i]))
        if any((j < 0 or j >= n) for j in a):
            fails.append(("range", [i, a]))
    for i, s in enumerate(sets):
        for j in s:
            if 0 <= j < n and i not in sets[j]:
                fails.append(("asymmetric", [i, j]))
                break
    P, Br, w, inside = case_geometry(case, out)
    c = case["c"] / G
    in_q = (Br is None) or (c <= w / 2.0 + 1e-9)
    n_within = 0
    if not in_q:
        return fails, 0, False
    nimg = 2 if n <= 400 else 1
    step = max(1, 200000 // max(n, 1) // (1 if Br is None else (2 * nimg + 1) ** 3 // 4 + 1))
    miss, spur = [], []
    for s0 in range(0, n, step):
        d = mic_rows(P[s0:s0 + step], P, Br, nimg)
        cl = classify(d, c)
        for ii in range(d.shape[0]):
            i = s0 + ii
            row = cl[ii]
            within = set(np.nonzero(row == 1)[0].tolist()) - {i}
            n_within += len(within)
            beyond = set(np.nonzero(row == -1)[0].tolist())
            m = within - sets[i]
            if m:
                miss.append([i, sorted(m)[0]])
            sp = sets[i] & beyond
            if sp:
                spur.append([i, sorted(sp)[0]])
    if miss:
        fails.append(("missing", miss[:5] + [len(miss)]))
    if spur:
        fails.append(("spurious", spur[:5] + [len(spur)]))
    return fails, n_within // 2, True


def oracle_nb(case, out):
    n = len(case["xyz"])
    q = case["query"]
    hay = case["hay"] if case["hay"] is not None else list(range(n))
    bad_idx = any((i < 0 or i >= n) for i in list(q) + list(hay))
    fails = []
    if bad_idx:
        if out["err"] != "ValueError":
            fails.append(("no-error-on-invalid-index", out["err"] or out["res"]))
        return fails, 0, True
    if out["err"] is not None:
        return [("error", out["err"])], 0, True
    res = out["res"]
    # order of the haystack, no duplicates beyond those of the haystack
    it = iter(hay)
    ok = all(any(h == r for h in it) for r in res)
    if not ok:
        fails.append(("order", res[:20]))
    if len(set(hay)) == len(hay) and len(set(res)) != len(res):
        fails.append(("duplicate", res[:20]))
    P, Br, w, inside = case_geometry(case, out)
    c = case["c"] / G
    in_q = (Br is None) or (c <= w / 2.0 + 1e-9)
    if not in_q:
        return fails, 0, False
    hs = sorted(set(hay))
    qs = sorted(set(q))
    d = mic_rows(P[hs], P[qs], Br, 2 if n <= 400 else 1)
    for a, i in enumerate(hs):
        for b, j in enumerate(qs):
            if i == j:
                d[a, b] = np.inf
    dmin = d.min(axis=1) if len(qs) else np.full(len(hs), np.inf)
    cl = classify(dmin, c)
    rs = set(res)
    miss = [i for a, i in enumerate(hs) if cl[a] == 1 and i not in rs]
    spur = [i for a, i in enumerate(hs) if cl[a] == -1 and i in rs]
    if miss:
        fails.append(("missing", miss[:5] + [len(miss)]))
    if spur:
        fails.append(("spurious", spur[:5] + [len(spur)]))
    return fails, int(np.count_nonzero(cl == 1)), True


# ----------------------------------------------------------------------------- Coq literals
def coq_vec(p, sh):
    return "(%s,%s,%s)" % (cz(p[0] << sh), cz(p[1] << sh), cz(p[2] << sh))


def coq_cell(case, out):
    if out["box"] is None or not case.get("periodic", True):
        return "None"
    b = out["box"]
    return "(Some (mkBox %s %s %s %s %s %s))" % tuple(cz(v) for v in (b[0][0], b[1][0], b[1][1], b[2][0], b[2][1], b[2][2]))


def lower_triangular(out):
    b = out["box"]
    return b is None or (b[0][1] == 0 and b[0][2] == 0 and b[1][2] == 0)


def coq_common(case, out):
    K = out["K"]
    sh = K - 10
    cu = case["c"] << sh
    lo = cu * 100000 - (1 << K)
    hi = cu * 100000 + (1 << K)
    xyz = clist([coq_vec(p, sh) for p in case["xyz"]])
    return coq_cell(case, out), cz(cu), cz(lo), cz(hi), cz(100000), xyz


def nat_or_bad(i, n):
    # negative indices cannot be written as nat; they are invalid anyway: any out-of-range nat does
    return cnat(i if 0 <= i < n + 50 else n + 50)


# ----------------------------------------------------------------------------- running cases
def summary(case):
    return {"api": case["api"], "n": len(case["xyz"]), "cell": case["cell"], "c": case["c"], "kind": case.get("kind"),
            "dist": case.get("dist"), "cmode": case.get("cmode"), "periodic": case.get("periodic", True),
            "query": case.get("query"), "hay": case.get("hay"), "xyz_digest": digest(case["xyz"])}


def run_impl_robust(ctx, script, cases, keys, chunk=400, crash_out=None):
    """run the implementation on all cases.  When the runner process dies or hangs (a crash / endless loop inside a
    C kernel) the cases of that batch are re-run one by one, smallest first, until the first one that kills the
    runner is found: it is reported as {"err": "Crash"}; the remaining cases of the batch are marked "NotRun"."""
    def payload(cs):
        return {"cases": [{k: c.get(k) for k in keys} for c in cs]}
    outs = [None] * len(cases)
    for s0 in range(0, len(cases), chunk):
        idx = list(range(s0, min(s0 + chunk, len(cases))))
        try:
            res = ctx.run_impl(script, payload([cases[i] for i in idx]), timeout=900)["out"]
            for i, o in zip(idx, res):
                outs[i] = o
            continue
        except Exception as e:  # noqa: BLE001
            ctx.log("implementation runner died on a batch (%s); isolating" % str(e)[-120:].replace("\n", " "))
        found = False
        for i in sorted(idx, key=lambda i: len(str(cases[i])))[:60]:
            if found:
                break
            try:
                outs[i] = ctx.run_impl(script, payload([cases[i]]), timeout=120)["out"][0]
            except Exception as e:  # noqa: BLE001
                outs[i] = dict(crash_out or {}, err="Crash", msg=str(e)[-300:])
                found = True
        for i in idx:
            if outs[i] is None:
                outs[i] = dict(crash_out or {}, err="NotRun")
    return outs


def coq_codes(ctx, coq, sizes):
    """evaluate nl_code on every case inside coqc (vm_compute), several coqc in parallel; returns
    ({case index: code}, errors).  Only a list of small integers is parsed."""
    import os
    import re
    import subprocess
    from common import COQ
    order = sorted(range(len(coq)), key=lambda k: -sizes[k])
    shards, cur, load = [], [], 0
    for k in order:
        cur.append(k)
        load += sizes[k] * max(sizes[k], 50)
        if load > 150000 or len(cur) >= 60:
            shards.append(cur)
            cur, load = [], 0
    if cur:
        shards.append(cur)
    procs = []
    for si, sh in enumerate(shards):
        lines = ["From Coq Require Import ZArith List Bool.", "Import ListNotations.",
                 "Require Import MD.Neigh.Model MD.Neigh.Run.", "Open Scope Z_scope.",
                 "Definition cases : list (nl_case * list (list Z)) := [",
                 ";\n".join("(%s, %s)" % coq[k] for k in sh), "].",
                 "Eval vm_compute in (7777, map (fun c => nl_code (fst c) (snd c)) cases)."]
        path = os.path.join(ctx.tmp, "nlcodes_%d.v" % si)
        with open(path, "w") as fh:
            fh.write("\n".join(lines) + "\n")
        procs.append((sh, path))
    codes, errors = {}, []
    running, todo = [], list(procs)
    while todo or running:
        while todo and len(running) < 6:
            sh, path = todo.pop(0)
            pr = subprocess.Popen(["timeout", "1500", "coqc", "-Q", COQ, "MD", path], cwd=ctx.tmp,
                                  stdout=subprocess.PIPE, stderr=subprocess.STDOUT, text=True)
            running.append((pr, sh))
        pr, sh = running.pop(0)
        out = pr.communicate()[0]
        if pr.returncode != 0:
            errors.append("coqc rc=%s: %s" % (pr.returncode, out[-1500:]))
            continue
        m = re.search(r"\(7777,\s*(\[[^\]]*\]|nil)\s*\)", out, re.S)
        if not m:
            errors.append("unparsed coqc output: " + out[-1500:])
            continue
        vals = [int(x) for x in re.findall(r"-?\d+", m.group(1))]
        if len(vals) != len(sh):
            errors.append("wrong number of codes")
            continue
        for k, v in zip(sh, vals):
            codes[k] = v
    return codes, errors


def eval_codes(ctx, requires, ty, fn, items, tag, shard=50):
    """Eval vm_compute of (fn item) for every item inside coqc; items are Coq terms of type ty, fn: ty -> Z.
    Returns ({index: code}, errors); only a list of small integers is parsed (with an element-count check)."""
    import os
    import re
    import subprocess
    from common import COQ
    shards = [list(range(i, min(i + shard, len(items)))) for i in range(0, len(items), shard)]
    procs = []
    for si, sh in enumerate(shards):
        lines = ["From Coq Require Import ZArith List Bool.", "Import ListNotations.",
                 "Require Import %s." % " ".join(requires), "Open Scope Z_scope.", "Set Printing Depth 100000.",
                 "Definition items : list (%s) := [" % ty, ";\n".join(items[k] for k in sh), "].",
                 "Eval vm_compute in (7777, map (%s) items)." % fn]
        path = os.path.join(ctx.tmp, "%s_%d.v" % (tag, si))
        with open(path, "w") as fh:
            fh.write("\n".join(lines) + "\n")
        procs.append((sh, path))
    codes, errors = {}, []
    running, todo = [], list(procs)
    while todo or running:
        while todo and len(running) < 4:
            sh, path = todo.pop(0)
            pr = subprocess.Popen(["timeout", "900", "coqc", "-Q", COQ, "MD", path], cwd=ctx.tmp,
                                  stdout=subprocess.PIPE, stderr=subprocess.STDOUT, text=True)
            running.append((pr, sh))
        pr, sh = running.pop(0)
        out = pr.communicate()[0]
        if pr.returncode != 0:
            errors.append("coqc rc=%s: %s" % (pr.returncode, out[-1500:]))
            continue
        m = re.search(r"\(7777,\s*(\[[^\]]*\]|nil)\s*\)", out, re.S)
        if not m:
            errors.append("unparsed coqc output: " + out[-1500:])
            continue
        vals = [int(x) for x in re.findall(r"-?\d+", m.group(1))]
        if len(vals) != len(sh):
            errors.append("wrong number of codes")
            continue
        for k, v in zip(sh, vals):
            codes[k] = v
    return codes, errors


def api_summary(c):
    return {"apicall": c["api"], "n": len(c["frames"][0]), "n_frames": len(c["frames"]), "cells": c["cells"], "c": c["c"],
            "periodic": c.get("periodic"), "periodic_omitted": c.get("periodic_omitted"), "query": c.get("query"), "hay": c.get("hay"),
            "hay_omitted": c.get("hay_omitted"), "frame": c.get("frame"), "frame_omitted": c.get("frame_omitted"),
            "idx_type": c.get("idx_type"), "xyz_digest": digest(c["frames"])}


def run_api_cases(ctx, cases):
    """whole calls of the wrappers against coq/Neigh/Api.v (exact, evaluated inside coqc) and against the oracle"""
    outs = run_impl_robust(ctx, "neigh_impl.py", cases, ("apicall", "api", "frames", "cells", "c", "periodic", "query", "hay", "hay_omitted",
                                                        "periodic_omitted", "frame", "frame_omitted", "idx_type"),
                           crash_out={"boxes": None, "K": 10, "res": None})
    keep = [i for i, o in enumerate(outs) if o.get("err") != "NotRun"]
    cases, outs = [cases[i] for i in keep], [outs[i] for i in keep]
    items = []
    for c, o in zip(cases, outs):
        K = o["K"]
        sh = K - 10
        n = len(c["frames"][0])
        T = len(c["frames"])
        if o.get("boxes") is not None and any(not (b[0][1] == 0 and b[0][2] == 0 and b[1][2] == 0) for b in o["boxes"]):
            ctx.break_("correspondence:cell-not-lower-triangular", "unitcell_vectors %s" % o["boxes"])
            return outs
        cells = "None" if o.get("boxes") is None else "(Some %s)" % clist(
            ["(mkBox %s %s %s %s %s %s)" % tuple(cz(v) for v in (b[0][0], b[1][0], b[1][1], b[2][0], b[2][1], b[2][2])) for b in o["boxes"]])
        traj = "(mkNT %s %s %s)" % (cnat(n), clist([clist([coq_vec(p, sh) for p in fr]) for fr in c["frames"]]), cells)
        cu = c["c"] << sh
        band = -(-(1 << K) // 100000)
        q = clist([cz(x) for x in (c.get("query") or [])])
        hay = "None" if (c.get("hay") is None or c.get("hay_omitted")) else "(Some %s)" % clist([cz(x) for x in c["hay"]])
        inp = "(mkApi %s %s %s %s %s %s %s %s %s %s %s)" % (
            "true" if c["api"] == "nb" else "false", traj, cz(cu * 100000 - (1 << K)), cz(cu * 100000 + (1 << K)), cz(100000),
            cz(max(1, cu - band)), cz(cu + band), q, hay, cz(c.get("frame") or 0),
            "true" if (c.get("periodic", True) or c.get("periodic_omitted")) else "false")
        expected_err = "ValueError" if c["api"] == "nb" else "IndexError"
        if o["err"] == expected_err:
            exp = "None"
        elif o["err"] is not None or not all(0 <= x < n + 50 for row in o["res"] for x in row):
            exp = "(Some [[%s]])" % cnat(n + 51)
        else:
            exp = "(Some %s)" % clist([clist([cnat(x) for x in row]) for row in o["res"]])
        items.append("(%s, %s)" % (inp, exp))
    codes, errs = eval_codes(ctx, ["MD.Neigh.Model", "MD.Neigh.Api", "MD.Neigh.ApiRun"], "api_case * option (list (list nat))",
                             "fun k => api_code (fst k) (snd k)", items, "apicodes") if items else ({}, [])
    if errs:
        ctx.break_("correspondence:coqc-evaluation(api)", "\n".join(errs))
    extra = ctx.notes.setdefault("coverage_extra", {}).setdefault("wrapper_calls", {"compared_exactly": 0, "band_not_compared": 0, "differ": 0,
                                                                                       "by_kind": {}})
    bad = []
    for k, (c, o) in enumerate(zip(cases, outs)):
        code = codes.get(k, 1)
        extra["compared_exactly" if code == 0 else ("band_not_compared" if code == 2 else "differ")] += 1
        if code == 1:
            bad.append(k)
        # ---- the property on the implementation's own answer (independent of the Coq model)
        n = len(c["frames"][0])
        T = len(c["frames"])
        fails = []
        per = bool(c.get("periodic", True) or c.get("periodic_omitted"))

        def frame_io(f, res):
            cs = {"api": c["api"], "xyz": c["frames"][f], "c": c["c"], "periodic": per, "query": c.get("query"),
                  "hay": None if c.get("hay_omitted") else c.get("hay")}
            oo = {"box": o["boxes"][f] if o.get("boxes") else None, "K": o["K"], "res": res, "err": None}
            return cs, oo
        nwithin = 0
        if c["api"] == "nb":
            hay = [] if (c.get("hay") is None or c.get("hay_omitted")) else c["hay"]
            bad_idx = any((i < 0 or i >= n) for i in list(c["query"]) + list(hay))
            if bad_idx:
                if o["err"] != "ValueError":
                    fails.append(("no ValueError on an invalid index", o["err"] or o["res"]))
            elif o["err"] is not None:
                fails.append(("error", {"class": o["err"], "msg": o.get("msg")}))
            elif len(o["res"]) != T:
                fails.append(("one answer per frame expected", len(o["res"])))
            else:
                if o.get("dtypes") and any(not d.startswith("int") for d in o["dtypes"]):
                    fails.append(("result arrays are not integer arrays", o["dtypes"]))
                for f in range(T):
                    cs, oo = frame_io(f, o["res"][f])
                    fl, nw, _q = oracle_nb(cs, oo)
                    nwithin += nw
                    fails += [("frame %d: %s" % (f, kd), dt) for kd, dt in fl]
        else:
            fr = 0 if c.get("frame_omitted") else c["frame"]
            if not (-T <= fr < T):
                if o["err"] != "IndexError":
                    fails.append(("no IndexError on a frame index out of range", o["err"] or "a result"))
            elif o["err"] is not None:
                fails.append(("error", {"class": o["err"], "msg": o.get("msg")}))
            else:
                cs, oo = frame_io(fr % T, o["res"])
                fl, nw, _q = oracle_nl(cs, oo)
                nwithin += nw
                fails += [("frame %d: %s" % (fr, kd), dt) for kd, dt in fl]
        bk = "apicall/%s/%s/%s" % (c["api"], (c.get("kind") or "").split("/")[-1], "periodic" if per else "nonperiodic")
        extra["by_kind"][bk] = extra["by_kind"].get(bk, 0) + 1
        ctx.count(api_summary(c), nontrivial=nwithin > 0 or o["err"] is not None, bucket=bk)
        for kd, dt in fails:
            apin = "compute_neighborlist" if c["api"] == "nl" else "compute_neighbors"
            ctx.fail("%s (whole call through the wrapper): %s" % (apin, kd.split(": ")[-1] if kd.startswith("frame") else kd), c,
                     observed={"detail": dt, "where": kd, "err": o["err"]},
                     expected="per frame exactly the atoms within the cutoff; ValueError / IndexError exactly for invalid indices / frames",
                     tags={"api": c["api"], "kind": kd.split(": ")[-1], "apicall": True, "explained_by": None}, stage="correspond")
    if bad:
        k = sorted(bad, key=lambda k: len(str(cases[k])))[0]
        ctx.break_("correspondence:wrapper-model",
                   "coq/Neigh/Api.v does not reproduce the wrapper on %d/%d whole calls; smallest: %s -> %s %s" % (
                       len(bad), len(cases), api_summary(cases[k]), outs[k]["err"], str(outs[k]["res"])[:300]))
    ctx.log("whole wrapper calls: %s" % {k: v for k, v in extra.items() if k != "by_kind"})
    return outs


def run_cases(ctx, cases, replaying=False):
    api_cases = [c for c in cases if c.get("apicall")]
    if api_cases:
        api_outs = run_api_cases(ctx, api_cases)
        cases = [c for c in cases if not c.get("apicall")]
        if not cases:
            return api_outs
    outs = run_impl_robust(ctx, "neigh_impl.py", cases, ("api", "xyz", "cell", "c", "periodic", "query", "hay", "seq", "mode"),
                           crash_out={"box": None, "K": 10, "res": None, "cd": None})
    ex_c, ex_o = [], []
    for c, o in zip(cases, outs):
        if c.get("seq") is None:
            ex_c.append(c)
            ex_o.append(o)
        elif o.get("err") == "NotRun":
            continue
        else:
            so = o.get("seq_out") or [dict(o) for _ in c["seq"]]          # a crash: every frame inherits it
            for f, (sub, oo) in enumerate(zip(c["seq"], so)):
                ex_c.append(dict(sub, _origin=c, _f=f))
                ex_o.append(oo)
    cases, outs = ex_c, ex_o
    keep = [i for i, o in enumerate(outs) if o.get("err") != "NotRun"]
    cases = [cases[i] for i in keep]
    outs = [outs[i] for i in keep]
    nb_idx = [i for i, c in enumerate(cases) if c["api"] == "nb"]
    nl_idx = [i for i, c in enumerate(cases) if c["api"] == "nl"]
    ctx.log("implementation ran on %d frames" % len(cases))
    for i, (c, o) in enumerate(zip(cases, outs)):
        if not lower_triangular(o):
            ctx.break_("correspondence:cell-not-lower-triangular", "unitcell_vectors %s" % o["box"])
            return
    # ---- compute_neighbors: model vs implementation
    nb_bad = set()
    if nb_idx:
        coq = []
        for i in nb_idx:
            c, o = cases[i], outs[i]
            cell, cu, lo, hi, d, xyz = coq_common(c, o)
            n = len(c["xyz"])
            hay = c["hay"] if c["hay"] is not None else list(range(n))
            inp = "(mkNb %s %s %s %s %s %s %s %s)" % (cell, cu, lo, hi, d, xyz, clist([nat_or_bad(x, n) for x in c["query"]]),
                                                   clist([nat_or_bad(x, n) for x in hay]))
            if o["err"] == "ValueError":
                exp = "None"
            elif o["err"] is not None:
                exp = "(Some [%s])" % cnat(n + 51)
            else:
                exp = "(Some %s)" % clist([cnat(x) for x in o["res"]])
            coq.append((inp, exp))
        bad, errs = ctx.coq_mismatches(["MD.Neigh.Model", "MD.Neigh.Run"], ("nb_case", "option (list nat)"),
                                       "nb_check", "(fun k => k)", coq, shard=60)
        if errs:
            ctx.break_("correspondence:coqc-evaluation(nb)", "\n".join(errs))
        nb_bad = {nb_idx[b] for b in bad}
    ctx.log("compute_neighbors compared with the model: %d differ" % len(nb_bad))
    # ---- compute_neighborlist: model (two variants) vs implementation
    VARIANTS = ["nlist_cur", "nlist_fix", "nlist_fix2"]       # bit 0, 1, 2 of nl_code; most repaired last
    agree = {}                                                  # case index -> set of variants reproducing the implementation
    if nl_idx:
        coq = []
        for i in nl_idx:
            c, o = cases[i], outs[i]
            cell, cu, lo, hi, d, xyz = coq_common(c, o)
            inp = "(mkNl %s %s %s %s %s %s)" % (cell, cu, lo, hi, d, xyz)
            if o["err"] is not None or len(o["res"]) != len(c["xyz"]):
                exp = "[[%s]]" % cz(-1)
            else:
                exp = clist([clist([cz(j) for j in sorted(set(a)) if j < k]) for k, a in enumerate(o["res"])])
            coq.append((inp, exp))
        codes, errs = coq_codes(ctx, coq, [len(cases[i]["xyz"]) for i in nl_idx])
        if errs:
            ctx.break_("correspondence:coqc-evaluation(nl)", "\n".join(errs))
        for k, i in enumerate(nl_idx):
            code = codes.get(k, 0)                              # not evaluated (coqc error): agrees with nothing
            agree[i] = {v for b, v in enumerate(VARIANTS) if code >> b & 1}
    ctx.log("compute_neighborlist compared with the model: frames disagreeing with %s" % {
        v: sum(1 for i in nl_idx if v not in agree[i]) for v in VARIANTS})
    # INFORMATIONAL: are the rows returned in the order of the loops of coq/Neigh/Bins.v (sorted bins, range 0 then range 1,
    # completions ascending)?  The order inside a row is not part of the property: recorded, never a failure.
    small = [i for i in nl_idx if outs[i]["err"] is None and 2 <= len(cases[i]["xyz"]) <= 21 and len(outs[i]["res"]) == len(cases[i]["xyz"])
             and all(0 <= x < len(cases[i]["xyz"]) for a in outs[i]["res"] for x in a)][:(48 if ctx.tier == "quick" else 300)]
    if small and not replaying:
        items = []
        for i in small:
            c, o = cases[i], outs[i]
            cell, cu, lo, hi, d, xyz = coq_common(c, o)
            items.append("(%s, %s, %s, %s)" % (cell, cu, xyz, clist([clist([cnat(x) for x in a]) for a in o["res"]])))
        ocodes, oerrs = eval_codes(ctx, ["MD.Neigh.Model", "MD.Neigh.ApiRun"], "option box * Z * list vec * list (list nat)",
                                   "fun k => ll_order_code (fst (fst (fst k))) (snd (fst (fst k))) (snd (fst k)) (snd k)", items, "llorder", shard=12)
        hist_o = ctx.notes.setdefault("coverage_extra", {}).setdefault(
            "row_order_vs_lowlevel_model(informational)", {"frames": 0, "identical_order": 0, "same_set_other_order": 0, "different_set": 0,
                                                           "not_evaluated": 0})
        for k in range(len(small)):
            v = ocodes.get(k)
            hist_o["frames"] += 1
            hist_o[{0: "identical_order", 1: "same_set_other_order", 2: "different_set"}.get(v, "not_evaluated")] += 1
        ctx.log("row order vs low-level model (informational): %s%s" % (hist_o, (" coqc: " + oerrs[0][-200:]) if oerrs else ""))
    # which variant describes the implementation on ALL voxel-list cases of this run (most repaired preferred)
    variant = None
    if nl_idx:
        for v in reversed(VARIANTS):
            if all(v in agree[i] for i in nl_idx):
                variant = v
                break
        ctx.notes.setdefault("coverage_extra", {})["nlist_variant_matching_impl"] = variant
        if variant is None:
            badc = [i for i in nl_idx if not agree[i]] or [i for i in nl_idx if len(agree[i]) < 3]
            worst = sorted(badc, key=lambda i: len(cases[i]["xyz"]))[0]
            ctx.break_("correspondence:neighborlist-model",
                       "no variant of the voxel-list model (as found, wrapped, wrapped+all-y-voxels) reproduces the implementation on all "
                       "frames (disagreeing: %s of %d); smallest: %s -> %s" % (
                           {v: sum(1 for i in nl_idx if v not in agree[i]) for v in VARIANTS}, len(nl_idx),
                           summary(cases[worst]), str(outs[worst]["res"])[:300]))
    if nb_bad:
        worst = sorted(nb_bad, key=lambda i: len(cases[i]["xyz"]))[0]
        ctx.break_("correspondence:neighbors-model",
                   "the brute-force model does not reproduce compute_neighbors on %d/%d cases; smallest: %s -> %s %s" % (
                       len(nb_bad), len(nb_idx), summary(cases[worst]), outs[worst]["err"], str(outs[worst]["res"])[:300]))
    # ---- the property itself: oracle on the implementation's answers
    hist = ctx.notes.setdefault("coverage_extra", {}).setdefault("oracle", {"in_quantifier": 0, "tie_only": 0,
                                                                           "pairs_within": 0, "cd_band_pairs": 0})
    for i, (c, o) in enumerate(zip(cases, outs)):
        fails, nwithin, in_q = (oracle_nl if c["api"] == "nl" else oracle_nb)(c, o)
        P, Br, w, inside = case_geometry(c, o)
        hist["in_quantifier" if in_q else "tie_only"] += 1
        hist["pairs_within"] += nwithin
        ctx.count(summary(c), nontrivial=nwithin > 0,
                  bucket="%s/%s/%s/%s%s" % (c["api"], c.get("kind"), c.get("dist"), c.get("cmode"), "" if inside else "/outside-cell"))
        # attribution is per frame (so that the replay of the case alone gives the same verdict): a miss is explained by
        # the most repaired model variant that reproduces the implementation on this frame; a run whose frames do not
        # all follow one variant is reported separately as a broken correspondence
        explained = None
        if c["api"] == "nl":
            for v in VARIANTS:
                if v in agree.get(i, ()):
                    explained = v
        cd = o.get("cd") or {}
        if in_q and cd:
            hist["cd_band_pairs"] += cd.get("band", 0)
            kinds = {k for k, _ in fails}
            if cd.get("n_missing") and "missing" not in kinds:
                fails.append(("missing(vs compute_distances only)", cd["missing"][:5]))
            if cd.get("n_spurious") and "spurious" not in kinds:
                fails.append(("spurious(vs compute_distances only)", cd["spurious"][:5]))
        for kind, detail in fails:
            api = "compute_neighborlist" if c["api"] == "nl" else "compute_neighbors"
            what = {"missing": "misses atoms within the cutoff", "spurious": "reports atoms beyond the cutoff"}.get(kind, kind)
            where = "" if inside else " (atoms outside the primary cell)"
            desc = "%s %s%s" % (api, what, where)
            nvox = None
            if Br is not None:
                nvox = min(max(1, (10 * int(Br[k, k] * G // c["c"]) + 3) // 6) for k in (1, 2))   # voxels along y, z
            tags = {"api": c["api"], "kind": kind, "outside_cell": not inside, "cell": (c.get("kind") or "").split("/")[0],
                    "nvox_min": nvox,
                    "explained_by": explained if kind == "missing" else None}
            ctx.fail(desc + (" (cell changing between consecutive frames/calls)" if "_origin" in c else ""), c.get("_origin", c),
                     observed={"detail": detail, "n_atoms": len(c["xyz"]), "cutoff_nm": c["c"] / G, "frame_of_sequence": c.get("_f")},
                     expected="exactly the atoms whose minimum-image distance is below the cutoff (pairs within 1e-5 excluded)",
                     tags=tags, stage="correspond")
    return outs


def shrink_unlisted(ctx):
    """reduce the atom set of failures that no known finding explains (a few implementation runs)"""
    for f in list(ctx.failures):
        c = f["case"]
        if "seq" in c or c.get("apicall"):
            continue
        if f["tags"].get("explained_by") or c["api"] != "nl" or len(c["xyz"]) <= 4 or f["tags"]["kind"] not in ("missing", "spurious"):
            continue
        det = f["observed"]["detail"]
        if not det or not isinstance(det[0], list):
            continue
        keep = list(det[0][:2])
        cur = c
        for _ in range(6):
            n = len(cur["xyz"])
            others = [k for k in range(n) if k not in keep]
            if not others:
                break
            drop = set(ctx.rng.sample(others, max(1, len(others) // 2)))
            idx = [k for k in range(n) if k not in drop]
            cand = dict(cur, xyz=[cur["xyz"][k] for k in idx])
            o = ctx.run_impl("neigh_impl.py", {"cases": [{k: cand.get(k) for k in ("api", "xyz", "cell", "c", "periodic")}]})["out"][0]
            fl, _, _ = oracle_nl(cand, o)
            hit = [d for k, d in fl if k == f["tags"]["kind"]]
            if hit:
                cur = cand
                keep = [idx.index(k) if k in idx else 0 for k in keep]
                keep = list(hit[0][0][:2])
                f["case"] = cand
                f["observed"] = {"detail": hit[0], "n_atoms": len(cand["xyz"]), "cutoff_nm": cand["c"] / G, "shrunk": True}


FIXED_PROBES = [
    # the 2-atom witness of Props/C10.v nlist_complete_outside_cell_refuted (one atom one cell up in y)
    {"api": "nl", "xyz": [[100, 2200, 100], [100, 6096, 100]], "cell": {"lengths": [4096, 4096, 4096], "angles": [90.0, 90.0, 90.0]},
     "c": 1024, "periodic": True, "kind": "cubic", "dist": "probe", "cmode": "mid"},
    # the same pair inside the cell
    {"api": "nl", "xyz": [[100, 2200, 100], [100, 2000, 100]], "cell": {"lengths": [4096, 4096, 4096], "angles": [90.0, 90.0, 90.0]},
     "c": 1024, "periodic": True, "kind": "cubic", "dist": "probe", "cmode": "mid"},
    # the 2-atom witness of Props/C10.v nlist_complete_triclinic_incell_refuted (flat skewed cell, three z voxels)
    {"api": "nl", "xyz": [[2704, 842, 452], [2704, 677, 1017]], "cell": {"lengths": [4323, 3767, 2570], "angles": [116.086, 62.917, 63.62]},
     "c": 676, "periodic": True, "kind": "tric", "dist": "probe", "cmode": "half"},
    {"api": "nb", "xyz": [[100, 2200, 100], [100, 6096, 100], [3000, 3000, 3000]],
     "cell": {"lengths": [4096, 4096, 4096], "angles": [90.0, 90.0, 90.0]}, "c": 1024, "periodic": True,
     "kind": "cubic", "dist": "probe", "cmode": "mid", "query": [0], "hay": None},
]


def correspond(ctx):
    cases = [dict(c) for c in FIXED_PROBES] + build_cases(ctx)
    ctx.log("cases:", len(cases), "atoms:", sum(len(c["xyz"]) if "xyz" in c else (sum(len(x) for x in c["frames"]) if c.get("apicall") else sum(len(x["xyz"]) for x in c["seq"]))
                                           for c in cases))
    run_cases(ctx, cases)
    shrink_unlisted(ctx)


def search(ctx, broken):
    """a proof or the tie broke and the regular run found no failing input: more frames through the same
    oracle (failures that the as-found model reproduces stay tagged as the known finding)"""
    cases = build_cases(ctx, scale=0.6)
    ctx.log("search: %d more frames" % len(cases))
    run_cases(ctx, cases)
    shrink_unlisted(ctx)


def replay(ctx, rec):
    c = rec["case"]
    run_cases(ctx, [c], replaying=True)
