"""C02 - partial loading equals slicing the fully loaded trajectory.

Model: coq/Load/Model.v (reader families with their strided-read arithmetic, load / load_frame /
iterload / load([..]) composed as in mdtraj/core/trajectory.py); theorems coq/Props/C02.v.

Tie: every case is run through mdtraj's public API on real files of every readable format and compared,
inside coqc, (a) with the property itself (spec_load / spec_iterload / spec_load_list = slicing the
full load) and (b) with the reader-family variants assigned to the format.  Per format some combination
(reader variant, glue variant) must reproduce the implementation on ALL cases of the run; a deviation
from the property that the recorded as-found variant predicts is a known finding, anything else a
violation.  Time, unit cell and topology atoms of every returned frame are compared in Python with the
same frame of the full load of the same file (integers after canonicalisation).
"""
import itertools

from common import clist, cnat

LEVEL = "proof"
THEOREMS = "Props/C02.v"
EXTS = ["xtc", "trr", "dcd", "dtr"]
RULE = ("cases = (format, api in {load(stride,frame), load_frame, iterload(chunk,stride,skip), load([files],stride)}, "
        "T, stride>=1, chunk>=0, skip in [0,T], frame in [0,T), atom_indices in {None, single first/middle/last atom, "
        "first+last, contiguous blocks, evenly strided, irregular incl. sets that look evenly spaced from their end points, repeated "
        "gaps, all atoms - derived per atom count}, 1..3 files) on files "
        "whose configuration rotates from case to case through atom counts {1,3,4,10,13,20} x written with/without unit cell "
        "(lammpstrj, dtr always with cell) x file style (written by mdtraj | hand-written using the format's freedom: lammpstrj atom lines "
        "shuffled per frame / other column order and extra columns, xyz comment lines and extra column, gro/pdb arbitrary serials and "
        "residue numbers, velocities, MODEL/HETATM/TER, mdcrd title quirks); plus histories: sequences of partial loads sharing ONE "
        "Topology object (iterload abandoned after a chunk, two iterloads interleaved chunk by chunk, a suspended iterload with loads in "
        "between, a load after a failed load, a load of a file list followed by plain loads), every step compared with the same call made alone; "
        "load([files]) also with discard_overlapping_frames over every overlap pattern of the junctions (file j+1 starts with the last frame of "
        "file j or not), checked against spec_load_list_d in coqc, against md.join of the individual loads (bitwise) and frame by frame "
        "in time and cell; dcd also as hand-written fixed-atom DCD (NAMNF > 0, with / without cell block); the alias extensions "
        ".hdf5 .ncdf .netcdf .crd .stk run the same case mix at a smaller scope (T<=4 exhaustive); chunk=100 (default, larger than the file); "
        "thorough: exhaustive for T<=8, chunk 0..9, stride 1..4, skip 0..T (atom subset and file configuration rotate with the case); "
        "quick: fixed witnesses + seeded sample; a case is non-trivial when stride>1 or skip>0 or an atom subset "
        "or a frame is given; distinct by hash of the case")
TRUSTED = ["translator in harness/props/C02.py (Python ast -> terms of coq/Load/Reflect.v for the pure-Python readers hdf5, netcdf, "
           "mdcrd, xyz, lammpstrj, arc, gro and the load/iterload glue, terms of coq/Load/MultiReflect.v for md.load's tail, md.join and the "
           "discard block of Trajectory.join; the .pyx readers xtc, trr, dcd, dtr and load_pdb stay "
           "hand-modelled and are tied by the correspondence only)",
           "harness/impl/load_impl.py (writes the files, maps frames/atoms/time/cell to identifiers, forks per batch)",
           "generator and verdict logic harness/props/C02.py; model-vs-implementation comparison is vm_compute inside coqc",
           "byte-level I/O of PyTables, netCDF, xdrfile, dcdplugin, dtrplugin (frames are opaque identifiers)"]
ASSUMPTIONS = ["files have 1 <= T < 100 frames, so XTC/TRR read() uses one read-ahead chunk",
               "a frame is identified by xyz (all atoms agree), atoms by their y coordinate; garbage frames handed out by a "
               "diverging reader are wildcards in the comparison",
               "stride >= 1, skip <= T, frame < T, atom_indices strictly increasing proper subsets (the quantifier of C02)"]

SPEC = 100
VNAME = {0: "arr_cur(h5)", 1: "arr_fix(h5)", 2: "nc", 3: "seq", 4: "xtc_cur", 5: "trr", 6: "gro_cur", 7: "dtr_cur",
         8: "arc_cur", 9: "pdb_cur", 10: "seq_noseek", 11: "pdb_fix", 100: "spec"}
# format -> acceptable reader variants, repaired / conforming first, as-found last
FORMATS = {
    "h5": [1, 0], "nc": [2], "dcd": [3], "mdcrd": [3], "xyz": [3], "xyz.gz": [3], "lammpstrj": [3],
    "xtc": [5, 4], "trr": [5], "gro": [3, 10, 6], "dtr": [2, 7], "arc": [3, 10, 8], "pdb": [11, 9], "pdb.gz": [11, 9],
    # the other registered extensions of the same readers (dispatch tables of trajectory.py / registry): same reader model
    "hdf5": [1, 0], "ncdf": [2], "netcdf": [2], "crd": [3], "stk": [2, 7],
}
ALIASES = ("hdf5", "ncdf", "netcdf", "crd", "stk")       # smaller scope per run than the primary extensions
# dispatch-by-extension variants (bits 2, 3 of the glue number, coq/Load/MultiModel.v disp_of), conforming first:
# 4 = _parse_topology does not know the extension (md.load / iterload(chunk=0) refuse), 8 = no file class registered
# for the extension (the streaming iterload refuses)
DISPATCH = {"hdf5": [0, 4], "stk": [0, 8]}
N_ATOMS = 4
# configuration axes of the files themselves (rotated from case to case, never a full product):
# atom counts (mdcrd writes 10 numbers per line, xtc switches codec above 9 atoms) x file written with / without unit cell
CONFIGS = [(4, True), (10, False), (1, True), (20, True), (3, False), (13, True),
           (10, True), (4, False), (20, False), (13, False), (1, False), (3, True)]
NEEDS_CELL = ("lammpstrj", "dtr", "stk")          # their writers refuse a trajectory without unit cell


def ais_for(n):
    """atom_indices choices for a file with n atoms: None plus strictly increasing selections of several shapes
    (single atom first/middle/last, first+last, contiguous blocks, evenly strided sets, irregular sets - among them
    sets that look evenly spaced when judged from their first two and last elements -, repeated gaps, all atoms)"""
    out = [None]

    def add(xs):
        xs = [int(x) for x in xs]
        if xs and all(0 <= x < n for x in xs) and all(a < b for a, b in zip(xs, xs[1:])) and xs not in out:
            out.append(xs)
    add([0]); add([n - 1]); add([n // 2]); add([0, n - 1])                  # single atoms, first and last only
    add(range(1, min(n, 4))); add(range(max(0, n - 3), n)); add(range(2, 7))   # contiguous blocks
    add(range(0, n, 2)); add(range(1, n, 3)); add(range(2, n, 4))            # evenly strided
    add([0, 2, 3, 6]); add([3, 5, 6, 8, 11]); add([1, 4, 5, 10]); add([2, 4, 7, 8]); add([0, 3, 4, 9])   # look even from the ends
    add([4, 8, 9, 10, 11, 12, 13, 14, 15, 16]); add([0, 5, 6, 15])           # (same, only valid for 20 atoms)
    add([0, 1, 4, 5, 8, 9]); add([0, 3, 4, 7]); add([1, 2, 5, 6, 9])         # repeated gaps
    add([1, n - 2]); add([0, 2, n - 1]); add([0, 1, n - 1]); add([1, 3, 4])  # irregular
    add(range(n))                                                            # all atoms, in order
    return out


# hand-written input files that use the legal freedom of the text formats (harness/impl/load_impl.py HAND):
# lammpstrj with atom lines in a different order in every frame / other column order, extra columns, xu yu zu;
# xyz with varying comment lines, blanks, an extra column; gro with arbitrary residue/atom numbers, velocities and text
# before t=; pdb with MODEL blocks, arbitrary serials / residue numbers, HETATM, TER; mdcrd with an empty / numeric title
# dcd "fixed": a CHARMM/NAMD DCD with fixed atoms (NAMNF > 0: frame 0 stores every atom, later frames only the free half),
# with / without the unit-cell block; mdtraj never writes one
# "zerocell" / "zerotail": written by mdtraj from a trajectory whose unit cell has ZERO lengths in a stretch of frames at the head /
# tail of the file (per-frame cell content varies inside one file), for every format that stores a cell per frame
ZSTYLES = ["zerocell", "zerotail"]
STYLES = {"dcd": ["mdtraj", "fixed"] + ZSTYLES, "lammpstrj": ["mdtraj", "shuffled", "columns"] + ZSTYLES, "xyz": ["mdtraj", "hand"],
          "gro": ["mdtraj", "hand"] + ZSTYLES, "pdb": ["mdtraj", "hand"], "mdcrd": ["mdtraj", "title_empty", "title_numeric"] + ZSTYLES}
for _f in ("nc", "ncdf", "netcdf", "h5", "hdf5", "xtc", "trr", "dtr", "stk", "crd"):
    STYLES[_f] = ["mdtraj"] + ZSTYLES


def config(fmt, i):
    n, cell = CONFIGS[i % len(CONFIGS)]
    if fmt in NEEDS_CELL or (fmt in ("mdcrd", "crd") and n == 1):
        # one-atom mdcrd without box is ambiguous in the format itself (a 3-number line looks like a box line)
        cell = True
    return n, cell


# ---------------------------------------------------------------------------------------------- cases
_rot = itertools.count()


def mk(fmt, kind, Ts, chunk=0, stride=1, skip=0, frame=None, ai=0, n_atoms=None, style=None, cell=None, overlaps=None,
       discard=False):
    """ai = index into ais_for(n_atoms) (or an explicit list together with n_atoms); the file configuration rotates
    with every case that is built"""
    T = Ts[0]
    i = next(_rot)
    n, cell0 = config(fmt, i // 4)
    if n_atoms is not None:
        n = n_atoms
    if cell is None:
        cell = cell0
    if style is None:
        sts = STYLES.get(fmt, ["mdtraj"])
        style = sts[(i // 2) % len(sts)]
    if kind == "load_list" and style in ZSTYLES:
        # a short file of this style is all zero boxes = "no unit cell" for some readers: joining it with a file that has one is
        # refused by Trajectory.join on both sides of the property; the zero-box axis is about ONE file
        style = "mdtraj"
    bases = None
    if overlaps is not None:
        # file j+1 starts with the last frame of file j (overlap) or two identifiers further on (no overlap)
        bases = [0]
        for j in range(len(Ts) - 1):
            bases.append(bases[-1] + Ts[j] - 1 if overlaps[j] else bases[-1] + Ts[j] + 1)
        if style == "fixed":
            style = "mdtraj"
    if fmt in NEEDS_CELL or (fmt in ("mdcrd", "crd") and n == 1) or style in ZSTYLES:
        cell = True
    if isinstance(ai, int):
        choices = ais_for(n)
        sel = choices[ai % len(choices)]
    else:
        sel = ai
    if style == "fixed" and sel is not None and sel[0] >= max(1, n // 2):
        sel = [0] + list(sel)          # fixed atoms never move: the first selected atom must be a free one (it identifies the frame)
    return {"fmt": fmt, "kind": kind, "Ts": list(Ts), "chunk": chunk, "stride": stride, "skip": skip, "frame": frame,
            "ai": sel, "limit": T + 3, "n_atoms": n, "cell": cell, "style": style, "bases": bases, "discard": bool(discard),
            "isolate": bool(fmt == "trr" and stride > 1 and sel is not None)}


HFMTS = ["xyz", "dcd", "nc", "xtc", "mdcrd", "lammpstrj", "trr", "dtr"]     # formats that take top= (an object can be shared)


def histories(fmt, n=4):
    """sequences of partial loads sharing ONE Topology object: [template name, steps, events]"""
    A, B, C = ([0, 2], [1, 3], [1]) if n == 4 else ([0, 2, 3, 6], [1, 4, 5, 10], [2, 4, 7, 8, 9])
    T = 6

    def st(kind, **kw):
        c = mk(fmt, kind, kw.pop("Ts", [T]), n_atoms=n, style="mdtraj", cell=True, **kw)
        c["isolate"] = False
        return c
    it = lambda ai, chunk=2, stride=1: st("iterload", chunk=chunk, stride=stride, skip=0, ai=ai)   # noqa: E731
    hs = [
        ("abandoned_iterload", [it(A), st("load", ai=B), st("load_frame", frame=2, ai=C), it(B, 3)],
         [["start", 0], ["next", 0], ["drop", 0], ["run", 1], ["run", 2], ["run", 3]]),
        ("interleaved_iterloads", [it(A), it(B), it(C, 4)],
         [["start", 0], ["start", 1]] + [["next", 0], ["next", 1]] * 2 + [["run", 2]] + [["next", 0], ["next", 1]] * 3),
        ("suspended_iterload", [it(A, 2, 2 if fmt != "trr" else 1), st("load", ai=B), st("load_frame", frame=5, ai=B)],
         [["start", 0], ["next", 0], ["run", 1], ["next", 0], ["run", 2], ["next", 0], ["next", 0]]),
        ("failed_load", [dict(st("load", frame=T + 4, ai=A), nocoq=True), st("load", ai=B), it(C, 4)],
         [["run", 0], ["run", 1], ["run", 2]]),
        ("list_then_load", [st("load_list", Ts=[3, 2], ai=A), st("load", ai=B), it(C, 4), st("load", ai=None)],
         [["run", 0], ["run", 1], ["run", 2], ["run", 3]]),
    ]
    out = []
    for name, steps, events in hs:
        out.append({"fmt": fmt, "kind": "history", "template": name, "Ts": [T], "n_atoms": n, "cell": True, "style": "mdtraj",
                    "steps": steps, "events": events, "isolate": fmt == "trr"})
    return out


def witnesses():
    """the historical witnesses, always run first (10-frame files)"""
    out = []
    for fmt in FORMATS:
        w = [mk(fmt, "iterload", [10], 3, 2, 0), mk(fmt, "iterload", [10], 2, 3, 1), mk(fmt, "iterload", [10], 4, 1, 10),
                mk(fmt, "iterload", [10], 0, 2, 3, ai=2), mk(fmt, "iterload", [10], 5, 2, 0, ai=3),
                mk(fmt, "load", [10], stride=3), mk(fmt, "load", [10], stride=3, ai=2),
                mk(fmt, "load", [10], stride=4, frame=4), mk(fmt, "load_frame", [10], frame=4),
                mk(fmt, "load_frame", [10], frame=9, ai=1), mk(fmt, "load_list", [3, 2, 4], stride=2, ai=3),
                # irregular selections that look evenly spaced from their end points, evenly strided, block, all atoms
                mk(fmt, "load", [4], stride=1, ai=[0, 2, 3, 6], n_atoms=13),
                mk(fmt, "iterload", [7], 3, 2, 1, ai=[3, 5, 6, 8, 11], n_atoms=20),
                mk(fmt, "load_frame", [5], frame=3, ai=[1, 4, 5, 10], n_atoms=13),
                mk(fmt, "iterload", [6], 2, 1, 0, ai=[0, 3, 6, 9], n_atoms=10),
                mk(fmt, "load", [5], stride=2, ai=[2, 3, 4, 5, 6], n_atoms=10),
                mk(fmt, "load_list", [2, 3], stride=1, ai=list(range(13)), n_atoms=13)]
        out += w[:11] if fmt in ALIASES else w
        # lists whose files share a frame at a junction (restart-style), with / without discard_overlapping_frames;
        # with a stride a junction is discarded exactly when both of its frames are loaded; default-sized chunk
        w = [mk(fmt, "load_list", [4, 3, 4], stride=1, overlaps=[True, True], discard=True, ai=0),
             mk(fmt, "load_list", [4, 3, 4], stride=2, overlaps=[True, True], discard=True, ai=3),
             mk(fmt, "load_list", [3, 1, 2], stride=1, overlaps=[True, False], discard=True, ai=1),
             mk(fmt, "load_list", [4, 3, 4], stride=1, overlaps=[True, True], discard=False, ai=2),
             mk(fmt, "load_list", [5, 3], stride=2, overlaps=[True], discard=True, ai=0),
             mk(fmt, "load_list", [2, 2, 3], stride=1, overlaps=[False, False], discard=True, ai=4),
             mk(fmt, "iterload", [7], 100, 2, 1, ai=4)]
        out += w[:3] if fmt in ALIASES else w
        for sty in STYLES.get(fmt, [])[1:]:
            if sty in ZSTYLES:
                # partial loads that fall entirely into / straddle the zero-box stretch of the file
                w = [mk(fmt, "load_frame", [6], frame=1 if sty == "zerocell" else 4, style=sty),
                     mk(fmt, "iterload", [7], 3, 1, 0, ai=[0, 2, 12], n_atoms=13, style=sty),
                     mk(fmt, "iterload", [6], 1, 2, 1, ai=None, n_atoms=4, style=sty),
                     mk(fmt, "load", [5], stride=2, ai=None, n_atoms=10, style=sty)]
                out += w[:2] if fmt in ALIASES else w
                continue
            out += [mk(fmt, "load", [6], stride=1, ai=[1, 4, 5, 10], n_atoms=13, style=sty),
                    mk(fmt, "iterload", [7], 3, 1, 0, ai=[0, 2, 12], n_atoms=13, style=sty),
                    mk(fmt, "load", [5], stride=2, ai=None, n_atoms=10, style=sty, cell=False),
                    mk(fmt, "iterload", [6], 2, 2, 1, ai=[3], n_atoms=4, style=sty)]
    for k, fmt in enumerate(HFMTS):
        out += histories(fmt, 4 if k % 2 == 0 else 13)
    return out


def exhaustive(fmts=None, Tmax=8):
    out = []
    rot = itertools.count()
    for fmt in (fmts or FORMATS):
        for T in range(1, (min(Tmax, 4) if fmt in ALIASES else Tmax) + 1):
            for c in range(0, 10):
                for s in range(1, 5):
                    for k in range(0, T + 1):
                        out.append(mk(fmt, "iterload", [T], c, s, k, ai=next(rot)))
            for s in range(1, 5):
                for _j in range(6):
                    out.append(mk(fmt, "load", [T], stride=s, ai=next(rot)))
            for fr in range(T):
                for s in (1, 3):
                    out.append(mk(fmt, "load", [T], stride=s, frame=fr, ai=next(rot)))
                out.append(mk(fmt, "load_frame", [T], frame=fr, ai=next(rot)))
        sizes = [1, 2, 3, 5]
        for n in (1, 2, 3):
            for Ts in itertools.product(sizes, repeat=n):
                for s in (1, 2, 3):
                    out.append(mk(fmt, "load_list", list(Ts), stride=s, ai=next(rot)))
        # discard_overlapping_frames: every overlap pattern of the junctions
        for n in (2, 3):
            for Ts in itertools.product([1, 2, 4], repeat=n):
                for s in (1, 2):
                    for ov in itertools.product([False, True], repeat=n - 1):
                        out.append(mk(fmt, "load_list", list(Ts), stride=s, ai=next(rot), overlaps=list(ov), discard=True))
    return out


def sampled(rng, per_fmt):
    out = []
    for fmt in FORMATS:
        for _ in range(per_fmt if fmt not in ALIASES else max(6, per_fmt // 3)):
            T = rng.choice([1, 2, 3, 4, 5, 6, 7, 8, 8, 9])
            ai = rng.randrange(1000)
            r = rng.random()
            if r < 0.6:
                c = rng.choice([0, 1, 1, 2, 3, 3, 4, 5, 6, 7, T, T + 1, 9, 100])
                out.append(mk(fmt, "iterload", [T], c, rng.randint(1, 4), rng.randint(0, T), ai=ai))
            elif r < 0.75:
                out.append(mk(fmt, "load", [T], stride=rng.randint(1, 4), ai=ai))
            elif r < 0.82:
                out.append(mk(fmt, "load", [T], stride=rng.randint(1, 4), frame=rng.randrange(T), ai=ai))
            elif r < 0.9:
                out.append(mk(fmt, "load_frame", [T], frame=rng.randrange(T), ai=ai))
            elif r < 0.95:
                n = rng.randint(1, 3)
                out.append(mk(fmt, "load_list", [rng.randint(1, 5) for _ in range(n)], stride=rng.randint(1, 3), ai=ai))
            else:
                n = rng.randint(2, 4)
                out.append(mk(fmt, "load_list", [rng.randint(1, 5) for _ in range(n)], stride=rng.choice([1, 1, 2, 3]), ai=ai,
                              overlaps=[rng.random() < 0.6 for _ in range(n - 1)], discard=rng.random() < 0.8))
    return out


def build_cases(ctx):
    cases = witnesses()
    if ctx.tier == "quick":
        cases += sampled(ctx.rng, 36)
    else:
        cases += exhaustive() + sampled(ctx.rng, 60)
        for fmt in HFMTS:
            cases += histories(fmt, 4) + histories(fmt, 13)
    return cases


def nontrivial(c):
    if c["kind"] == "history":
        return True
    return c["stride"] > 1 or c["skip"] > 0 or c["ai"] is not None or c["frame"] is not None or len(c["Ts"]) > 1


# ---------------------------------------------------------------------------------------------- coq text
KIND = {"load": 0, "load_frame": 1, "iterload": 2, "load_list": 3}


def coq_case(c, v, g):
    fr = "None" if c["frame"] is None else "(Some %s)" % cnat(c["frame"])
    return "(mkcase2 (mkcase %s %s %s %s %s %s %s %s %s %s) %s %s)" % (
        cnat(v), cnat(g), cnat(KIND[c["kind"]]), clist([cnat(t) for t in c["Ts"]]), cnat(c["chunk"]), cnat(c["stride"]),
        cnat(c["skip"]), fr, "true" if c["ai"] is not None else "false", cnat(c["limit"] + 1),
        clist([cnat(b) for b in (c.get("bases") or [])]), "true" if c.get("discard") else "false")


def coq_frames(fo):
    return clist(["(%s, %s)" % (cnat(i if i >= 0 else 98), "true" if fl else "false") for i, fl in fo])


def coq_outcome(r):
    """observation of the implementation as a Coq term of type outcome; None when it cannot be expressed"""
    err = r.get("err")
    if "traj" in r:
        return "([%s], 0)" % coq_frames(r["traj"]["frames"])
    chunks = clist([coq_frames(ch["frames"]) for ch in r.get("chunks", [])])
    if err is None:
        return "(%s, 0)" % chunks
    if err in ("NonTermination", "Timeout"):
        return "(%s, 2)" % chunks
    if err in ("Crash", "HarnessStreamLost"):
        return "(%s, 3)" % chunks
    return "(%s, 1)" % chunks


def path_of(c):
    if c["kind"] == "iterload" and c["chunk"] == 0:
        return "chunk0"
    if c["kind"] == "iterload" and c["fmt"] in ("pdb", "pdb.gz"):
        return "pdbiter"
    return "reader"


def glue_choices(c):
    p = path_of(c)
    gs = [0, 1] if p == "chunk0" else [0, 2] if p == "pdbiter" else [0]
    return [g | db for db in DISPATCH.get(c["fmt"], [0]) for g in gs]


def glue_orders(fmt, gs=(3, 1, 2, 0)):
    """(glue | dispatch) numbers to try for a format: conforming dispatch first, repaired glue first"""
    return [g | db for db in DISPATCH.get(fmt, [0]) for g in gs]


def flat(r):
    if "traj" in r:
        return [tuple(x) for x in r["traj"]["frames"]]
    return [tuple(x) for ch in r.get("chunks", []) for x in ch["frames"]]


def classify(c, r, spec_frames):
    """defect class of a deviation from the property"""
    err = r.get("err")
    if err in ("NonTermination", "Timeout"):
        return "diverges"
    if err in ("Crash", "HarnessStreamLost"):
        return "crash"
    if err is not None:
        got = flat(r)
        if not got:
            return "refuses"
        if got == spec_frames:
            return "raises_at_end"
        return "raises_midway" if got == spec_frames[:len(got)] else "wrong_frames"
    return "wrong_chunk_sizes" if flat(r) == spec_frames else "wrong_frames"


def spec_flat(c):
    """the frames the property promises, flattened (Python mirror used ONLY to name the defect class in the
    report; the verdict itself comes from the Coq comparison)"""
    fl = 1 if c["ai"] is not None else 0
    if c["kind"] == "load_list":
        out = []
        bases = c.get("bases") or [10 * j for j in range(len(c["Ts"]))]
        for j, T in enumerate(c["Ts"]):
            seg = [(bases[j] + i, fl) for i in range(0, T, c["stride"])]
            if c.get("discard") and out and seg and out[-1] == seg[0]:
                out.pop()
            out += seg
        return out
    T = c["Ts"][0]
    if c["kind"] == "load_frame" or (c["kind"] == "load" and c["frame"] is not None):
        return [(c["frame"], fl)]
    if c["kind"] == "load":
        return [(i, fl) for i in range(0, T, c["stride"])]
    return [(i, fl) for i in range(c["skip"], T, c["stride"])]


# ---------------------------------------------------------------------------------------------- run
def _norm_traj(t):
    return (t["frames"], t["top_atoms"], bool(t["time_bad"]), bool(t["cell_bad"]), t["top_matches_xyz"])


def same_as_standalone(h, s):
    """observation of a step inside a history vs the same step run alone (fresh state, topology given as a path)"""
    if h is None:
        return True                    # step never ran (its events were not reached)
    if "traj" in h or "traj" in s:
        return "traj" in h and "traj" in s and _norm_traj(h["traj"]) == _norm_traj(s["traj"])
    hc = [_norm_traj(t) for t in h.get("chunks", [])]
    sc = [_norm_traj(t) for t in s.get("chunks", [])]
    if "exhausted" in h and not h["exhausted"] and "err" not in h:
        return hc == sc[:len(hc)]      # generator still suspended / abandoned: a prefix of the chunks
    return hc == sc and h.get("err") == s.get("err")


def run_cases(ctx, cases, replaying=False):
    # every step of a history also runs alone, as an ordinary case (and is compared with the model in coqc)
    cases = list(cases)
    hist_steps = {}
    for hi, c in enumerate(list(cases)):
        if c["kind"] == "history":
            hist_steps[hi] = []
            for stp in c["steps"]:
                cases.append(dict(stp, from_history=True))
                hist_steps[hi].append(len(cases) - 1)
    workers = 3
    res = ctx.run_impl("load_impl.py", {"workers": workers, "cases": cases, "probe_trr": True}, timeout=3000)
    outs = res["results"]
    ctx.log("implementation ran %d cases" % len(cases))
    # ---- heap-overflow probe (trr, stride>1 with an atom subset)
    pr = res.get("probe_trr") or {}
    if pr.get("signaled") or (pr.get("exit") not in (0, None)):
        ctx.fail("trr: read(stride>1, atom_indices=subset) corrupts the heap (child process aborted)",
                 {"fmt": "trr", "kind": "load", "Ts": [6], "chunk": 0, "stride": 2, "skip": 0, "frame": None, "ai": [0],
                  "limit": 9, "isolate": True, "probe": True, "n_atoms": 4, "cell": True},
                 observed=pr, expected="process exits normally", tags={"fmt": "trr", "kind": "memory_unsafe"})
    # ---- model / property comparison inside coqc
    jobs, coqcases = [], []
    expressible = []
    for ci, (c, r) in enumerate(zip(cases, outs)):
        if c.get("probe") or c["kind"] == "history" or c.get("nocoq"):
            expressible.append(False)
            continue
        if c.get("isolate") and r.get("err") == "Crash":
            ctx.fail("trr: read(stride>1, atom_indices=subset) corrupts the heap (child process aborted)", c,
                     observed=r, expected="frames", tags={"fmt": "trr", "kind": "memory_unsafe"})
            expressible.append(False)
            continue
        expressible.append(True)
        exp = coq_outcome(r)
        if c.get("isolate"):
            # the memory-unsafe class (trr, stride>1, atom subset): the overflow may also corrupt the data that is
            # returned, so these cases are compared with the property only and take no part in the tie
            jobs.append((ci, SPEC, 0))
            coqcases.append((coq_case(c, SPEC, 0), exp))
            continue
        for v in FORMATS[c["fmt"]] + [SPEC]:
            for g in (glue_choices(c) if v != SPEC else [0]):
                jobs.append((ci, v, g))
                coqcases.append((coq_case(c, v, g), exp))
    # ctx.coq_mismatches numbers the cases with (unary) nat literals: keep every call below 4000 cases so
    # that the indices stay small (one call with ~100k cases spends its time building the indices)
    bad, errs = [], []
    B = 3200
    for off in range(0, len(coqcases), B):
        b, e = ctx.coq_mismatches(["MD.Load.Model", "MD.Load.MultiModel"], ("xcase2", "outcome"), "outcome_eqb", "run_case2",
                                  coqcases[off:off + B])
        bad += [off + i for i in b]
        errs += e
        if e:
            break
    if errs:
        ctx.break_("correspondence:coqc-evaluation", "\n".join(errs))
        return
    badset = {jobs[i] for i in bad}
    ctx.log("coq evaluated %d (case, variant) pairs" % len(coqcases))

    def ok(ci, v, g):
        c = cases[ci]
        if v == SPEC:
            return (ci, SPEC, 0) not in badset
        gg = (g & (1 if path_of(c) == "chunk0" else 2 if path_of(c) == "pdbiter" else 0)) | (g & 12)
        return (ci, v, gg) not in badset

    # 1. the tie: per format one (reader variant, glue) reproduces the implementation on ALL its cases
    explained = {}
    for fmt, variants in FORMATS.items():
        idx = [i for i, c in enumerate(cases) if c["fmt"] == fmt and expressible[i] and not c.get("isolate")]
        if not idx:
            continue
        choice = None
        for v in variants + [SPEC]:
            for g in glue_orders(fmt):
                if all(ok(i, v, g) for i in idx):
                    choice = (v, g)
                    break
            if choice:
                break
        explained[fmt] = choice
        if choice is None:
            def nbad(vg):
                return sum(not ok(i, vg[0], vg[1]) for i in idx)
            worst = min(((v, g) for v in variants for g in glue_orders(fmt, (0, 1, 2, 3))), key=nbad)
            ex = sorted([i for i in idx if not ok(i, worst[0], worst[1])], key=lambda i: len(str(cases[i])))
            ctx.break_("correspondence:load-model[%s]" % fmt,
                       "no model variant of %s reproduces the implementation; closest %s/glue%d fails on %d cases, e.g. %s -> %s"
                       % ([VNAME[v] for v in variants], VNAME[worst[0]], worst[1], len(ex), cases[ex[0]],
                          str(outs[ex[0]])[:600]))
            ctx.notes.setdefault("tie_examples", []).append({"case": cases[ex[0]], "impl": outs[ex[0]]})
    def vgname(f, vg):
        if vg is None:
            return None
        s = "%s + chunk0_%s" % (VNAME[vg[0]], "fix" if vg[1] & 1 else "cur")
        if f in ("pdb", "pdb.gz"):
            s += " + pdbiter_%s" % ("fix" if vg[1] & 2 else "cur")
        if f in DISPATCH:
            s += " + dispatch_%s" % ({0: "conforming", 4: "cur(extension unknown to _parse_topology)",
                                      8: "cur(no file class registered)"}.get(vg[1] & 12, vg[1] & 12))
        return s
    ctx.notes.setdefault("coverage_extra", {})["model_variant_matching_impl"] = {
        f: vgname(f, vg) for f, vg in explained.items()}
    ctx.c02_explained = explained
    # 2. the property
    for ci, (c, r) in enumerate(zip(cases, outs)):
        if c.get("probe"):
            continue
        ctx.count({k: c.get(k) for k in ("fmt", "kind", "Ts", "chunk", "stride", "skip", "frame", "ai", "n_atoms", "cell", "style",
                                         "template", "events", "bases", "discard")},
                  nontrivial=nontrivial(c), bucket="%s/%s" % (c["fmt"], c["kind"]))
        cfgs = ctx.notes.setdefault("coverage_extra", {}).setdefault("file_configurations", {})
        ck = "%s atoms=%s cell=%s style=%s" % (c["fmt"], c.get("n_atoms", N_ATOMS), c.get("cell", True), c.get("style", "mdtraj"))
        cfgs[ck] = cfgs.get(ck, 0) + 1
        if not expressible[ci]:
            continue
        fmt = c["fmt"]
        vg = explained.get(fmt)
        diverged = r.get("err") in ("NonTermination", "Timeout")
        if c.get("isolate"):
            trajs = [r["traj"]] if "traj" in r else r.get("chunks", [])
            odd = (ci, SPEC, 0) in badset or any(t.get("time_bad") or t.get("cell_bad") or t.get("top_matches_xyz") is False
                                                 or any(i < 0 for i, _f in t["frames"]) for t in trajs)
            # chunk == 0 drops the stride (known finding of its own): not evidence of the overflow
            if odd and not (path_of(c) == "chunk0"):
                ctx.fail("trr: read(stride>1, atom_indices=subset) corrupts the heap (wrong data returned)", c, observed=r,
                         expected="spec", tags={"fmt": "trr", "kind": "memory_unsafe"})
            continue
        if (ci, SPEC, 0) in badset:
            p = path_of(c)
            # attribution is per case (so that a replay of this case alone gives the same verdict): the
            # variant chosen for the format if it reproduces this case, else the first acceptable one that does
            who = None
            order = ([vg] if vg is not None else []) + [(v, g) for v in FORMATS[fmt] for g in glue_orders(fmt)]
            for v, g in order:
                if v == SPEC or not ok(ci, v, g):
                    continue
                if (g & 12) and not ok(ci, v, g & 3):
                    who = "dispatch_cur"
                elif p == "chunk0" and not (g & 1) and not ok(ci, v, 1 | (g & 12)):
                    who = "chunk0_cur"
                elif p == "pdbiter" and not (g & 2) and not ok(ci, v, 2 | (g & 12)):
                    who = "pdbiter_cur"
                else:
                    who = VNAME[v]
                break
            kind = classify(c, r, spec_flat(c))
            tags = {"fmt": fmt, "api": c["kind"], "path": p, "explained_by": who, "kind": kind,
                    "skip_all": bool(c["kind"] == "iterload" and c["skip"] >= c["Ts"][0])}
            ctx.fail("%s %s: partial load deviates from slicing the full load [%s, explained by %s]" % (fmt, c["kind"], kind, who),
                     c, observed=r, expected="spec (Coq spec_load/spec_iterload/spec_load_list)", tags=tags)
        # 3. time, cell, topology of the frames that were returned (exact integers, Python side)
        if diverged:
            continue
        trajs = [r["traj"]] if "traj" in r else r.get("chunks", [])
        if r.get("join_bad"):
            # model-free oracle of the last clause: md.load([..], **kw) vs md.join([md.load(f, **kw) for f in ..]) field by field
            ctx.fail("%s load_list: loading a list of files differs from joining the individual loads" % fmt, c,
                     observed=r["join_bad"], expected="xyz, time, unit cell and topology of md.join of the individual loads",
                     tags={"fmt": fmt, "api": c["kind"], "kind": "list_differs_from_join", "discard": bool(c.get("discard"))})
        for t in trajs:
            for name, key in (("time", "time_bad"), ("cell", "cell_bad")):
                if t.get(key):
                    ctx.fail("%s %s: %s of a partially loaded frame differs from the full load" % (fmt, c["kind"], name), c,
                             observed=t[key], expected="[frame id, got, full-load value]",
                             tags={"fmt": fmt, "api": c["kind"], "kind": name + "_wrong",
                                   "with_frame": c["frame"] is not None,
                                   # the partial load has NO unit cell where the full load has a stored zero-size box
                                   "zero_box_dropped": bool(name == "cell" and c.get("style") in ZSTYLES
                                                            and all(g is None and w == -2 for _i, g, w in t[key]))})
            if t.get("top_matches_xyz") is False:
                ctx.fail("%s %s: topology atoms differ from the atoms of xyz" % (fmt, c["kind"]), c,
                         observed=t.get("top_atoms"), expected="same atoms as xyz",
                         tags={"fmt": fmt, "api": c["kind"], "kind": "topology_wrong"})
            if any(i < 0 for i, _f in t["frames"]):
                ctx.fail("%s %s: a returned frame is not a frame of the file (or has foreign atoms)" % (fmt, c["kind"]), c,
                         observed=t["frames"], expected="frames of the file",
                         tags={"fmt": fmt, "api": c["kind"], "kind": "unidentified_frame",
                               "explained_by": VNAME[vg[0]] if vg else None})
    check_histories(ctx, cases, outs, hist_steps)


def check_histories(ctx, cases, outs, hist_steps):
    """history independence: a step inside a history (one shared Topology object) observes what it observes alone"""
    for hi, idxs in hist_steps.items():
        c, r = cases[hi], outs[hi]
        if r.get("err") == "Crash":
            if c["fmt"] == "trr":
                continue
            ctx.fail("%s: history of partial loads crashed" % c["fmt"], c, observed=r, expected="no crash",
                     tags={"fmt": c["fmt"], "kind": "crash", "template": c.get("template")})
            continue
        steps = r.get("steps") or []
        bad = []
        for j, si in enumerate(idxs):
            h = steps[j] if j < len(steps) else None
            if not same_as_standalone(h, outs[si]):
                bad.append({"step": j, "in_history": h, "alone": outs[si]})
        if bad:
            ctx.fail("%s: a partial load returns something else after/while other partial loads used the same Topology object [%s]"
                     % (c["fmt"], c.get("template")), c, observed=bad[:2],
                     expected="every step equals the same call made alone (topology given as a path)",
                     tags={"fmt": c["fmt"], "kind": "history_dependent", "template": c.get("template"),
                           "stale_subset_override": bool(r.get("stale_subset_override"))})
        elif r.get("stale_subset_override"):
            ctx.fail("%s: the caller's Topology object is left with an overridden subset() [%s]" % (c["fmt"], c.get("template")),
                     c, observed=r.get("stale_subset_override"), expected="Topology object unchanged",
                     tags={"fmt": c["fmt"], "kind": "history_dependent", "template": c.get("template"),
                           "stale_subset_override": True})


READER_OF_FMT = {"hdf5": "hdf5", "ncdf": "netcdf", "netcdf": "netcdf", "crd": "mdcrd", "h5": "hdf5", "nc": "netcdf", "mdcrd": "mdcrd", "xyz": "xyz", "xyz.gz": "xyz", "lammpstrj": "lammpstrj",
                 "arc": "arc", "gro": "gro"}
FAM_CLASS = {"FArr true": "slice", "FNc": "slice", "FSeq": "seq", "FSeqNoSeek": "seq_noseek"}
VARIANT_CLASS = {1: "slice", 2: "slice", 3: "seq", 10: "seq_noseek", SPEC: None}


def cross_check_translator(ctx):
    """the family the translated source is classified as (computed in coqc from Gen/LoadReaders.v) must be the
    family whose model reproduces the implementation's behaviour in this run"""
    explained = getattr(ctx, "c02_explained", None)
    if not explained or not os.path.exists(os.path.join(os.path.dirname(os.path.dirname(os.path.dirname(os.path.abspath(__file__)))),
                                                        "coq", "Gen", "LoadReaders.vo")):
        return
    keys = sorted(set(READER_OF_FMT.values()))
    rc, out = ctx.coq_eval(["MD.Load.Model", "MD.Load.Reflect", "MD.Gen.LoadReaders"],
                           "[%s]" % "; ".join("classify %s_reader" % k for k in keys))
    if rc != 0:
        ctx.log("cross-check skipped: Gen/LoadReaders does not evaluate")
        return
    txt = out[out.find("= ") + 2:]
    fams = re.findall(r"Some \(?(FArr true|FArr false|FNc|FSeqNoSeek|FSeq)\)?|None", txt)
    got = re.findall(r"(Some \(?(?:FArr true|FArr false|FNc|FSeqNoSeek|FSeq)\)?|None)", txt)
    if len(got) != len(keys):
        ctx.log("cross-check skipped: cannot parse %r" % txt[:200])
        return
    cls = {}
    for k, g in zip(keys, got):
        m = re.search(r"FArr true|FArr false|FNc|FSeqNoSeek|FSeq", g)
        cls[k] = FAM_CLASS.get(m.group(0)) if m else None
    report = {}
    for fmt, key in READER_OF_FMT.items():
        vg = explained.get(fmt)
        if vg is None:
            continue
        beh = VARIANT_CLASS.get(vg[0], "as-found:%s" % VNAME.get(vg[0]))
        report[fmt] = {"source_classified_as": cls[key], "behaves_as": beh}
        if beh is not None and cls[key] is not None and beh != cls[key]:
            ctx.break_("translator-vs-behaviour[%s]" % fmt,
                       "the source of the %s reader translates to family class %s but the implementation behaves as %s"
                       % (key, cls[key], beh))
    ctx.notes.setdefault("coverage_extra", {})["translator_vs_behaviour"] = report


def correspond(ctx):
    cases = build_cases(ctx)
    ctx.log("cases:", len(cases))
    if ctx.tier != "quick":
        ce = ctx.notes.setdefault("coverage_extra", {})
        ce["exhaustive"] = True
        ce["exhaustive_scope"] = ("per format: iterload over T 1..8 x chunk 0..9 x stride 1..4 x skip 0..T; load over T x stride 1..4 x "
                                  "6 atom selections; load(frame)/load_frame over T x every frame; load([..]) over all lists of 1..3 files "
                                  "with sizes in {1,2,3,5} x stride 1..3. The atom subset and the file configuration (atom count in "
                                  "{1,3,4,10,13,20} x with/without unit cell) are NOT product axes: they rotate from case to case "
                                  "(all 48 combinations occur within any 48 consecutive cases).")
    run_cases(ctx, cases)
    try:
        cross_check_translator(ctx)
    except Exception as e:  # noqa  (never let the extra check mask the verdict of the correspondence)
        ctx.log("cross-check failed to run: %r" % e)


def search(ctx, broken):
    """A proof or a tie broke and the sampled cases showed no failing input: run the property oracle
    (spec_* evaluated in coqc vs the implementation) on the exhaustive small scope T <= 5 of the formats
    whose tie broke (all formats when a proof broke)."""
    import re
    fmts = set()
    for b in broken:
        m = re.match(r"correspondence:load-model\[(.+)\]", b.get("name", ""))
        if m:
            fmts.add(m.group(1))
    if ctx.tier != "quick" and fmts:
        return          # the thorough tier has already enumerated the scope
    cases = exhaustive(sorted(fmts) or [f for f in FORMATS if f not in ALIASES], Tmax=5 if fmts else 4)
    ctx.log("search: %d cases on %s" % (len(cases), sorted(fmts) or "all formats"))
    n0 = len(ctx.broken)
    run_cases(ctx, cases)
    del ctx.broken[n0:]      # the tie is already recorded as broken; keep one entry per cause


def replay(ctx, rec):
    c = rec["case"]
    run_cases(ctx, [c], replaying=True)


# =================================================================================================
# Translator (DESIGN.md 4.1, T3): small terms extracted with Python's ast from the pure-Python readers
# and from the load / load_frame / iterload glue -> coq/Gen/LoadReaders.v, checked there by computation
# against the checkers of coq/Load/Reflect.v (soundness of the checkers: coq/Load/ReflectProofs.v).
# Fail closed: a construct outside the small grammar raises Outside -> that definition falls back to the
# hand-maintained copy in coq/Load/Reference.v ("degraded": the correspondence alone ties the model);
# a construct that IS understood but differs (n_frames no longer scaled by stride, range(stride) instead
# of range(stride - 1), a moved position update, skip > 1, ...) yields a different term and the lemma
# of Gen/LoadReaders.v no longer computes to true -> broken proof obligation.
import ast
import os
import re

from common import REPO

EXTRA_TARGETS = ("Gen/LoadReaders.vo",)


class Outside(Exception):
    pass


READERS = [  # key, file, class, per-frame method, loader function, kind, families accepted in Gen
    ("hdf5", "mdtraj/formats/hdf5.py", "HDF5TrajectoryFile", None, "load_hdf5", "slice", ["FArr true", "FNc"]),
    ("netcdf", "mdtraj/formats/netcdf.py", "NetCDFTrajectoryFile", None, "load_netcdf", "slice", ["FArr true", "FNc"]),
    ("mdcrd", "mdtraj/formats/mdcrd.py", "MDCRDTrajectoryFile", "_read", "load_mdcrd", "loop", ["FSeq"]),
    ("xyz", "mdtraj/formats/xyzfile.py", "XYZTrajectoryFile", "_read", "load_xyz", "loop", ["FSeq"]),
    ("lammpstrj", "mdtraj/formats/lammpstrj.py", "LAMMPSTrajectoryFile", "_read", "load_lammpstrj", "loop", ["FSeq"]),
    ("arc", "mdtraj/formats/arc.py", "ArcTrajectoryFile", "_read", "load_arc", "loop", ["FSeq", "FSeqNoSeek"]),
    ("gro", "mdtraj/formats/gro.py", "GroTrajectoryFile", "_read_frame", "load_gro", "loop", ["FSeq", "FSeqNoSeek"]),
]


def _src(rel):
    with open(os.path.join(REPO, rel)) as fh:
        return fh.read()


def _strip_doc(body):
    if body and isinstance(body[0], ast.Expr) and isinstance(body[0].value, ast.Constant) and isinstance(body[0].value.value, str):
        return body[1:]
    return body


def _method(tree, cls, name):
    for n in tree.body:
        if isinstance(n, ast.ClassDef) and n.name == cls:
            for m in n.body:
                if isinstance(m, ast.FunctionDef) and m.name == name:
                    return m
    raise Outside("%s.%s not found" % (cls, name))


def _function(tree, name):
    for n in tree.body:
        if isinstance(n, ast.FunctionDef) and n.name == name:
            return n
    raise Outside("function %s not found" % name)


def _dotted(n):
    if isinstance(n, ast.Name):
        return n.id
    if isinstance(n, ast.Attribute):
        b = _dotted(n.value)
        return None if b is None else b + "." + n.attr
    return None


def _mentions(node, names):
    for n in ast.walk(node):
        d = _dotted(n) if isinstance(n, (ast.Name, ast.Attribute)) else None
        if d is not None and d in names:
            return True
    return False


# ---- expressions: tuples ('Vi',) ('Cst', k) ('Add', a, b) ...
_RANK = {"Vi": 0, "Vn": 1, "Vs": 2, "Vo": 2, "VT": 4, "Cst": 5}


def _rank(e):
    return _RANK.get(e[0], 3)


def _comm(op, a, b):
    """commutative operators get their operands in one canonical order (stable for equal ranks)"""
    return (op, a, b) if _rank(a) <= _rank(b) else (op, b, a)


def tr_expr(n, env):
    if isinstance(n, ast.Constant) and isinstance(n.value, int) and not isinstance(n.value, bool) and n.value >= 0:
        return ("Cst", n.value)
    d = _dotted(n) if isinstance(n, (ast.Name, ast.Attribute)) else None
    if d is not None:
        if d in env:
            return env[d]
        if d in ("self.n_frames",):
            return ("VT",)
        if isinstance(n, ast.Attribute) and n.attr in ("start", "stop", "step") and _dotted(n.value) in env.get("__slices__", {}):
            a, b, c = env["__slices__"][_dotted(n.value)]
            return {"start": a, "stop": b, "step": c}[n.attr]
        raise Outside("unknown name %s in an arithmetic expression" % d)
    if isinstance(n, ast.BinOp):
        a, b = tr_expr(n.left, env), tr_expr(n.right, env)
        if isinstance(n.op, ast.Add):
            return _comm("Add", a, b)
        if isinstance(n.op, ast.Mult):
            return _comm("Mul", a, b)
        if isinstance(n.op, ast.Sub):
            return ("Sub", a, b)
        raise Outside("operator %s" % type(n.op).__name__)
    if isinstance(n, ast.Call):
        fn = _dotted(n.func)
        if fn == "min" and len(n.args) == 2 and not n.keywords:
            return _comm("Min", tr_expr(n.args[0], env), tr_expr(n.args[1], env))
        if fn == "int" and len(n.args) == 1:
            return tr_expr(n.args[0], env)
        if fn == "len" and len(n.args) == 1 and (_dotted(n.args[0]) or "").endswith(".coordinates"):
            return ("VT",)
        raise Outside("call %s in an arithmetic expression" % fn)
    raise Outside("expression %s" % type(n).__name__)


def pexpr(e):
    if e[0] == "Cst":
        return "(Cst %d)" % e[1]
    if len(e) == 1:
        return e[0]
    return "(%s %s %s)" % (e[0], pexpr(e[1]), pexpr(e[2]))


def _is_none_test(t, name):
    return (isinstance(t, ast.Compare) and len(t.ops) == 1 and isinstance(t.ops[0], ast.Is) and _dotted(t.left) == name
            and isinstance(t.comparators[0], ast.Constant) and t.comparators[0].value is None)


def _is_notnone_test(t, name):
    return (isinstance(t, ast.Compare) and len(t.ops) == 1 and isinstance(t.ops[0], ast.IsNot) and _dotted(t.left) == name
            and isinstance(t.comparators[0], ast.Constant) and t.comparators[0].value is None)


# ---- slice readers ---------------------------------------------------------------------------------
FIELDS = ("coordinates", "time", "cell_lengths", "cell_angles")


def _field_reads(stmt, env, out):
    """record, for every data field indexed in this statement, the slice triple it is indexed with"""
    slices = env["__slices__"]

    def first_index(ix):
        if isinstance(ix, ast.Tuple):
            ix = ix.elts[0]
        return _dotted(ix)
    for n in ast.walk(stmt):
        if isinstance(n, ast.Subscript):
            base = n.value
            name = None
            if isinstance(base, ast.Subscript) and isinstance(base.slice, ast.Constant):
                name = base.slice.value                      # self._handle.variables['time'][frame_slice]
            sv = first_index(n.slice)
            if name in FIELDS and sv is not None:
                if sv not in slices:
                    raise Outside("field %s indexed with %s" % (name, sv))
                out[name] = slices[sv]
        if isinstance(n, ast.Call) and _dotted(n.func) == "get_field" and n.args and isinstance(n.args[0], ast.Constant):
            name = n.args[0].value
            if name in FIELDS:
                ix = n.args[1] if len(n.args) > 1 else next((k.value for k in n.keywords if k.arg == "slice"), None)
                sv = first_index(ix) if ix is not None else None
                if sv not in slices:
                    raise Outside("field %s indexed with %s" % (name, sv))
                out[name] = slices[sv]


def tr_slice_read(fn):
    env = {"n_frames": ("Vn",), "stride": ("Vs",), "self._frame_index": ("Vi",), "__slices__": {}}
    tracked = {"n_frames", "stride", "self._frame_index"}
    guard = None
    fields = {}
    for st in _strip_doc(fn.body):
        if isinstance(st, ast.Return):
            break
        if isinstance(st, ast.FunctionDef):
            continue
        # if stride is not None: stride = int(stride)
        if isinstance(st, ast.If) and _is_notnone_test(st.test, "stride") and not st.orelse and len(st.body) == 1 \
                and isinstance(st.body[0], ast.Assign) and _dotted(st.body[0].targets[0]) == "stride" \
                and isinstance(st.body[0].value, ast.Call) and _dotted(st.body[0].value.func) == "int":
            continue
        # if n_frames is None: n_frames = np.inf  [elif stride is not None: n_frames = n_frames * stride]
        if isinstance(st, ast.If) and _is_none_test(st.test, "n_frames"):
            b = st.body
            if not (len(b) == 1 and isinstance(b[0], ast.Assign) and _dotted(b[0].targets[0]) == "n_frames"
                    and _dotted(b[0].value) in ("np.inf", "numpy.inf", "math.inf")):
                raise Outside("n_frames is None branch")
            for o in st.orelse:
                if isinstance(o, ast.If) and _is_notnone_test(o.test, "stride") and not o.orelse:
                    for a in o.body:
                        if not isinstance(a, ast.Pass):
                            _assign(a, env, tracked)
                elif not isinstance(o, ast.Pass):
                    _assign(o, env, tracked)
            continue
        # early return guard
        if isinstance(st, ast.If) and st.body and isinstance(st.body[0], ast.Return) and not st.orelse \
                and _mentions(st.test, tracked | set(env["__slices__"]) | {k for k in env if not k.startswith("__")}):
            if guard is not None:
                raise Outside("two early returns")
            t = st.test
            if isinstance(t, ast.Compare) and len(t.ops) == 1 and isinstance(t.ops[0], ast.Eq) \
                    and isinstance(t.comparators[0], ast.Constant) and t.comparators[0].value == 0 \
                    and isinstance(t.left, ast.BinOp) and isinstance(t.left.op, ast.Sub):
                guard = ("GDiff0", tr_expr(t.left.left, env), tr_expr(t.left.right, env))
            elif isinstance(t, ast.Compare) and len(t.ops) == 1 and isinstance(t.ops[0], ast.GtE):
                guard = ("GGe", tr_expr(t.left, env), tr_expr(t.comparators[0], env))
            else:
                raise Outside("early-return test %s" % ast.unparse(t))
            continue
        if isinstance(st, (ast.Assign, ast.AugAssign)):
            tgt = st.targets[0] if isinstance(st, ast.Assign) else st.target
            d = _dotted(tgt)
            val = st.value
            if isinstance(st, ast.Assign) and isinstance(val, ast.Call) and _dotted(val.func) == "slice" and d is not None \
                    and len(val.args) == 3:
                env["__slices__"][d] = tuple(tr_expr(a, env) for a in val.args)
                continue
            if d is not None:
                try:
                    _assign(st, env, tracked)
                    continue
                except Outside:
                    # not arithmetic: fine unless it writes the tracked state or computes from it outside a data read
                    if d in tracked or (_mentions(val, tracked | {k for k in env if not k.startswith("__")})
                                        and not _mentions(val, set(env["__slices__"]))):
                        raise
        _field_reads(st, env, fields)
        # anything else must not write the tracked state
        for n in ast.walk(st):
            if isinstance(n, (ast.Assign, ast.AugAssign)):
                tg = n.targets[0] if isinstance(n, ast.Assign) else n.target
                if _dotted(tg) in tracked:
                    raise Outside("assignment to %s inside %s" % (_dotted(tg), type(st).__name__))
    if "coordinates" not in fields:
        raise Outside("coordinates are not read through a slice")
    if guard is None:
        raise Outside("no early return for an empty read")
    a, b, c = fields["coordinates"]
    same = all(fields.get(k) == fields["coordinates"] for k in FIELDS)
    return {"start": a, "stop": b, "step": c, "guard": guard, "newpos": env["self._frame_index"], "same": same}


def _assign(st, env, tracked):
    if isinstance(st, ast.Assign) and len(st.targets) == 1:
        d = _dotted(st.targets[0])
        if d is None:
            raise Outside("assignment target")
        env[d] = tr_expr(st.value, env)
    elif isinstance(st, ast.AugAssign):
        d = _dotted(st.target)
        if d is None or d not in env:
            raise Outside("augmented assignment to %s" % d)
        op = {ast.Add: "Add", ast.Mult: "Mul", ast.Sub: "Sub"}.get(type(st.op))
        if op is None:
            raise Outside("augmented operator")
        v = tr_expr(st.value, env)
        env[d] = (op, env[d], v) if op == "Sub" else _comm(op, env[d], v)
    else:
        raise Outside("statement %s where an assignment was expected" % type(st).__name__)


def psterm(t):
    g = t["guard"]
    return "(mksterm %s %s %s (%s %s %s) %s %s)" % (pexpr(t["start"]), pexpr(t["stop"]), pexpr(t["step"]), g[0], pexpr(g[1]),
                                                   pexpr(g[2]), pexpr(t["newpos"]), "true" if t["same"] else "false")


# ---- loop readers ----------------------------------------------------------------------------------
def _is_frame_call(n, meth):
    return isinstance(n, ast.Call) and _dotted(n.func) == "self." + meth


def _handler_breaks(tr):
    if len(tr.handlers) != 1 or tr.orelse or tr.finalbody:
        raise Outside("try with several handlers / else / finally")
    h = tr.handlers[0]
    if len(h.body) == 1 and isinstance(h.body[0], ast.Break):
        return True
    raise Outside("EOF handler that does not break")


def _skip_loop(st, meth, in_keep_try):
    """for j in range(E): [try: self._read() except: break | self._read()]  ->  (E node, skip_eof)"""
    if not (isinstance(st.iter, ast.Call) and _dotted(st.iter.func) == "range" and len(st.iter.args) == 1 and not st.orelse):
        raise Outside("throw-away loop is not range(<expr>)")
    if len(st.body) != 1:
        raise Outside("throw-away loop body")
    b = st.body[0]
    if isinstance(b, ast.Try):
        if not (len(b.body) == 1 and isinstance(b.body[0], ast.Expr) and _is_frame_call(b.body[0].value, meth)):
            raise Outside("throw-away try body")
        _handler_breaks(b)
        return st.iter.args[0], "SBreakInner"
    if isinstance(b, ast.Expr) and _is_frame_call(b.value, meth):
        return st.iter.args[0], ("SBreakOuter" if in_keep_try else "SEscape")
    raise Outside("throw-away loop body")


def tr_loop_read(fn, meth):
    body = _strip_doc(fn.body)
    iters = None
    loopvar = None
    loop = None
    post = []
    for i, st in enumerate(body):
        if isinstance(st, ast.If) and _is_none_test(st.test, "n_frames") and len(st.body) == 1 and len(st.orelse) == 1:
            a, b = st.body[0], st.orelse[0]
            if isinstance(a, ast.Assign) and isinstance(b, ast.Assign) and _dotted(a.targets[0]) == _dotted(b.targets[0]) \
                    and isinstance(a.value, ast.Call) and _dotted(a.value.func) == "itertools.count" \
                    and isinstance(b.value, ast.Call) and _dotted(b.value.func) == "range" and len(b.value.args) == 1:
                loopvar = _dotted(a.targets[0])
                iters = tr_expr(b.value.args[0], {"n_frames": ("Vn",), "stride": ("Vs",)})
                continue
            raise Outside("frame counter")
        if isinstance(st, ast.For) and loopvar is not None and _dotted(st.iter) == loopvar:
            loop = st
            post = body[i + 1:]
            break
        if isinstance(st, ast.If) and _is_none_test(st.test, "stride"):
            if not (len(st.body) == 1 and isinstance(st.body[0], ast.Assign) and isinstance(st.body[0].value, ast.Constant)
                    and st.body[0].value.value == 1 and not st.orelse):
                raise Outside("stride default")
            continue
        if _mentions(st, {"n_frames", "stride"}) or any(_is_frame_call(n, meth) for n in ast.walk(st)):
            raise Outside("statement before the loop uses n_frames/stride: %s" % ast.unparse(st)[:60])
    if loop is None or iters is None:
        raise Outside("no loop over the frame counter")
    keep_eof = None
    skip = None
    skip_eof = None
    kept = 0
    env = {"stride": ("Vs",), "n_frames": ("Vn",)}
    for st in loop.body:
        if isinstance(st, ast.Try) and any(_is_frame_call(n, meth) for n in ast.walk(ast.Module(body=st.body, type_ignores=[]))):
            _handler_breaks(st)
            first = st.body[0]
            if not (isinstance(first, ast.Assign) and _is_frame_call(first.value, meth)):
                raise Outside("kept frame is not the first statement of the try")
            kept += 1
            keep_eof = "KBreak"
            for inner in st.body[1:]:
                if isinstance(inner, ast.For):
                    if skip is not None:
                        raise Outside("two throw-away loops")
                    e, skip_eof = _skip_loop(inner, meth, True)
                    skip = tr_expr(e, env)
                elif any(_is_frame_call(n, meth) for n in ast.walk(inner)) or any(isinstance(n, (ast.Break, ast.Continue)) for n in ast.walk(inner)):
                    raise Outside("extra frame read / break inside the try")
        elif isinstance(st, ast.Assign) and _is_frame_call(st.value, meth):
            kept += 1
            keep_eof = "KEscape"
        elif isinstance(st, ast.For):
            if skip is not None:
                raise Outside("two throw-away loops")
            e, skip_eof = _skip_loop(st, meth, False)
            skip = tr_expr(e, env)
        elif any(_is_frame_call(n, meth) for n in ast.walk(st)) or any(isinstance(n, (ast.Break, ast.Continue)) for n in ast.walk(st)):
            raise Outside("unrecognised statement in the frame loop: %s" % ast.unparse(st)[:60])
    if kept != 1:
        raise Outside("%d kept frames per iteration" % kept)
    if skip is None:
        skip, skip_eof = ("Cst", 0), "SBreakInner"
    post_step = None
    for st in post:
        for n in ast.walk(st):
            if isinstance(n, ast.Slice) and n.step is not None:
                post_step = tr_expr(n.step, env)
        if any(_is_frame_call(n, meth) for n in ast.walk(st)):
            raise Outside("frame read after the loop")
    return {"iters": iters, "skip": skip, "keep_eof": keep_eof, "skip_eof": skip_eof, "post": post_step}


def plterm(t):
    return "(mklterm %s %s %s %s %s)" % (pexpr(t["iters"]), pexpr(t["skip"]), t["keep_eof"], t["skip_eof"],
                                        "None" if t["post"] is None else "(Some %s)" % pexpr(t["post"]))


# ---- read_as_traj, seek, tell, time ----------------------------------------------------------------
def _kw_passed(call, name, pos=None):
    for k in call.keywords:
        if k.arg == name:
            return isinstance(k.value, ast.Name) and k.value.id == name
    return False


def tr_read_as_traj(fn, frame_meth_fn):
    body = _strip_doc(fn.body)
    call = None
    call_idx = None
    for i, st in enumerate(body):
        for n in ast.walk(st):
            if isinstance(n, ast.Call) and _dotted(n.func) == "self.read":
                if call is not None:
                    raise Outside("two calls of self.read")
                call, call_idx = n, i
    if call is None:
        raise Outside("read_as_traj does not call self.read")
    reassigned = set()
    for st in body[:call_idx]:
        for n in ast.walk(st):
            if isinstance(n, (ast.Assign, ast.AugAssign)):
                tg = n.targets[0] if isinstance(n, ast.Assign) else n.target
                if _dotted(tg) in ("n_frames", "stride", "atom_indices"):
                    reassigned.add(_dotted(tg))
    p = {k: (_kw_passed(call, k) and k not in reassigned) for k in ("n_frames", "stride", "atom_indices")}
    subset = False
    for st in body:
        if isinstance(st, ast.If) and _mentions(st.test, {"atom_indices"}):
            for n in ast.walk(ast.Module(body=st.body, type_ignores=[])):
                if isinstance(n, ast.Assign) and _dotted(n.targets[0]) == "topology" and isinstance(n.value, ast.Call) \
                        and (_dotted(n.value.func) or "").endswith("topology.subset") and n.value.args \
                        and _dotted(n.value.args[0]) == "atom_indices":
                    subset = True
    # time
    synth = any(isinstance(n, ast.Call) and (_dotted(n.func) or "").endswith("arange") for n in ast.walk(fn))
    if not synth:
        tt = "TStored"
    else:
        init_idx = None
        for i, st in enumerate(body):
            if isinstance(st, ast.Assign) and _dotted(st.targets[0]) == "initial":
                v = st.value
                if isinstance(v, ast.Call) and _dotted(v.func) == "int":
                    v = v.args[0]
                if _dotted(v) == "self._frame_index":
                    init_idx = i
        before = init_idx is not None and init_idx < call_idx
        formula = False
        for st in body:
            if isinstance(st, ast.Assign) and _dotted(st.targets[0]) == "time":
                v = st.value
                if isinstance(v, ast.BinOp) and isinstance(v.op, ast.Add):
                    parts = [v.left, v.right]
                    ini = [x for x in parts if _dotted(x) == "initial"]
                    mul = [x for x in parts if isinstance(x, ast.BinOp) and isinstance(x.op, ast.Mult)]
                    if len(ini) == 1 and len(mul) == 1:
                        ms = [mul[0].left, mul[0].right]
                        has_s = any(_dotted(x) == "stride" for x in ms)
                        has_ar = any(isinstance(x, ast.Call) and (_dotted(x.func) or "").endswith("arange") and len(x.args) == 1
                                     and isinstance(x.args[0], ast.Call) and _dotted(x.args[0].func) == "len" for x in ms)
                        formula = has_s and has_ar
        incr = False
        if frame_meth_fn is not None:
            assigns = [n for n in ast.walk(frame_meth_fn) if isinstance(n, (ast.Assign, ast.AugAssign))
                       and _dotted(n.targets[0] if isinstance(n, ast.Assign) else n.target) == "self._frame_index"]
            incr = (len(assigns) == 1 and isinstance(assigns[0], ast.AugAssign) and isinstance(assigns[0].op, ast.Add)
                    and isinstance(assigns[0].value, ast.Constant) and assigns[0].value.value == 1)
        tt = "(TSynth %s %s %s)" % tuple("true" if x else "false" for x in (before, formula, incr))
    return "(mkpterm %s %s %s %s)" % tuple("true" if x else "false" for x in (p["n_frames"], p["stride"], p["atom_indices"], subset)), tt


def tr_seek(fn, meth):
    body = _strip_doc(fn.body)
    if len(body) == 1 and isinstance(body[0], ast.Raise):
        return "KRaises"
    src = ast.unparse(fn)
    # whence == 0 and offset >= 0: self._frame_index = offset
    for n in ast.walk(fn):
        if isinstance(n, ast.If) and "whence == 0" in ast.unparse(n.test) and "offset >= 0" in ast.unparse(n.test):
            if len(n.body) == 1 and isinstance(n.body[0], ast.Assign) and _dotted(n.body[0].targets[0]) == "self._frame_index" \
                    and _dotted(n.body[0].value) == "offset":
                return "KAssign"
            if len(n.body) == 1 and isinstance(n.body[0], ast.If):
                i2 = n.body[0]
                # if offset >= self._frame_index: advance = <expr>  else: absolute = <expr>
                t2 = i2.test
                if not (isinstance(t2, ast.Compare) and len(t2.ops) == 1 and isinstance(t2.ops[0], (ast.GtE, ast.Gt))
                        and _dotted(t2.left) == "offset" and _dotted(t2.comparators[0]) == "self._frame_index"
                        and len(i2.body) == 1 and len(i2.orelse) == 1
                        and isinstance(i2.body[0], ast.Assign) and _dotted(i2.body[0].targets[0]) == "advance"
                        and isinstance(i2.orelse[0], ast.Assign) and _dotted(i2.orelse[0].targets[0]) == "absolute"):
                    raise Outside("seek: advance / absolute computation")
                strict = isinstance(t2.ops[0], ast.Gt)
                senv = {"offset": ("Vo",), "self._frame_index": ("Vi",)}
                adv_e = tr_expr(i2.body[0].value, senv)
                abs_e = tr_expr(i2.orelse[0].value, senv)
                adv = abs_ = False
                for m in ast.walk(fn):
                    if isinstance(m, ast.If) and ast.unparse(m.test) == "advance is not None":
                        adv = (len(m.body) == 1 and isinstance(m.body[0], ast.For) and ast.unparse(m.body[0].iter) == "range(advance)"
                               and len(m.body[0].body) == 1 and isinstance(m.body[0].body[0], ast.Expr)
                               and _is_frame_call(m.body[0].body[0].value, meth))
                        for o in m.orelse:
                            if isinstance(o, ast.If) and ast.unparse(o.test) == "absolute is not None":
                                resets = any(ast.unparse(x) == "self._frame_index = 0" for x in o.body)
                                loops = [x for x in o.body if isinstance(x, ast.For)]
                                abs_ = (resets and len(loops) == 1 and ast.unparse(loops[0].iter) == "range(absolute)"
                                        and len(loops[0].body) == 1 and isinstance(loops[0].body[0], ast.Expr)
                                        and _is_frame_call(loops[0].body[0].value, meth))
                if adv and abs_:
                    return "(KByReading %s %s %s)" % ("true" if strict else "false", pexpr(adv_e), pexpr(abs_e))
                raise Outside("seek: reading loops")
    raise Outside("seek: unrecognised shape (%d chars)" % len(src))


def tr_tell(fn):
    body = _strip_doc(fn.body)
    if len(body) == 1 and isinstance(body[0], ast.Return):
        v = body[0].value
        if isinstance(v, ast.Call) and _dotted(v.func) == "int":
            v = v.args[0]
        return _dotted(v) == "self._frame_index"
    return False


def tr_loader(fn):
    w = [st for st in fn.body if isinstance(st, ast.With)]
    if len(w) != 1:
        raise Outside("loader without a single with-block")
    ifs = [st for st in w[0].body if isinstance(st, ast.If) and _is_notnone_test(st.test, "frame")]
    rets = [st for st in w[0].body if isinstance(st, ast.Return)]
    if len(ifs) != 1 or len(rets) != 1:
        raise Outside("loader: frame test / return")
    i = ifs[0]
    bsrc = [ast.unparse(x) for x in i.body]
    osrc = [ast.unparse(x) for x in i.orelse]
    seek = "f.seek(frame)" in bsrc
    n1 = "n_frames = 1" in bsrc
    nn = osrc == ["n_frames = None"]
    call = rets[0].value
    if not (isinstance(call, ast.Call) and _dotted(call.func) == "f.read_as_traj"):
        raise Outside("loader does not return f.read_as_traj(...)")
    if not _kw_passed(call, "n_frames"):
        n1 = nn = False
    return "(mkdterm %s %s %s %s %s)" % tuple("true" if x else "false" for x in
                                             (seek, n1, nn, _kw_passed(call, "stride"), _kw_passed(call, "atom_indices")))


# ---- glue: iterload, load ---------------------------------------------------------------------------
def _skip_stride_slice(sub):
    s = sub.slice
    return (isinstance(s, ast.Slice) and _dotted(s.lower) == "skip" and s.upper is None and _dotted(s.step) == "stride")


def tr_iterload(fn):
    body = _strip_doc(fn.body)
    pops = {}
    for st in body:
        if isinstance(st, ast.Assign):
            m = re.match(r"^(?:cast_indices\()?kwargs\.pop\('(\w+)', (.+?)\)\)?$", ast.unparse(st.value))
            if m:
                pops[_dotted(st.targets[0])] = (m.group(1), m.group(2))
    if pops.get("stride") != ("stride", "1") or pops.get("skip") != ("skip", "0") or pops.get("atom_indices", ("", ""))[0] != "atom_indices":
        raise Outside("iterload: stride/skip/atom_indices are not popped from kwargs with defaults 1/0/None")
    chain = [st for st in body if isinstance(st, ast.If) and ast.unparse(st.test) == "chunk == 0"]
    if len(chain) != 1:
        raise Outside("iterload: no `if chunk == 0` chain")
    c0 = chain[0]
    # chunk == 0
    ys = [n for n in ast.walk(ast.Module(body=c0.body, type_ignores=[])) if isinstance(n, ast.Yield)]
    if len(ys) != 1 or not isinstance(ys[0].value, ast.Subscript) or not isinstance(ys[0].value.value, ast.Call) \
            or _dotted(ys[0].value.value.func) != "load":
        raise Outside("iterload: chunk == 0 branch")
    g0_ai = _kw_passed(ys[0].value.value, "atom_indices")
    g0_sl = _skip_stride_slice(ys[0].value)
    # .pdb branch
    if len(c0.orelse) != 1 or not isinstance(c0.orelse[0], ast.If) or ".pdb" not in ast.unparse(c0.orelse[0].test):
        raise Outside("iterload: .pdb branch")
    pb = c0.orelse[0]
    gp_ai = gp_sl = gp_ch = False
    tname = None
    for st in pb.body:
        if isinstance(st, ast.Assign) and isinstance(st.value, ast.Subscript) and isinstance(st.value.value, ast.Call) \
                and _dotted(st.value.value.func) == "load":
            tname = _dotted(st.targets[0])
            gp_ai = _kw_passed(st.value.value, "atom_indices") and not any(k.arg in ("stride",) for k in st.value.value.keywords)
            gp_sl = _skip_stride_slice(st.value)
        elif isinstance(st, ast.Assign) and isinstance(st.value, ast.Call) and _dotted(st.value.func) == "load":
            tname = _dotted(st.targets[0])       # as found: load(filename, stride=stride, atom_indices=atom_indices), no slice
            gp_ai = _kw_passed(st.value, "atom_indices")
        elif isinstance(st, ast.For) and tname is not None:
            gp_ch = (ast.unparse(st.iter) == "range(0, len(%s), chunk)" % tname and len(st.body) == 1
                     and ast.unparse(st.body[0]) == "yield %s[i:i + chunk]" % tname and ast.unparse(st.target) == "i")
    # the chunked branch: last else of the chain
    cur = pb
    while len(cur.orelse) == 1 and isinstance(cur.orelse[0], ast.If):
        cur = cur.orelse[0]
    gen = cur.orelse
    withs = [st for st in gen if isinstance(st, ast.With)]
    if len(withs) != 1:
        raise Outside("iterload: chunked branch is not one with-block")
    wb = withs[0].body
    fname = _dotted(withs[0].items[0].optional_vars)
    guard, arg_skip = "CAlways", False
    seen_seek = False
    loopst = None
    for st in wb:
        if isinstance(st, ast.If) and any(isinstance(n, ast.Call) and _dotted(n.func) == fname + ".seek" for n in ast.walk(st)):
            t = ast.unparse(st.test)
            guard = {"skip > 0": "CGt0", "skip >= 0": "CGe0", "skip > 1": "CGt1", "skip != 0": "CGt0", "skip": "CGt0"}.get(t)
            if guard is None:
                raise Outside("iterload: seek guard %s" % t)
            if not (len(st.body) == 1 and not st.orelse):
                raise Outside("iterload: seek branch")
            arg_skip = ast.unparse(st.body[0]) == "%s.seek(skip)" % fname
            seen_seek = True
        elif isinstance(st, ast.Expr) and isinstance(st.value, ast.Call) and _dotted(st.value.func) == fname + ".seek":
            arg_skip = ast.unparse(st) == "%s.seek(skip)" % fname
            seen_seek = True
        elif isinstance(st, ast.While):
            if loopst is not None or ast.unparse(st.test) != "True":
                raise Outside("iterload: loop")
            if not seen_seek:
                guard, arg_skip = "CGt1", False       # a loop that never seeks: cannot honour skip
            loopst = st
        elif any(isinstance(n, ast.Call) and (_dotted(n.func) or "").startswith(fname + ".") for n in ast.walk(st)):
            raise Outside("iterload: extra call on the file object")
    if loopst is None:
        raise Outside("iterload: no while True loop")
    calls = [n for n in ast.walk(loopst) if isinstance(n, ast.Call) and _dotted(n.func) == fname + ".read_as_traj"]
    if not calls:
        raise Outside("iterload: loop does not call read_as_traj")

    def kwv(c, k):
        for kw in c.keywords:
            if kw.arg == k:
                return _dotted(kw.value)
        return None
    rn = all(kwv(c, "n_frames") == "chunk" for c in calls)
    rs = all(kwv(c, "stride") == "stride" for c in calls)
    ra = all(kwv(c, "atom_indices") == "atom_indices" for c in calls)
    stop, before = None, False
    seen_stop = False
    for st in loopst.body:
        if isinstance(st, ast.If) and len(st.body) == 1 and isinstance(st.body[0], (ast.Return, ast.Break)) and not st.orelse:
            t = ast.unparse(st.test)
            stop = {"len(traj) == 0": "StopLen0", "len(traj) < chunk": "StopLtChunk", "not len(traj)": "StopLen0"}.get(t)
            if stop is None:
                raise Outside("iterload: stop test %s" % t)
            seen_stop = True
        elif isinstance(st, ast.Expr) and isinstance(st.value, ast.Yield):
            before = seen_stop
    if stop is None:
        raise Outside("iterload: no stop test")
    b = lambda x: "true" if x else "false"   # noqa: E731
    return "(mkgterm %s %s %s %s %s %s %s %s %s %s %s %s)" % (guard, b(arg_skip), b(rn), b(rs), b(ra), stop, b(before),
                                                            b(g0_ai), b(g0_sl), b(gp_ai), b(gp_sl), b(gp_ch))


def tr_load_multi(fn):
    """md.load: the first file and every later file go through loader(f, **kwargs) with the SAME kwargs
    (no pop/assignment of stride / atom_indices / frame in between), collected in order, joined"""
    src_lines = [ast.unparse(st) for st in fn.body]
    first = None
    loop = None
    for st in ast.walk(fn):
        if isinstance(st, ast.For) and ast.unparse(st.iter) == "filename_or_filenames":
            calls = [n for n in ast.walk(st) if isinstance(n, ast.Call) and _dotted(n.func) == "loader"]
            if calls:
                loop = st
    if loop is None:
        raise Outside("load: no loop over the remaining files")
    lsrc = [ast.unparse(x) for x in loop.body]
    same = "t = loader(f, **kwargs)" in lsrc
    order = "trajectories.append(t)" in lsrc
    # kwargs must not lose stride/atom_indices/frame between the first loader call and the loop
    text = ast.unparse(fn)
    i0 = text.find("t = loader(tmp_file, **kwargs)")
    i1 = text.find("for f in filename_or_filenames")
    if i0 < 0 or i1 < 0:
        raise Outside("load: first loader call")
    mid = text[i0:i1]
    for bad in ("kwargs.pop('stride'", "kwargs.pop('atom_indices'", "kwargs.pop('frame'", "kwargs['stride']", "kwargs['atom_indices']",
                'kwargs.pop("stride"', "del kwargs"):
        if bad in mid:
            same = False
    j = text[i1:]
    if re.search(r"kwargs\.pop\('(stride|atom_indices|frame)'", j.split("\n")[1] if "\n" in j else ""):
        same = False
    pre = text[i1 - 200:i1]
    if re.search(r"kwargs\.pop\('(stride|atom_indices|frame)'", pre):
        same = False
    join = bool(re.search(r"return join\(\s*trajectories", text))
    b = lambda x: "true" if x else "false"   # noqa: E731
    return "(mkmterm %s %s %s)" % (b(same), b(order), b(join))


# ---- list loading: md.load tail, md.join, Trajectory.join's discard block -> lterm / jterm (coq/Load/MultiReflect.v) --------
def _xyz_index(n):
    """trajectories[<who>].xyz[<k>] -> (who, k) with who in {'i', 'i + 1'}"""
    if isinstance(n, ast.Subscript) and isinstance(n.value, ast.Attribute) and n.value.attr == "xyz" \
            and isinstance(n.value.value, ast.Subscript) and _dotted(n.value.value.value) == "trajectories":
        who = ast.unparse(n.value.value.slice)
        try:
            k = ast.literal_eval(n.slice)
        except Exception:
            raise Outside("join: frame index %s" % ast.unparse(n.slice))
        return who, k
    raise Outside("join: %s is not trajectories[..].xyz[..]" % ast.unparse(n))


def tr_join_term(tree):
    fn = _method(tree, "Trajectory", "join")
    blocks = [n for n in ast.walk(fn) if isinstance(n, ast.If) and ast.unparse(n.test) == "discard_overlapping_frames"]
    tests = [n for n in ast.walk(fn) if isinstance(n, ast.If) and "2e-3" in ast.unparse(n.test).replace("0.002", "2e-3")]
    if len(tests) != 1:
        raise Outside("join: %d overlap tests" % len(tests))
    test = tests[0]
    guarded = any(test in list(ast.walk(b)) for b in blocks)
    loops = [n for n in ast.walk(fn) if isinstance(n, ast.For) and test in list(ast.walk(n))]
    if len(loops) != 1 or ast.unparse(loops[0].iter) != "range(len(trajectories) - 1)" or ast.unparse(loops[0].target) != "i":
        raise Outside("join: loop over the junctions")
    names = {}
    for st in loops[0].body:
        if isinstance(st, ast.Assign) and isinstance(st.targets[0], ast.Name):
            try:
                names[st.targets[0].id] = _xyz_index(st.value)
            except Outside:
                pass
    t = test.test
    # np.all(np.abs(x1 - x0) < 2e-3)
    if not (isinstance(t, ast.Call) and _dotted(t.func) in ("np.all", "np.any", "numpy.all", "numpy.any") and len(t.args) == 1):
        raise Outside("join: overlap test %s" % ast.unparse(t))
    j_all = _dotted(t.func).endswith(".all")
    cmp_ = t.args[0]
    if not (isinstance(cmp_, ast.Compare) and len(cmp_.ops) == 1 and isinstance(cmp_.ops[0], ast.Lt)
            and isinstance(cmp_.comparators[0], ast.Constant)):
        raise Outside("join: comparison %s" % ast.unparse(cmp_))
    thr = int(round(float(cmp_.comparators[0].value) * 1e4))
    lhs = cmp_.left
    j_abs = isinstance(lhs, ast.Call) and _dotted(lhs.func) in ("np.abs", "numpy.abs", "abs", "np.absolute") and len(lhs.args) == 1
    diff = lhs.args[0] if j_abs else lhs
    if not (isinstance(diff, ast.BinOp) and isinstance(diff.op, ast.Sub)):
        raise Outside("join: difference %s" % ast.unparse(diff))
    ops = []
    for side in (diff.left, diff.right):
        if isinstance(side, ast.Name) and side.id in names:
            ops.append(names[side.id])
        else:
            ops.append(_xyz_index(side))
    by = dict(ops)
    if set(by) != {"i", "i + 1"}:
        raise Outside("join: the test does not compare trajectories[i] with trajectories[i + 1]")
    fr = lambda k: {-1: "JLast", 0: "JFirst"}.get(k, "JOther")   # noqa: E731
    # the trimming statement
    trims = [st for st in test.body if isinstance(st, ast.Assign)]
    trim = "TrimOther"
    if len(trims) == 1 and len(test.body) == 1 and not test.orelse:
        src = ast.unparse(trims[0]).replace(" ", "")
        if src == "trajectories[i]=trajectories[i][:-1]":
            trim = "TrimLeftLast"
        elif src == "trajectories[i+1]=trajectories[i+1][1:]":
            trim = "TrimRightFirst"
    b = lambda x: "true" if x else "false"   # noqa: E731
    return "(mkjterm %s %s %s %s %d %s %s)" % (fr(by["i"]), fr(by["i + 1"]), b(j_abs), b(j_all), thr, trim, b(guarded))


def tr_load_list_term(tree):
    fn = _function(tree, "load")
    loop = None
    for st in ast.walk(fn):
        if isinstance(st, ast.For) and ast.unparse(st.iter) == "filename_or_filenames" \
                and any(isinstance(n, ast.Call) and _dotted(n.func) == "loader" for n in ast.walk(st)):
            loop = st
    if loop is None:
        raise Outside("load: no loop over the remaining files")
    lsrc = [ast.unparse(x) for x in loop.body]
    same = "t = loader(f, **kwargs)" in lsrc and "(mkmterm true" in tr_load_multi(fn)
    order = "trajectories.append(t)" in lsrc and "trajectories.insert" not in ast.unparse(fn)
    rets = [n for n in ast.walk(fn) if isinstance(n, ast.Return) and isinstance(n.value, ast.Call) and _dotted(n.value.func) == "join"]
    joined = len(rets) == 1 and rets[0].value.args and _dotted(rets[0].value.args[0]) == "trajectories"
    passed = joined and _kw_passed(rets[0].value, "discard_overlapping_frames")
    # the parameter must reach the call unchanged
    for n in ast.walk(fn):
        if isinstance(n, (ast.Assign, ast.AugAssign)):
            tg = n.targets[0] if isinstance(n, ast.Assign) else n.target
            if _dotted(tg) == "discard_overlapping_frames":
                passed = False
    # md.join: functools.reduce(lambda x, y: x.join(y, ..., discard_overlapping_frames=discard_overlapping_frames), trajs)
    jf = _function(tree, "join")
    jb = _strip_doc(jf.body)
    left = False
    if len(jb) == 1 and isinstance(jb[0], ast.Return) and isinstance(jb[0].value, ast.Call) \
            and _dotted(jb[0].value.func) in ("functools.reduce", "reduce") and len(jb[0].value.args) == 2 \
            and isinstance(jb[0].value.args[0], ast.Lambda) and _dotted(jb[0].value.args[1]) == "trajs":
        lam = jb[0].value.args[0]
        a = [x.arg for x in lam.args.args]
        c = lam.body
        if len(a) == 2 and isinstance(c, ast.Call) and _dotted(c.func) == a[0] + ".join" and len(c.args) == 1 \
                and _dotted(c.args[0]) == a[1]:
            left = True
            passed = passed and _kw_passed(c, "discard_overlapping_frames")
    else:
        raise Outside("join: not a single functools.reduce")
    b = lambda x: "true" if x else "false"   # noqa: E731
    return "(mkmlterm %s %s %s %s %s)" % (b(same), b(order), b(bool(joined)), b(bool(passed)), b(left))


def build_gen(repo=None):
    info = {"translated": [], "degraded": {}}
    lines = ["(* GENERATED by harness/props/C02.py from the mdtraj sources on every run. Do not edit. *)",
             "From Coq Require Import List Bool.", "Import ListNotations.",
             "Require Import MD.Load.Model MD.Load.Reflect MD.Load.Reference MD.Load.MultiModel MD.Load.MultiReflect.", ""]
    for key, rel, cls, meth, loader, kind, fams in READERS:
        try:
            tree = ast.parse(_src(rel))
            rd = _method(tree, cls, "read")
            body = ("(BSlice %s)" % psterm(tr_slice_read(rd))) if kind == "slice" else ("(BLoop %s)" % plterm(tr_loop_read(rd, meth)))
            fm = _method(tree, cls, meth) if meth else None
            pt, tt = tr_read_as_traj(_method(tree, cls, "read_as_traj"), fm)
            sk = tr_seek(_method(tree, cls, "seek"), meth or "_read")
            tl = tr_tell(_method(tree, cls, "tell"))
            lines.append("Definition %s_reader : rterm :=\n  mkrterm %s\n    %s %s %s %s." % (key, body, pt, sk, "true" if tl else "false", tt))
            info["translated"].append(key + "_reader")
        except (Outside, SyntaxError, OSError) as e:
            info["degraded"][key + "_reader"] = str(e)
            lines.append("Definition %s_reader : rterm := Reference.%s_reader.  (* degraded: %s *)" % (key, key, str(e).replace("*", "x")[:120]))
        try:
            tree = ast.parse(_src(rel))
            lines.append("Definition %s_loader : dterm := %s." % (key, tr_loader(_function(tree, loader))))
            info["translated"].append(key + "_loader")
        except (Outside, SyntaxError, OSError) as e:
            info["degraded"][key + "_loader"] = str(e)
            lines.append("Definition %s_loader : dterm := Reference.%s_loader.  (* degraded: %s *)" % (key, key, str(e).replace("*", "x")[:120]))
        ok = "[%s]" % "; ".join(fams)
        lines.append("Lemma %s_reader_ok : classified_in %s_reader %s = true.\nProof. vm_compute. reflexivity. Qed." % (key, key, ok))
        lines.append("Lemma %s_time_ok : check_time %s_reader = true.\nProof. vm_compute. reflexivity. Qed." % (key, key))
        lines.append("Lemma %s_loader_ok : check_loader %s_loader = true.\nProof. vm_compute. reflexivity. Qed." % (key, key))
        lines.append("")
    try:
        tree = ast.parse(_src("mdtraj/core/trajectory.py"))
        lines.append("Definition iterload_glue : gterm :=\n  %s." % tr_iterload(_function(tree, "iterload")))
        info["translated"].append("iterload_glue")
    except (Outside, SyntaxError, OSError) as e:
        info["degraded"]["iterload_glue"] = str(e)
        lines.append("Definition iterload_glue : gterm := Reference.iterload_glue.  (* degraded: %s *)" % str(e).replace("*", "x")[:120])
    try:
        tree = ast.parse(_src("mdtraj/core/trajectory.py"))
        lines.append("Definition load_multi : mterm := %s." % tr_load_multi(_function(tree, "load")))
        info["translated"].append("load_multi")
    except (Outside, SyntaxError, OSError) as e:
        info["degraded"]["load_multi"] = str(e)
        lines.append("Definition load_multi : mterm := Reference.load_multi.  (* degraded: %s *)" % str(e).replace("*", "x")[:120])
    for name, ty, ref, fnc in (("join_term", "jterm", "ref_jterm", tr_join_term), ("load_list_term", "mlterm", "ref_mlterm", tr_load_list_term)):
        try:
            tree = ast.parse(_src("mdtraj/core/trajectory.py"))
            lines.append("Definition %s : %s := %s." % (name, ty, fnc(tree)))
            info["translated"].append(name)
        except (Outside, SyntaxError, OSError) as e:
            info["degraded"][name] = str(e)
            lines.append("Definition %s : %s := %s.  (* degraded: %s *)" % (name, ty, ref, str(e).replace("*", "x")[:120]))
    lines += ["Lemma join_term_ok : check_join join_term = true.\nProof. vm_compute. reflexivity. Qed.",
              "Lemma load_list_term_ok : check_list load_list_term = true.\nProof. vm_compute. reflexivity. Qed."]
    lines += ["Lemma iterload_glue_ok : check_glue iterload_glue = true.\nProof. vm_compute. reflexivity. Qed.",
              "Lemma iterload_chunk0_ok : check_glue0 iterload_glue = true.\nProof. vm_compute. reflexivity. Qed.",
              "Lemma iterload_pdb_ok : check_gluepdb iterload_glue = true.\nProof. vm_compute. reflexivity. Qed.",
              "Lemma load_multi_ok : check_multi load_multi = true.\nProof. vm_compute. reflexivity. Qed.", ""]
    return "\n".join(lines), info


def translate(ctx):
    text, info = build_gen()
    ctx.write_gen("Gen/LoadReaders.v", text)
    ctx.notes.setdefault("coverage_extra", {})["translator"] = {
        "translated": info["translated"], "degraded": info["degraded"],
        "reflection_lemmas_in_Gen": len(re.findall(r"^Lemma ", text, re.M))}
    if info["degraded"]:
        ctx.notes["translator"] = "degraded: %s" % info["degraded"]
        ctx.log("translator degraded for", info["degraded"])
