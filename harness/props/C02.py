"""C02 - partial loading equals slicing the fully loaded trajectory.

Model: coq/Load/Model.v (reader families with their strided-read arithmetic, load / load_frame /
iterload / load([..]) composed as in mdtraj/core/trajectory.py); theorems coq/Props/C02.v.

Tie: every case is run through mdtraj's public API on real files of every readable format and compared,
inside coqc, (a) with the property itself (spec_load / spec_iterload / spec_load_list = slicing the
full load) and (b) with the reader-family variants assigned to the format.  Per format some combination
(reader variant, glue variant) must reproduce the implementation on ALL cases of the run; a deviation
from the property that the recorded as-found variant predicts is a known finding, anything else a
violation.  Time, unit cell and topology atoms of every returned frame are compared in Python with the
same frame of the full load of the same file (integers after canonicalisation).
"""
import itertools

from common import clist, cnat

LEVEL = "proof"
THEOREMS = "Props/C02.v"
EXTS = ["xtc", "trr", "dcd", "dtr"]
RULE = ("cases = (format, api in {load(stride,frame), load_frame, iterload(chunk,stride,skip), load([files],stride)}, "
        "T, stride>=1, chunk>=0, skip in [0,T], frame in [0,T), atom_indices in {None, single first/middle/last atom, "
        "first+last, contiguous blocks, evenly strided, irregular incl. sets that look evenly spaced from their end points, repeated "
        "gaps, all atoms - derived per atom count}, 1..3 files) on files "
        "whose configuration rotates from case to case through atom counts {1,3,4,10,13,20} x written with/without unit cell "
        "(lammpstrj, dtr always with cell); "
        "thorough: exhaustive for T<=8, chunk 0..9, stride 1..4, skip 0..T (atom subset and file configuration rotate with the case); "
        "quick: fixed witnesses + seeded sample; a case is non-trivial when stride>1 or skip>0 or an atom subset "
        "or a frame is given; distinct by hash of the case")
TRUSTED = ["harness/impl/load_impl.py (writes the files, maps frames/atoms/time/cell to identifiers, forks per batch)",
           "generator and verdict logic harness/props/C02.py; model-vs-implementation comparison is vm_compute inside coqc",
           "byte-level I/O of PyTables, netCDF, xdrfile, dcdplugin, dtrplugin (frames are opaque identifiers)"]
ASSUMPTIONS = ["files have 1 <= T < 100 frames, so XTC/TRR read() uses one read-ahead chunk",
               "a frame is identified by xyz (all atoms agree), atoms by their y coordinate; garbage frames handed out by a "
               "diverging reader are wildcards in the comparison",
               "stride >= 1, skip <= T, frame < T, atom_indices strictly increasing proper subsets (the quantifier of C02)"]

SPEC = 100
VNAME = {0: "arr_cur(h5)", 1: "arr_fix(h5)", 2: "nc", 3: "seq", 4: "xtc_cur", 5: "trr", 6: "gro_cur", 7: "dtr_cur",
         8: "arc_cur", 9: "pdb_cur", 10: "seq_noseek", 11: "pdb_fix", 100: "spec"}
# format -> acceptable reader variants, repaired / conforming first, as-found last
FORMATS = {
    "h5": [1, 0], "nc": [2], "dcd": [3], "mdcrd": [3], "xyz": [3], "xyz.gz": [3], "lammpstrj": [3],
    "xtc": [5, 4], "trr": [5], "gro": [3, 10, 6], "dtr": [2, 7], "arc": [3, 10, 8], "pdb": [11, 9], "pdb.gz": [11, 9],
}
N_ATOMS = 4
# configuration axes of the files themselves (rotated from case to case, never a full product):
# atom counts (mdcrd writes 10 numbers per line, xtc switches codec above 9 atoms) x file written with / without unit cell
CONFIGS = [(4, True), (10, False), (1, True), (20, True), (3, False), (13, True),
           (10, True), (4, False), (20, False), (13, False), (1, False), (3, True)]
NEEDS_CELL = ("lammpstrj", "dtr")          # their writers refuse a trajectory without unit cell


def ais_for(n):
    """atom_indices choices for a file with n atoms: None plus strictly increasing selections of several shapes
    (single atom first/middle/last, first+last, contiguous blocks, evenly strided sets, irregular sets - among them
    sets that look evenly spaced when judged from their first two and last elements -, repeated gaps, all atoms)"""
    out = [None]

    def add(xs):
        xs = [int(x) for x in xs]
        if xs and all(0 <= x < n for x in xs) and all(a < b for a, b in zip(xs, xs[1:])) and xs not in out:
            out.append(xs)
    add([0]); add([n - 1]); add([n // 2]); add([0, n - 1])                  # single atoms, first and last only
    add(range(1, min(n, 4))); add(range(max(0, n - 3), n)); add(range(2, 7))   # contiguous blocks
    add(range(0, n, 2)); add(range(1, n, 3)); add(range(2, n, 4))            # evenly strided
    add([0, 2, 3, 6]); add([3, 5, 6, 8, 11]); add([1, 4, 5, 10]); add([2, 4, 7, 8]); add([0, 3, 4, 9])   # look even from the ends
    add([4, 8, 9, 10, 11, 12, 13, 14, 15, 16]); add([0, 5, 6, 15])           # (same, only valid for 20 atoms)
    add([0, 1, 4, 5, 8, 9]); add([0, 3, 4, 7]); add([1, 2, 5, 6, 9])         # repeated gaps
    add([1, n - 2]); add([0, 2, n - 1]); add([0, 1, n - 1]); add([1, 3, 4])  # irregular
    add(range(n))                                                            # all atoms, in order
    return out


def config(fmt, i):
    n, cell = CONFIGS[i % len(CONFIGS)]
    if fmt in NEEDS_CELL or (fmt == "mdcrd" and n == 1):
        # one-atom mdcrd without box is ambiguous in the format itself (a 3-number line looks like a box line)
        cell = True
    return n, cell


# ---------------------------------------------------------------------------------------------- cases
_rot = itertools.count()


def mk(fmt, kind, Ts, chunk=0, stride=1, skip=0, frame=None, ai=0, n_atoms=None):
    """ai = index into ais_for(n_atoms) (or an explicit list together with n_atoms); the file configuration rotates
    with every case that is built"""
    T = Ts[0]
    i = next(_rot)
    n, cell = config(fmt, i // 4)
    if n_atoms is not None:
        n = n_atoms
    if isinstance(ai, int):
        choices = ais_for(n)
        sel = choices[ai % len(choices)]
    else:
        sel = ai
    return {"fmt": fmt, "kind": kind, "Ts": list(Ts), "chunk": chunk, "stride": stride, "skip": skip, "frame": frame,
            "ai": sel, "limit": T + 3, "n_atoms": n, "cell": cell,
            "isolate": bool(fmt == "trr" and stride > 1 and sel is not None)}


def witnesses():
    """the historical witnesses, always run first (10-frame files)"""
    out = []
    for fmt in FORMATS:
        out += [mk(fmt, "iterload", [10], 3, 2, 0), mk(fmt, "iterload", [10], 2, 3, 1), mk(fmt, "iterload", [10], 4, 1, 10),
                mk(fmt, "iterload", [10], 0, 2, 3, ai=2), mk(fmt, "iterload", [10], 5, 2, 0, ai=3),
                mk(fmt, "load", [10], stride=3), mk(fmt, "load", [10], stride=3, ai=2),
                mk(fmt, "load", [10], stride=4, frame=4), mk(fmt, "load_frame", [10], frame=4),
                mk(fmt, "load_frame", [10], frame=9, ai=1), mk(fmt, "load_list", [3, 2, 4], stride=2, ai=3),
                # irregular selections that look evenly spaced from their end points, evenly strided, block, all atoms
                mk(fmt, "load", [4], stride=1, ai=[0, 2, 3, 6], n_atoms=13),
                mk(fmt, "iterload", [7], 3, 2, 1, ai=[3, 5, 6, 8, 11], n_atoms=20),
                mk(fmt, "load_frame", [5], frame=3, ai=[1, 4, 5, 10], n_atoms=13),
                mk(fmt, "iterload", [6], 2, 1, 0, ai=[0, 3, 6, 9], n_atoms=10),
                mk(fmt, "load", [5], stride=2, ai=[2, 3, 4, 5, 6], n_atoms=10),
                mk(fmt, "load_list", [2, 3], stride=1, ai=list(range(13)), n_atoms=13)]
    return out


def exhaustive(fmts=None, Tmax=8):
    out = []
    rot = itertools.count()
    for fmt in (fmts or FORMATS):
        for T in range(1, Tmax + 1):
            for c in range(0, 10):
                for s in range(1, 5):
                    for k in range(0, T + 1):
                        out.append(mk(fmt, "iterload", [T], c, s, k, ai=next(rot)))
            for s in range(1, 5):
                for _j in range(6):
                    out.append(mk(fmt, "load", [T], stride=s, ai=next(rot)))
            for fr in range(T):
                for s in (1, 3):
                    out.append(mk(fmt, "load", [T], stride=s, frame=fr, ai=next(rot)))
                out.append(mk(fmt, "load_frame", [T], frame=fr, ai=next(rot)))
        sizes = [1, 2, 3, 5]
        for n in (1, 2, 3):
            for Ts in itertools.product(sizes, repeat=n):
                for s in (1, 2, 3):
                    out.append(mk(fmt, "load_list", list(Ts), stride=s, ai=next(rot)))
    return out


def sampled(rng, per_fmt):
    out = []
    for fmt in FORMATS:
        for _ in range(per_fmt):
            T = rng.choice([1, 2, 3, 4, 5, 6, 7, 8, 8, 9])
            ai = rng.randrange(1000)
            r = rng.random()
            if r < 0.6:
                c = rng.choice([0, 1, 1, 2, 3, 3, 4, 5, 6, 7, T, T + 1, 9])
                out.append(mk(fmt, "iterload", [T], c, rng.randint(1, 4), rng.randint(0, T), ai=ai))
            elif r < 0.75:
                out.append(mk(fmt, "load", [T], stride=rng.randint(1, 4), ai=ai))
            elif r < 0.82:
                out.append(mk(fmt, "load", [T], stride=rng.randint(1, 4), frame=rng.randrange(T), ai=ai))
            elif r < 0.9:
                out.append(mk(fmt, "load_frame", [T], frame=rng.randrange(T), ai=ai))
            else:
                n = rng.randint(1, 3)
                out.append(mk(fmt, "load_list", [rng.randint(1, 5) for _ in range(n)], stride=rng.randint(1, 3), ai=ai))
    return out


def build_cases(ctx):
    cases = witnesses()
    if ctx.tier == "quick":
        cases += sampled(ctx.rng, 45)
    else:
        cases += exhaustive() + sampled(ctx.rng, 60)
    return cases


def nontrivial(c):
    return c["stride"] > 1 or c["skip"] > 0 or c["ai"] is not None or c["frame"] is not None or len(c["Ts"]) > 1


# ---------------------------------------------------------------------------------------------- coq text
KIND = {"load": 0, "load_frame": 1, "iterload": 2, "load_list": 3}


def coq_case(c, v, g):
    fr = "None" if c["frame"] is None else "(Some %s)" % cnat(c["frame"])
    return "(mkcase %s %s %s %s %s %s %s %s %s %s)" % (
        cnat(v), cnat(g), cnat(KIND[c["kind"]]), clist([cnat(t) for t in c["Ts"]]), cnat(c["chunk"]), cnat(c["stride"]),
        cnat(c["skip"]), fr, "true" if c["ai"] is not None else "false", cnat(c["limit"] + 1))


def coq_frames(fo):
    return clist(["(%s, %s)" % (cnat(i if i >= 0 else 98), "true" if fl else "false") for i, fl in fo])


def coq_outcome(r):
    """observation of the implementation as a Coq term of type outcome; None when it cannot be expressed"""
    err = r.get("err")
    if "traj" in r:
        return "([%s], 0)" % coq_frames(r["traj"]["frames"])
    chunks = clist([coq_frames(ch["frames"]) for ch in r.get("chunks", [])])
    if err is None:
        return "(%s, 0)" % chunks
    if err in ("NonTermination", "Timeout"):
        return "(%s, 2)" % chunks
    if err in ("Crash", "HarnessStreamLost"):
        return "(%s, 3)" % chunks
    return "(%s, 1)" % chunks


def path_of(c):
    if c["kind"] == "iterload" and c["chunk"] == 0:
        return "chunk0"
    if c["kind"] == "iterload" and c["fmt"] in ("pdb", "pdb.gz"):
        return "pdbiter"
    return "reader"


def glue_choices(c):
    p = path_of(c)
    if p == "chunk0":
        return [0, 1]
    if p == "pdbiter":
        return [0, 2]
    return [0]


def flat(r):
    if "traj" in r:
        return [tuple(x) for x in r["traj"]["frames"]]
    return [tuple(x) for ch in r.get("chunks", []) for x in ch["frames"]]


def classify(c, r, spec_frames):
    """defect class of a deviation from the property"""
    err = r.get("err")
    if err in ("NonTermination", "Timeout"):
        return "diverges"
    if err in ("Crash", "HarnessStreamLost"):
        return "crash"
    if err is not None:
        got = flat(r)
        if not got:
            return "refuses"
        if got == spec_frames:
            return "raises_at_end"
        return "raises_midway" if got == spec_frames[:len(got)] else "wrong_frames"
    return "wrong_chunk_sizes" if flat(r) == spec_frames else "wrong_frames"


def spec_flat(c):
    """the frames the property promises, flattened (Python mirror used ONLY to name the defect class in the
    report; the verdict itself comes from the Coq comparison)"""
    fl = 1 if c["ai"] is not None else 0
    if c["kind"] == "load_list":
        out = []
        for j, T in enumerate(c["Ts"]):
            out += [(10 * j + i, fl) for i in range(0, T, c["stride"])]
        return out
    T = c["Ts"][0]
    if c["kind"] == "load_frame" or (c["kind"] == "load" and c["frame"] is not None):
        return [(c["frame"], fl)]
    if c["kind"] == "load":
        return [(i, fl) for i in range(0, T, c["stride"])]
    return [(i, fl) for i in range(c["skip"], T, c["stride"])]


# ---------------------------------------------------------------------------------------------- run
def run_cases(ctx, cases, replaying=False):
    workers = 4
    res = ctx.run_impl("load_impl.py", {"workers": workers, "cases": cases, "probe_trr": True}, timeout=3000)
    outs = res["results"]
    ctx.log("implementation ran %d cases" % len(cases))
    # ---- heap-overflow probe (trr, stride>1 with an atom subset)
    pr = res.get("probe_trr") or {}
    if pr.get("signaled") or (pr.get("exit") not in (0, None)):
        ctx.fail("trr: read(stride>1, atom_indices=subset) corrupts the heap (child process aborted)",
                 {"fmt": "trr", "kind": "load", "Ts": [6], "chunk": 0, "stride": 2, "skip": 0, "frame": None, "ai": [0],
                  "limit": 9, "isolate": True, "probe": True, "n_atoms": 4, "cell": True},
                 observed=pr, expected="process exits normally", tags={"fmt": "trr", "kind": "memory_unsafe"})
    # ---- model / property comparison inside coqc
    jobs, coqcases = [], []
    expressible = []
    for ci, (c, r) in enumerate(zip(cases, outs)):
        if c.get("probe"):
            expressible.append(False)
            continue
        if c.get("isolate") and r.get("err") == "Crash":
            ctx.fail("trr: read(stride>1, atom_indices=subset) corrupts the heap (child process aborted)", c,
                     observed=r, expected="frames", tags={"fmt": "trr", "kind": "memory_unsafe"})
            expressible.append(False)
            continue
        expressible.append(True)
        exp = coq_outcome(r)
        if c.get("isolate"):
            # the memory-unsafe class (trr, stride>1, atom subset): the overflow may also corrupt the data that is
            # returned, so these cases are compared with the property only and take no part in the tie
            jobs.append((ci, SPEC, 0))
            coqcases.append((coq_case(c, SPEC, 0), exp))
            continue
        for v in FORMATS[c["fmt"]] + [SPEC]:
            for g in (glue_choices(c) if v != SPEC else [0]):
                jobs.append((ci, v, g))
                coqcases.append((coq_case(c, v, g), exp))
    # ctx.coq_mismatches numbers the cases with (unary) nat literals: keep every call below 4000 cases so
    # that the indices stay small (one call with ~100k cases spends its time building the indices)
    bad, errs = [], []
    B = 3200
    for off in range(0, len(coqcases), B):
        b, e = ctx.coq_mismatches(["MD.Load.Model"], ("xcase", "outcome"), "outcome_eqb", "run_case",
                                  coqcases[off:off + B])
        bad += [off + i for i in b]
        errs += e
        if e:
            break
    if errs:
        ctx.break_("correspondence:coqc-evaluation", "\n".join(errs))
        return
    badset = {jobs[i] for i in bad}
    ctx.log("coq evaluated %d (case, variant) pairs" % len(coqcases))

    def ok(ci, v, g):
        c = cases[ci]
        if v == SPEC:
            return (ci, SPEC, 0) not in badset
        gg = g & (1 if path_of(c) == "chunk0" else 2 if path_of(c) == "pdbiter" else 0)
        return (ci, v, gg) not in badset

    # 1. the tie: per format one (reader variant, glue) reproduces the implementation on ALL its cases
    explained = {}
    for fmt, variants in FORMATS.items():
        idx = [i for i, c in enumerate(cases) if c["fmt"] == fmt and expressible[i] and not c.get("isolate")]
        if not idx:
            continue
        choice = None
        for v in variants + [SPEC]:
            for g in (3, 1, 2, 0):
                if all(ok(i, v, g) for i in idx):
                    choice = (v, g)
                    break
            if choice:
                break
        explained[fmt] = choice
        if choice is None:
            def nbad(vg):
                return sum(not ok(i, vg[0], vg[1]) for i in idx)
            worst = min(((v, g) for v in variants for g in (0, 1, 2, 3)), key=nbad)
            ex = sorted([i for i in idx if not ok(i, worst[0], worst[1])], key=lambda i: len(str(cases[i])))
            ctx.break_("correspondence:load-model[%s]" % fmt,
                       "no model variant of %s reproduces the implementation; closest %s/glue%d fails on %d cases, e.g. %s -> %s"
                       % ([VNAME[v] for v in variants], VNAME[worst[0]], worst[1], len(ex), cases[ex[0]],
                          str(outs[ex[0]])[:600]))
            ctx.notes.setdefault("tie_examples", []).append({"case": cases[ex[0]], "impl": outs[ex[0]]})
    def vgname(f, vg):
        if vg is None:
            return None
        s = "%s + chunk0_%s" % (VNAME[vg[0]], "fix" if vg[1] & 1 else "cur")
        if f in ("pdb", "pdb.gz"):
            s += " + pdbiter_%s" % ("fix" if vg[1] & 2 else "cur")
        return s
    ctx.notes.setdefault("coverage_extra", {})["model_variant_matching_impl"] = {
        f: vgname(f, vg) for f, vg in explained.items()}
    # 2. the property
    for ci, (c, r) in enumerate(zip(cases, outs)):
        if c.get("probe"):
            continue
        ctx.count({k: c.get(k) for k in ("fmt", "kind", "Ts", "chunk", "stride", "skip", "frame", "ai", "n_atoms", "cell")},
                  nontrivial=nontrivial(c), bucket="%s/%s" % (c["fmt"], c["kind"]))
        cfgs = ctx.notes.setdefault("coverage_extra", {}).setdefault("file_configurations", {})
        ck = "%s atoms=%s cell=%s" % (c["fmt"], c.get("n_atoms", N_ATOMS), c.get("cell", True))
        cfgs[ck] = cfgs.get(ck, 0) + 1
        if not expressible[ci]:
            continue
        fmt = c["fmt"]
        vg = explained.get(fmt)
        diverged = r.get("err") in ("NonTermination", "Timeout")
        if c.get("isolate"):
            trajs = [r["traj"]] if "traj" in r else r.get("chunks", [])
            odd = (ci, SPEC, 0) in badset or any(t.get("time_bad") or t.get("cell_bad") or t.get("top_matches_xyz") is False
                                                 or any(i < 0 for i, _f in t["frames"]) for t in trajs)
            # chunk == 0 drops the stride (known finding of its own): not evidence of the overflow
            if odd and not (path_of(c) == "chunk0"):
                ctx.fail("trr: read(stride>1, atom_indices=subset) corrupts the heap (wrong data returned)", c, observed=r,
                         expected="spec", tags={"fmt": "trr", "kind": "memory_unsafe"})
            continue
        if (ci, SPEC, 0) in badset:
            p = path_of(c)
            # attribution is per case (so that a replay of this case alone gives the same verdict): the
            # variant chosen for the format if it reproduces this case, else the first acceptable one that does
            who = None
            order = ([vg] if vg is not None else []) + [(v, g) for v in FORMATS[fmt] for g in (3, 1, 2, 0)]
            for v, g in order:
                if v == SPEC or not ok(ci, v, g):
                    continue
                if p == "chunk0" and not (g & 1) and not ok(ci, v, 1):
                    who = "chunk0_cur"
                elif p == "pdbiter" and not (g & 2) and not ok(ci, v, 2):
                    who = "pdbiter_cur"
                else:
                    who = VNAME[v]
                break
            kind = classify(c, r, spec_flat(c))
            tags = {"fmt": fmt, "api": c["kind"], "path": p, "explained_by": who, "kind": kind,
                    "skip_all": bool(c["kind"] == "iterload" and c["skip"] >= c["Ts"][0])}
            ctx.fail("%s %s: partial load deviates from slicing the full load [%s, explained by %s]" % (fmt, c["kind"], kind, who),
                     c, observed=r, expected="spec (Coq spec_load/spec_iterload/spec_load_list)", tags=tags)
        # 3. time, cell, topology of the frames that were returned (exact integers, Python side)
        if diverged:
            continue
        trajs = [r["traj"]] if "traj" in r else r.get("chunks", [])
        for t in trajs:
            for name, key in (("time", "time_bad"), ("cell", "cell_bad")):
                if t.get(key):
                    ctx.fail("%s %s: %s of a partially loaded frame differs from the full load" % (fmt, c["kind"], name), c,
                             observed=t[key], expected="[frame id, got, full-load value]",
                             tags={"fmt": fmt, "api": c["kind"], "kind": name + "_wrong",
                                   "with_frame": c["frame"] is not None})
            if t.get("top_matches_xyz") is False:
                ctx.fail("%s %s: topology atoms differ from the atoms of xyz" % (fmt, c["kind"]), c,
                         observed=t.get("top_atoms"), expected="same atoms as xyz",
                         tags={"fmt": fmt, "api": c["kind"], "kind": "topology_wrong"})
            if any(i < 0 for i, _f in t["frames"]):
                ctx.fail("%s %s: a returned frame is not a frame of the file (or has foreign atoms)" % (fmt, c["kind"]), c,
                         observed=t["frames"], expected="frames of the file",
                         tags={"fmt": fmt, "api": c["kind"], "kind": "unidentified_frame",
                               "explained_by": VNAME[vg[0]] if vg else None})


def correspond(ctx):
    cases = build_cases(ctx)
    ctx.log("cases:", len(cases))
    if ctx.tier != "quick":
        ce = ctx.notes.setdefault("coverage_extra", {})
        ce["exhaustive"] = True
        ce["exhaustive_scope"] = ("per format: iterload over T 1..8 x chunk 0..9 x stride 1..4 x skip 0..T; load over T x stride 1..4 x "
                                  "6 atom selections; load(frame)/load_frame over T x every frame; load([..]) over all lists of 1..3 files "
                                  "with sizes in {1,2,3,5} x stride 1..3. The atom subset and the file configuration (atom count in "
                                  "{1,3,4,10,13,20} x with/without unit cell) are NOT product axes: they rotate from case to case "
                                  "(all 48 combinations occur within any 48 consecutive cases).")
    run_cases(ctx, cases)


def search(ctx, broken):
    """A proof or a tie broke and the sampled cases showed no failing input: run the property oracle
    (spec_* evaluated in coqc vs the implementation) on the exhaustive small scope T <= 5 of the formats
    whose tie broke (all formats when a proof broke)."""
    import re
    fmts = set()
    for b in broken:
        m = re.match(r"correspondence:load-model\[(.+)\]", b.get("name", ""))
        if m:
            fmts.add(m.group(1))
    if ctx.tier != "quick" and fmts:
        return          # the thorough tier has already enumerated the scope
    cases = exhaustive(sorted(fmts) or None, Tmax=5 if fmts else 4)
    ctx.log("search: %d cases on %s" % (len(cases), sorted(fmts) or "all formats"))
    n0 = len(ctx.broken)
    run_cases(ctx, cases)
    del ctx.broken[n0:]      # the tie is already recorded as broken; keep one entry per cause


def replay(ctx, rec):
    c = rec["case"]
    run_cases(ctx, [c], replaying=True)
