"""C01 -- save then load reproduces the trajectory in every writable format; files hold native-unit
numbers an independent reader extracts.

Model     coq/Codec/Model.v (text codecs, float32 unit scaling, readers, restart writers),
          coq/Codec/XtcModel.v (XTC integer codec), constants from coq/Gen/CodecTables.v (translator below)
Theorems  coq/Props/C01.v
Tie       every generated trajectory is saved through Trajectory.save in every format;
          (i)   text formats: the model encoder's characters must equal mdtraj's, line by line, and the model
                decoder must extract round_half_even(x*scale*10^p) from mdtraj's lines (inside coqc);
          (ii)  XTC: the Gallina decoder reads mdtraj's file and must return the quantised integers;
          (iii) HDF5/NetCDF/NCRST/TRR/DCD/DTR: arrays read with PyTables/netCDF4/struct (not mdtraj) must be
                exactly the float32 numbers in file units, with the unit attributes;
          (iv)  md.load(save(t)) against t with exact rational arithmetic under the stated precision;
          (v)   loader conversion: what md.load returns must equal GlueModel.from_file_unit of the numbers in the file
                (float32 containers), bit for bit; the save_*/read_as_traj glue itself is regenerated from the AST into
                Gen/CodecTables.v (src_save_glue / src_load_glue / unit factors) and obliged by Props/C01.v;
          (vi)  Gallina readers of the CRYST1 columns and rst7 lines on mdtraj's text;
          (vii) Python-only oracles from the format conventions: LAMMPS BOX BOUNDS, DCD header block and time axis, TRR
                frame headers, HDF5/NetCDF container schemas.
"""
import base64
import os
import re
import struct
from fractions import Fraction as Fr

from common import REPO, cnat, cstr, clist

LEVEL = "proof"
THEOREMS = "Props/C01.v"
EXTRA_TARGETS = ("Codec/Run.vo",)
EXTS = ["xtc", "trr", "dcd", "dtr"]
RULE = ("trajectories are lists of float32 bit patterns drawn per magnitude class (tiny/unit/big/boundary of "
        "_format_83 and of the 8.3 fields/rounding ties/signed zeros/clustered for XTC runs/over the field limit) "
        "x frames 1..6 x atoms {1..30} x cell {none, ortho, triclinic, per-frame} x times {default, non-uniform}; one hot coordinate per decade 1e-3..1e7 nm for both signs and cell lengths per decade 1..1e4 nm (text formats; oracle: refused or "
        "written correctly), the refusal limits of every fixed-width field +-6 ulp; dilute systems whose neighbour spacing "
        "puts the XTC small-size index on every slot of magicints[]; per-frame cell series mixing kinds (ortho->triclinic, triclinic->ortho, one triclinic frame in the middle, a single box "
        "component varying); time stamps given in the constructor / assigned after a time-less construction / re-assigned / "
        "inherited through slice and join; a history axis (object saved / box vectors, volumes, periodic "
        "distances evaluated with an initial cell, then the cell replaced via unitcell_vectors, unitcell_lengths+angles, in-place "
        "and per-frame in-place assignment) before the saves; "
        "each is saved in every extension of Trajectory._savers (gro precision, pdb ter/header/bfactors varied); "
        "a case is one (trajectory, format, options); distinct by hash of all of it; non-trivial when Trajectory.save "
        "wrote the file (refused saves are counted as trivial)")
TRUSTED = ["harness/impl/codec_impl.py (builds the trajectory from bit patterns, calls Trajectory.save/md.load, raw readers "
           "PyTables/netCDF4/struct)",
           "generator and exact-rational comparison (fractions.Fraction) in harness/props/C01.py",
           "Python's %f / format(): correctly rounded on the exact binary value (modelled by py_fmt); float(): correctly rounded",
           "IEEE-754 binary32 multiplication by 10.0 is correctly rounded (modelled by rnd32)",
           "AST translator of the save_*/loader glue (read_glue: local names resolved through the nearest preceding assignment; "
           ".pyx loaders by regular expression) and the unit factors obtained by running mdtraj.utils.unit",
           "Python oracles written from the format conventions, without a Gallina model: LAMMPS BOX BOUNDS (lammps_box_mismatch), "
           "DCD header block/time axis, TRR frame headers, HDF5/NetCDF container schemas (SCHEMA_STD)",
           "NumPy: float32 array times Python float = one float32 product by float32(factor); numpy.ma (NetCDF) forms the product "
           "in binary64 (modelled by f32_mulf / f32_mulf_via64, tied bit for bit on every loaded coordinate)"]
ASSUMPTIONS = ["the XTC constants of the model (magicints[], FIRSTIDX, raw-float limit, magic 1995, precision 1000) are those of the format "
               "standard, hand-written in coq/Codec/XtcModel.v; obligation xtc_format_standard ties /repo's values to them",
               "comparisons of float32 coordinates with the decimal constants of _format_83 are modelled as exact rational "
               "comparisons (no float32 lies between a constant and its binary64/binary32 rounding; checked by the translator)",
               "overflow of binary32 (|x| >= 2^128) and NaN/inf are outside the model",
               "topology text (names, serials) is opaque: only the numeric columns of PDB/GRO/XYZ/LAMMPS lines are modelled",
               "unit cell vectors of XTC/TRR/GRO are compared with the box vectors mdtraj computes for the trajectory's CURRENT "
               "unitcell_lengths/angles on a fresh object (C17 owns the lengths/angles <-> vectors formulas)"]

# precision a format is *stated* to have (format standards; not taken from the translator)
STD = {
    ".mdcrd": ("A", 3), ".crd": ("A", 3), ".xyz": ("A", 3), ".xyz.gz": ("A", 3), ".lammpstrj": ("A", 3),
    ".pdb": ("A", 3), ".pdb.gz": ("A", 3), ".rst7": ("A", 7), ".gro": ("nm", None),
    ".xtc": ("nm", "xtc"), ".trr": ("nm", "bin"), ".h5": ("nm", "bin"), ".dcd": ("A", "bin"), ".dtr": ("A", "bin"),
    ".nc": ("A", "bin"), ".netcdf": ("A", "bin"), ".ncdf": ("A", "bin"), ".ncrst": ("A", "bin"),
}
ALL_EXTS = list(STD)
# container schemas of the format conventions (hand-written from the MDTraj HDF5 1.1 and AMBER NetCDF 1.0 specifications)
SCHEMA_STD = {
    ".h5": {"conv": ["Pande", "1.1"], "w": {"coordinates": 32, "time": 32, "cell_lengths": 32, "cell_angles": 32}},
    ".nc": {"conv": ["AMBER", "1.0"], "w": {"coordinates": 32, "time": 32, "cell_lengths": 64, "cell_angles": 64},
            "dims": {"coordinates": ["frame", "atom", "spatial"], "time": ["frame"], "cell_lengths": ["frame", "cell_spatial"],
                     "cell_angles": ["frame", "cell_angular"]},
            "labels": {"spatial": "xyz", "cell_spatial": "abc"}},
    ".ncrst": {"conv": ["AMBERRESTART", "1.0"], "w": {"coordinates": 64, "time": 64, "cell_lengths": 64, "cell_angles": 64},
               "dims": {"coordinates": ["atom", "spatial"], "time": ["time"], "cell_lengths": ["cell_spatial"],
                        "cell_angles": ["cell_angular"]},
               "labels": {"spatial": "xyz", "cell_spatial": "abc"}},
}
UNITWORD = {".h5": ("nanometers", "picoseconds", "degrees"), ".nc": ("angstrom", "picosecond", "degree"),
            ".netcdf": ("angstrom", "picosecond", "degree"), ".ncdf": ("angstrom", "picosecond", "degree"),
            ".ncrst": ("angstrom", "picosecond", "degree")}


# --------------------------------------------------------------------------- exact numbers
def f2b(x):
    return struct.unpack("<I", struct.pack("<f", x))[0]


def b2f(b):
    return struct.unpack("<f", struct.pack("<I", b))[0]


def dec32(b):
    """bits -> (neg, mag, exp) with value (-1)^neg * mag * 2^exp"""
    neg = b >> 31
    e = (b >> 23) & 0xFF
    m = b & 0x7FFFFF
    if e == 0:
        return neg, m, -149
    return neg, m | 0x800000, e - 150


def dec64(b):
    neg = b >> 63
    e = (b >> 52) & 0x7FF
    m = b & ((1 << 52) - 1)
    if e == 0:
        return neg, m, -1074
    return neg, m | (1 << 52), e - 1075


def fr32(b):
    n, m, e = dec32(b)
    v = Fr(m) * (Fr(2) ** e)
    return -v if n else v


def fr64(b):
    n, m, e = dec64(b)
    v = Fr(m) * (Fr(2) ** e)
    return -v if n else v


def cdy(b, w=32):
    n, m, e = dec32(b) if w == 32 else dec64(b)
    while m and m % 2 == 0 and e < 0:     # keep literals short
        m //= 2
        e += 1
    return "(Dy %s %d (%d))" % ("true" if n else "false", m, e)


def cdys(bs, w=32):
    return clist([cdy(b, w) for b in bs])


def rnd32_fr(v):
    """nearest binary32 of a Fraction (generator only)"""
    return f2b(float(v)) if abs(v) < Fr(2) ** 100 else None


# --------------------------------------------------------------------------- translator
def _src(rel):
    with open("%s/%s" % (REPO, rel)) as fh:
        return fh.read()


def _one(pat, text, what, flags=0):
    m = re.search(pat, text, flags)
    if not m:
        raise ValueError("translator: cannot find %s" % what)
    return m


def _fmt_wp(spec, what):
    m = re.fullmatch(r"%?(\d+)\.(\d+)f", spec)
    if not m:
        raise ValueError("translator: %s: unsupported format %r" % (what, spec))
    return int(m.group(1)), int(m.group(2))


def _ratio(txt):
    f = Fr(txt)
    return f.numerator, f.denominator


def read_tables():
    """Constants and tables of the save/load paths, read from /repo's source text."""
    import ast
    T = {}
    # ---- distance units
    units = {}
    for rel in ("formats/netcdf.py", "formats/xyzfile.py", "formats/amberrst.py", "formats/pdb/pdbfile.py",
                "formats/lammpstrj.py", "formats/hdf5.py", "formats/mdcrd.py", "formats/gro.py"):
        tree = ast.parse(_src("mdtraj/" + rel))
        for node in tree.body:
            if isinstance(node, ast.ClassDef):
                for st in node.body:
                    if (isinstance(st, ast.Assign) and len(st.targets) == 1 and isinstance(st.targets[0], ast.Name)
                            and st.targets[0].id == "distance_unit" and isinstance(st.value, ast.Constant)):
                        units[node.name] = st.value.value
    for rel, cls in (("formats/dcd/dcd.pyx", "DCDTrajectoryFile"), ("formats/xtc/trr.pyx", "TRRTrajectoryFile"),
                     ("formats/xtc/xtc.pyx", "XTCTrajectoryFile"), ("formats/dtr/dtr.pyx", "DTRTrajectoryFile")):
        m = _one(r"self\.distance_unit\s*=\s*['\"](\w+)['\"]", _src("mdtraj/" + rel), "distance_unit of " + cls)
        units[cls] = m.group(1)
    for c, u in units.items():
        if u not in ("angstroms", "nanometers"):
            raise ValueError("translator: unknown unit %r of %s" % (u, c))
    T["units"] = units
    # ---- _savers and the class each saver opens
    traj = _src("mdtraj/core/trajectory.py")
    tree = ast.parse(traj)
    tcls = [n for n in tree.body if isinstance(n, ast.ClassDef) and n.name == "Trajectory"][0]
    savers, saver_cls = [], {}
    for fn in tcls.body:
        if isinstance(fn, ast.FunctionDef) and fn.name == "_savers":
            ret = [s for s in ast.walk(fn) if isinstance(s, ast.Return)][0].value
            for k, v in zip(ret.keys, ret.values):
                savers.append((k.value, v.attr))
        if isinstance(fn, ast.FunctionDef) and fn.name.startswith("save_"):
            classes = [c.func.id for c in ast.walk(fn) if isinstance(c, ast.Call) and isinstance(c.func, ast.Name)
                       and c.func.id in units]
            if classes:
                conv = any(isinstance(c, ast.Call) and isinstance(c.func, ast.Name) and c.func.id == "in_units_of"
                           for c in ast.walk(fn))
                saver_cls[fn.name] = (classes[0], conv or units[classes[0]] == "nanometers")
    if not savers:
        raise ValueError("translator: Trajectory._savers not understood")
    T["savers"], T["saver_cls"] = savers, saver_cls
    # ---- conversion factors: filled in by translate() (evaluated by mdtraj's unit package on the implementation side)
    # ---- mdcrd
    s = _src("mdtraj/formats/mdcrd.py")
    T["mdcrd_w"], T["mdcrd_p"] = _fmt_wp(_one(r'out = "(%\d+\.\d+f)" % coord', s, "mdcrd coordinate format").group(1), "mdcrd")
    T["mdcrd_per_line"] = int(_one(r"\(j \+ 1\) % (\d+) == 0", s, "mdcrd numbers per line").group(1))
    m = _one(r"float\(line\[j : j \+ (\d+)\]\) for j in range\(0, len\(line\.rstrip\(\)\), (\d+)\)", s, "mdcrd reader slices")
    if m.group(1) != m.group(2):
        raise ValueError("translator: mdcrd reader slice width/step differ")
    T["mdcrd_rw"] = int(m.group(1))
    m = _one(r'line = "\{:(\d+\.\d+f)\} \{:(\d+\.\d+f)\} \{:(\d+\.\d+f)\}\\n"\.format', s, "mdcrd box line")
    if len({m.group(1), m.group(2), m.group(3)}) != 1:
        raise ValueError("translator: mdcrd box fields differ")
    T["mdcrd_box_w"], T["mdcrd_box_p"] = _fmt_wp(m.group(1), "mdcrd box")
    # ---- pdb
    s = _src("mdtraj/formats/pdb/pdbfile.py")
    m = _one(r"def _format_83\(f\):.*?if (-?[\d.]+) < f < (-?[\d.]+):\s*return \"(%\d+\.\d+f)\" % f\s*"
             r"if (-?[\d.]+) < f < (-?[\d.]+):\s*return \(\"(%\d+\.\d+f)\" % f\)\[:(\d+)\]", s, "_format_83", re.S)
    if m.group(3) != m.group(6):
        raise ValueError("translator: _format_83 uses two formats")
    T["pdb_w"], T["pdb_p"] = _fmt_wp(m.group(3), "_format_83")
    T["f83"] = [_ratio(m.group(i)) for i in (1, 2, 4, 5)]
    T["f83_txt"] = [m.group(i) for i in (1, 2, 4, 5)]
    T["f83_cut"] = int(m.group(7))
    m = _one(r'"CRYST1\{:(\d+\.\d+f)\}\{:(\d+\.\d+f)\}\{:(\d+\.\d+f)\}\{:(\d+\.\d+f)\}\{:(\d+\.\d+f)\}\{:(\d+\.\d+f)\} P 1           1 "',
             s, "CRYST1 format")
    if len({m.group(1), m.group(2), m.group(3)}) != 1 or len({m.group(4), m.group(5), m.group(6)}) != 1:
        raise ValueError("translator: CRYST1 fields differ")
    T["cryst_len_w"], T["cryst_len_p"] = _fmt_wp(m.group(1), "CRYST1")
    T["cryst_ang_w"], T["cryst_ang_p"] = _fmt_wp(m.group(4), "CRYST1")
    # ---- gro
    s = _src("mdtraj/formats/gro.py")
    T["gro_extra"] = int(_one(r"varwidth = precision \+ (\d+)", s, "gro varwidth").group(1))
    _one(r'fmt = "%%5d%%-5s%%5s%%5d%%%d\.%df%%%d\.%df%%%d\.%df" % \(', s, "gro line format")
    m = re.findall(r"\{box\[\d, \d\]:(\d+\.\d+f)\}", s)
    if len(m) != 9 or len(set(m)) != 1:
        raise ValueError("translator: gro box line")
    T["gro_box_w"], T["gro_box_p"] = _fmt_wp(m[0], "gro box")
    T["gro_coord_col"] = int(_one(r'line\.index\("\.", (\d+)\)', s, "gro first decimal column").group(1))
    # ---- xyz / lammpstrj
    s = _src("mdtraj/formats/xyzfile.py")
    m = _one(r'f"\{types\[j\]\} \{coord\[0\]:(\d+\.\d+f)\} \{coord\[1\]:(\d+\.\d+f)\} \{coord\[2\]:(\d+\.\d+f)\}\\n"', s, "xyz line")
    if len({m.group(1), m.group(2), m.group(3)}) != 1:
        raise ValueError("translator: xyz fields differ")
    T["xyz_w"], T["xyz_p"] = _fmt_wp(m.group(1), "xyz")
    s = _src("mdtraj/formats/lammpstrj.py")
    m = _one(r'f"\{j \+ 1:d\} \{types\[j\]:d\} \{coord\[0\]:(\d+\.\d+f)\} \{coord\[1\]:(\d+\.\d+f)\} \{coord\[2\]:(\d+\.\d+f)\}\\n"',
             s, "lammpstrj line")
    if len({m.group(1), m.group(2), m.group(3)}) != 1:
        raise ValueError("translator: lammpstrj fields differ")
    T["lammps_w"], T["lammps_p"] = _fmt_wp(m.group(1), "lammpstrj")
    # ---- rst7
    s = _src("mdtraj/formats/amberrst.py")
    m = _one(r'fmt = "(%\d+\.\d+f)(%\d+\.\d+f)(%\d+\.\d+f)"', s, "rst7 format")
    if len({m.group(1), m.group(2), m.group(3)}) != 1:
        raise ValueError("translator: rst7 fields differ")
    T["rst7_w"], T["rst7_p"] = _fmt_wp(m.group(1), "rst7")
    # ---- xtc
    s = _src("mdtraj/formats/xtc/src/xdrfile.c")
    m = _one(r"static const int magicints\[\] =\s*\{([^}]*)\}", s, "magicints")
    T["magicints"] = [int(x) for x in re.findall(r"\d+", m.group(1))]
    T["firstidx"] = int(_one(r"#define FIRSTIDX (\d+)", s, "FIRSTIDX").group(1))
    T["raw_max"] = int(_one(r"if\(size<=(\d+)\)", s, "raw-float atom limit").group(1))
    # ---- unit attributes written into the self-describing containers
    ua = {}
    h = dict(re.findall(r'self\._handle\.root\.(\w+)\.attrs\["units"\] = "([^"]+)"', _src("mdtraj/formats/hdf5.py")))
    ua["h5"] = {k: h[k] for k in ("coordinates", "time", "cell_lengths", "cell_angles") if k in h}
    ncnames = {"frame_coordinates": "coordinates", "frame_times": "time", "cell_lengths": "cell_lengths", "cell_angles": "cell_angles"}
    n = re.findall(r'setattr\((\w+), "units", "(\w+)"\)', _src("mdtraj/formats/netcdf.py"))
    ua["nc"] = {ncnames[k]: v for k, v in n if k in ncnames}
    r = _src("mdtraj/formats/amberrst.py")
    r = r[r.index("class AmberNetCDFRestartFile"):]
    ua["ncrst"] = dict(re.findall(r'createVariable\("(\w+)"[^\n]*\)\s*\n\s*v\.units = "(\w+)"', r))
    for k, d in ua.items():
        if set(d) != {"coordinates", "time", "cell_lengths", "cell_angles"}:
            raise ValueError("translator: unit attributes of %s not understood: %s" % (k, d))
    T["unit_attrs"] = ua
    # ---- DCD unit cell block: which quantity goes into / comes out of which of the six slots
    d = _src("mdtraj/formats/dcd/src/dcdplugin.c")
    w = d[d.index("int write_timestep("):]
    w = w[:w.index("write_dcdstep(")]
    ws = dict(re.findall(r"unitcell\[(\d)\] = ts->(\w+);", w))
    ws.update(dict(re.findall(r"unitcell\[(\d)\] = sin\(\(M_PI_2 / 90\.0\) \* \(90\.0 - ts->(\w+)\)\);", w)))
    rd = d[d.index("ts->A = unitcell["):]
    rd = rd[:rd.index("} else {")]
    rs = {k: v for v, k in re.findall(r"ts->(\w+)\s*= unitcell\[(\d)\];", rd)}
    rs.update({k: v for v, k in re.findall(r"ts->(\w+)\s*= 90\.0 - asin\(unitcell\[(\d)\]\) \* 90\.0 / M_PI_2;", rd)})
    if sorted(ws) != list("012345") or sorted(rs) != list("012345"):
        raise ValueError("translator: DCD unit cell slots not understood: %s %s" % (ws, rs))
    T["dcd_write_slots"] = [ws[str(i)] for i in range(6)]
    T["dcd_read_slots"] = [rs[str(i)] for i in range(6)]
    T["xtc_magic"] = int(_one(r"#define MAGIC (\d+)", _src("mdtraj/formats/xtc/src/xdrfile_xtc.c"), "XTC magic number").group(1))
    s = _src("mdtraj/formats/xtc/xtc.pyx")
    pr = Fr(_one(r"prec = ([\d.]+) \* np\.ones\(n_frames, dtype=np\.float32\)", s, "xtc precision").group(1))
    if pr.denominator != 1:
        raise ValueError("translator: xtc precision not an integer")
    T["xtc_prec"] = int(pr)
    T["save_glue"], T["load_glue"] = read_glue()
    # ---- fixed-column readers: PdbStructure's CRYST1 columns, AmberRestartFile's field width
    s = _src("mdtraj/formats/pdb/pdbstructure.py")
    m = _one(r'elif pdb_line\.find\("CRYST1"\) == 0:\s*\n(.*?)\n\s*elif ', s, "CRYST1 reader", re.S)
    cols = [(int(a), int(b)) for a, b in re.findall(r"float\(pdb_line\[(\d+):(\d+)\]\)", m.group(1))]
    if len(cols) != 6:
        raise ValueError("translator: CRYST1 reader columns not understood: %s" % cols)
    T["cryst_read_cols"] = cols
    s = _src("mdtraj/formats/amberrst.py")
    s = s[s.index("class AmberRestartFile"):s.index("class AmberNetCDFRestartFile")]
    rd = re.findall(r"float\(line\[(\w) : \1 \+ (\d+)\]\) for \1 in range\((\d+), (\d+), (\d+)\)", s)
    ws = {int(x[1]) for x in rd} | {int(x[4]) for x in rd}
    if len(rd) != 4 or len(ws) != 1 or sorted({(int(x[2]), int(x[3])) for x in rd}) != [(0, 3 * min(ws)), (3 * min(ws), 6 * min(ws))]:
        raise ValueError("translator: rst7 reader slices not understood: %s" % rd)
    T["rst7_rw"] = min(ws)
    return T


# ---- save/load glue: what every Trajectory.save_* hands to the file class and what every loader converts back
GLUE_ROLE = {"xyz": "xyz", "_xyz": "xyz", "time": "time", "_time": "time", "unitcell_lengths": "lengths",
             "_unitcell_lengths": "lengths", "unitcell_angles": "angles", "_unitcell_angles": "angles",
             "unitcell_vectors": "vectors"}
LOADER_SITES = [("formats/hdf5.py", "HDF5TrajectoryFile"), ("formats/netcdf.py", "NetCDFTrajectoryFile"),
                ("formats/mdcrd.py", "MDCRDTrajectoryFile"), ("formats/xyzfile.py", "XYZTrajectoryFile"),
                ("formats/lammpstrj.py", "LAMMPSTrajectoryFile"), ("formats/gro.py", "GroTrajectoryFile"),
                ("formats/amberrst.py", "AmberRestartFile"), ("formats/amberrst.py", "AmberNetCDFRestartFile"),
                ("formats/pdb/pdbfile.py", "PDBTrajectoryFile"),
                ("formats/dcd/dcd.pyx", "DCDTrajectoryFile"), ("formats/xtc/xtc.pyx", "XTCTrajectoryFile"),
                ("formats/xtc/trr.pyx", "TRRTrajectoryFile"), ("formats/dtr/dtr.pyx", "DTRTrajectoryFile")]


def _conv_code(frm, to):
    """1 = Trajectory unit -> file unit, 2 = file unit -> Trajectory unit, 3 = anything else"""
    def is_traj(s):
        return s == "Trajectory._distance_unit"

    def is_file(s):
        return bool(re.fullmatch(r"\w+\.distance_unit", s)) and not is_traj(s)
    if is_traj(frm) and is_file(to):
        return 1
    if is_file(frm) and is_traj(to):
        return 2
    return 3


def read_glue():
    """(a) for every Trajectory.save_*: every <file>.write(...) call as the list of (role of the self attribute handed
    over, conversion code) -- local names are resolved through the nearest preceding assignment; (b) for every file
    class: the conversion codes of the in_units_of calls of its loader (read_as_traj / load_pdb)."""
    import ast
    tree = ast.parse(_src("mdtraj/core/trajectory.py"))
    tcls = [n for n in tree.body if isinstance(n, ast.ClassDef) and n.name == "Trajectory"][0]
    save_glue = {}
    for fn in tcls.body:
        if not (isinstance(fn, ast.FunctionDef) and fn.name.startswith("save_")):
            continue
        assigns = []          # (lineno, name, value)
        for st in ast.walk(fn):
            if isinstance(st, ast.Assign) and len(st.targets) == 1 and isinstance(st.targets[0], ast.Name):
                assigns.append((st.lineno, st.targets[0].id, st.value))

        def resolve(e, line, depth=0):
            """the expression with local names replaced by what was last assigned to them before `line`"""
            out = [e]
            if depth < 3:
                for nm in [x for x in ast.walk(e) if isinstance(x, ast.Name)]:
                    prev = [a for a in assigns if a[1] == nm.id and a[0] < line]
                    if prev:
                        out += resolve(max(prev, key=lambda a: a[0])[2], line, depth + 1)
            return out

        def classify(e, line):
            exprs = resolve(e, line)
            roles = [GLUE_ROLE[x.attr] for ex in exprs for x in ast.walk(ex)
                     if isinstance(x, ast.Attribute) and isinstance(x.value, ast.Name) and x.value.id == "self" and x.attr in GLUE_ROLE]
            if not roles:
                return None
            if len(set(roles)) != 1:
                raise ValueError("translator: %s hands over an expression of several attributes: %s" % (fn.name, ast.unparse(e)))
            calls = [x for ex in exprs for x in ast.walk(ex)
                     if isinstance(x, ast.Call) and isinstance(x.func, ast.Name) and x.func.id == "in_units_of"]
            code = 0
            for c in calls:
                a = [ast.unparse(z) for z in c.args]
                code = max(code, _conv_code(a[1], a[2]) if len(a) >= 3 else 3)
            return roles[0], code
        calls = []
        for c in ast.walk(fn):
            if isinstance(c, ast.Call) and isinstance(c.func, ast.Attribute) and c.func.attr == "write" and isinstance(c.func.value, ast.Name):
                items = []
                for a in list(c.args) + [k.value for k in c.keywords]:
                    r = classify(a, c.lineno)
                    if r:
                        items.append(r)
                calls.append(sorted(set(items)))
        if calls:
            save_glue[fn.name] = calls
    load_glue = {}
    for rel, cls in LOADER_SITES:
        s = _src("mdtraj/" + rel)
        if rel.endswith(".pyx"):
            m = _one(r"\n    def read_as_traj\(.*?(?=\n    def |\ncdef class |\Z)", s, "read_as_traj of " + cls, re.S)
            body = m.group(0)
            found = re.findall(r"in_units_of\(\s*([\w.\[\]]+)\s*,\s*([\w.]+)\s*,\s*([\w.]+)", body)
            codes = [(v, _conv_code(a, b)) for v, a, b in found if "distance_unit" in a + b]
        else:
            mod = ast.parse(s)
            fns = []
            for node in mod.body:
                if isinstance(node, ast.ClassDef) and node.name == cls:
                    fns += [f for f in node.body if isinstance(f, ast.FunctionDef) and f.name == "read_as_traj"]
                if isinstance(node, ast.FunctionDef) and node.name == "load_pdb" and cls == "PDBTrajectoryFile":
                    fns.append(node)
            if not fns:
                raise ValueError("translator: loader of %s not found" % cls)
            codes = []
            for f in fns:
                for c in ast.walk(f):
                    if isinstance(c, ast.Call) and isinstance(c.func, ast.Name) and c.func.id == "in_units_of" and len(c.args) >= 3:
                        a = [ast.unparse(z) for z in c.args]
                        if "distance_unit" in a[1] + a[2]:
                            codes.append((c.lineno, a[0], _conv_code(a[1], a[2])))
            codes = [(v, k) for _l, v, k in sorted(codes)]
        load_glue[cls] = codes
    return save_glue, load_glue


def check_f83_constants(T):
    """For every float32 f the code's comparison of f with a _format_83 constant (done in binary64, or in
    binary32 under numpy's weak-scalar promotion) gives the same answer as comparing the exact values, which is
    what the model does.  Checked for the float32 neighbours of each constant (elsewhere it is obvious)."""
    for role, txt in zip(("lo", "hi", "lo", "hi"), T["f83_txt"]):
        c, c64, c32 = Fr(txt), Fr(float(txt)), fr32(f2b(float(txt)))
        b = f2b(float(txt))
        for cand in range(b - 3, b + 4):
            v = fr32(cand)
            outcomes = {(k < v) if role == "lo" else (v < k) for k in (c, c64, c32)}
            if len(outcomes) != 1:
                raise ValueError("translator: comparison of float32 %s with constant %s depends on the arithmetic" % (float(v), txt))


def render_tables(T):
    def q(s):
        return '"%s"%%string' % s
    L = ["(* GENERATED by harness/props/C01.py:translate from /repo -- do not edit by hand.",
         "   Constants and tables of mdtraj's save/load code paths (C01). *)",
         "From Coq Require Import ZArith List String.", "Import ListNotations.", "Open Scope Z_scope.", "",
         "(* distance_unit of every trajectory file class: true = angstroms, false = nanometers *)",
         "Definition units_table : list (string * bool) := ["]
    L.append(";\n".join("  (%s, %s)" % (q(c), "true" if u == "angstroms" else "false") for c, u in sorted(T["units"].items())))
    L += ["].", "", "(* Trajectory._savers(): extension -> save method *)",
          "Definition savers_table : list (string * string) := ["]
    L.append(";\n".join("  (%s, %s)" % (q(e), q(m)) for e, m in T["savers"]))
    L += ["].", "", "(* file class opened by each save method, and whether the method converts xyz with",
          "   in_units_of(..., Trajectory._distance_unit, <class>.distance_unit) *)",
          "Definition saver_class : list (string * (string * bool)) := ["]
    L.append(";\n".join("  (%s, (%s, %s))" % (q(m), q(c), "true" if cv else "false") for m, (c, cv) in sorted(T["saver_cls"].items())))
    L += ["].", "", "(* angstroms per nanometer: conversion_factor_to evaluated by the translator *)",
          "Definition ang_per_nm : Z := %d." % T["ang_per_nm"], ""]
    for k in ("mdcrd_w", "mdcrd_p", "mdcrd_per_line", "mdcrd_rw", "mdcrd_box_w", "mdcrd_box_p", "pdb_w", "pdb_p"):
        L.append("Definition %s : nat := %d." % (k, T[k]))
    for name, (n, d) in zip(("f83_lo1", "f83_hi1", "f83_lo2", "f83_hi2"), T["f83"]):
        L.append("Definition %s_num : Z := %d.   Definition %s_den : Z := %d." % (name, n, name, d))
    for k in ("f83_cut", "cryst_len_w", "cryst_len_p", "cryst_ang_w", "cryst_ang_p", "gro_extra", "gro_box_w", "gro_box_p",
              "gro_coord_col", "xyz_w", "xyz_p", "lammps_w", "lammps_p", "rst7_w", "rst7_p"):
        L.append("Definition %s : nat := %d." % (k, T[k]))
    L += ["", "(* xdrfile.c / xdrfile_xtc.c / xtc.pyx as found in the source; the model (Codec/XtcModel.v) uses the constants",
          "   of the XTC format standard and Props/C01.v:xtc_format_standard obliges these to coincide with them *)",
          "Definition src_xtc_magicints : list Z := [%s]." % "; ".join(str(x) for x in T["magicints"]),
          "Definition src_xtc_firstidx : Z := %d." % T["firstidx"],
          "Definition src_xtc_prec : Z := %d." % T["xtc_prec"],
          "Definition src_xtc_raw_max_atoms : Z := %d." % T["raw_max"],
          "Definition src_xtc_magic : Z := %d." % T["xtc_magic"], "",
          "(* dcdplugin.c: the quantity write_timestep stores in / read_next_timestep takes from unitcell[0..5]",
          "   (angles: stored as sin((pi/2)/90 * (90 - angle)), read back as 90 - asin(.) * 90 / (pi/2)) *)",
          "Definition src_dcd_write_slots : list string := [%s]." % "; ".join(q(x) for x in T["dcd_write_slots"]),
          "Definition src_dcd_read_slots : list string := [%s]." % "; ".join(q(x) for x in T["dcd_read_slots"]), "",
          "(* units attributes written by hdf5.py / netcdf.py / amberrst.py (AmberNetCDFRestartFile) *)",
          "Definition src_unit_attrs : list (string * list (string * string)) := [%s]." % "; ".join(
              "(%s, [%s])" % (q(k), "; ".join("(%s, %s)" % (q(a), q(b)) for a, b in sorted(T["unit_attrs"][k].items())))
              for k in ("h5", "nc", "ncrst")), ""]
    L += ["(* the Python float in_units_of multiplies with (conversion_factor_to, evaluated by running mdtraj's unit",
          "   package): value = mag * 2^exp *)",
          "Definition nm_to_ang_mag : Z := %d.   Definition nm_to_ang_exp : Z := %d." % T["nm_to_ang"],
          "Definition ang_to_nm_mag : Z := %d.   Definition ang_to_nm_exp : Z := %d." % T["ang_to_nm"], "",
          "(* every <file>.write(...) call of every Trajectory.save_*: (role of the self attribute handed over, conversion):",
          "   0 = as is, 1 = in_units_of(., Trajectory._distance_unit, <file class>.distance_unit), 2 = the reverse,",
          "   3 = another in_units_of *)",
          "Definition src_save_glue : list (string * list (list (string * nat))) := ["]
    L.append(";\n".join("  (%s, [%s])" % (q(m), "; ".join("[%s]" % "; ".join("(%s, %d%%nat)" % (q(r), c) for r, c in call) for call in calls))
                        for m, calls in sorted(T["save_glue"].items())))
    L += ["].", "", "(* conversion codes of the in_units_of calls in each file class's loader (read_as_traj / load_pdb), source order;",
          "   the variables converted are: %s *)" % "; ".join("%s: %s" % (c, ", ".join(v for v, _ in vs)) for c, vs in sorted(T["load_glue"].items())),
          "Definition src_load_glue : list (string * list nat) := ["]
    L.append(";\n".join("  (%s, [%s])" % (q(c), "; ".join("%d%%nat" % k for _v, k in vs)) for c, vs in sorted(T["load_glue"].items())))
    L += ["].", "", "(* pdbstructure.py: float(pdb_line[a:b]) column pairs of the CRYST1 record; amberrst.py: width of float(line[j : j + w]) *)",
          "Definition cryst_read_cols : list (nat * nat) := [%s]%%nat." % "; ".join("(%d, %d)" % c for c in T["cryst_read_cols"]),
          "Definition rst7_rw : nat := %d." % T["rst7_rw"], ""]
    return "\n".join(L)


def translate(ctx):
    T = read_tables()
    check_f83_constants(T)
    # the factors in_units_of multiplies with: evaluated by mdtraj's own unit package (implementation side)
    fac = ctx.run_impl("codec_impl.py", {"mode": "units", "pairs": [["nanometers", "angstroms"], ["angstroms", "nanometers"]]})["factors"]
    for f, key in zip(fac, ("nm_to_ang", "ang_to_nm")):
        if f["type"] != "float":
            raise ValueError("translator: conversion factor is a %s" % f["type"])
        neg, m, e = dec64(f["bits"])
        if neg or m == 0:
            raise ValueError("translator: conversion factor %s not positive" % key)
        while m % 2 == 0:
            m //= 2
            e += 1
        T[key] = (m, e)
    k = fr64(fac[0]["bits"])
    if k.denominator != 1:
        raise ValueError("translator: nanometers -> angstroms factor %s is not an integer" % k)
    T["ang_per_nm"] = int(k)
    changed = ctx.write_gen("Gen/CodecTables.v", render_tables(T))
    ctx.notes.setdefault("coverage_extra", {})["translator"] = "ok (Gen/CodecTables.v %s)" % ("rewritten" if changed else "unchanged")
    ctx.tables = T


# --------------------------------------------------------------------------- generator
def around(rng, centre_fr, k=3):
    """a float32 within k ulps of a rational"""
    b = f2b(float(centre_fr))
    return b + rng.randint(-k, k)


def gen_value(rng, cls):
    """one float32 bit pattern (nanometres)"""
    sign = -1.0 if rng.random() < 0.45 else 1.0
    if cls == "tiny":
        return f2b(sign * 10 ** rng.uniform(-3, -1))
    if cls == "unit":
        return f2b(sign * rng.uniform(0.1, 10))
    if cls == "big":
        return f2b(sign * rng.uniform(10, 99))
    if cls == "cluster":
        return None
    if cls == "edge":      # boundaries of the 8.3 angstrom fields and of _format_83's branches
        c = rng.choice([Fr(-999999, 10000), Fr(9999999, 10000), Fr(-99, 1), Fr(-100, 1), Fr(-10, 1), Fr(100, 1),
                        Fr(-9999995, 100000), Fr(99999995, 100000), Fr(1000, 1), Fr(-1, 1), Fr(1, 1),
                        Fr(-9999995, 10000), Fr(99999995, 10000), Fr(-999999, 1000), Fr(9999999, 1000)])
        return around(rng, c, 4)
    if cls == "tie":       # angstrom value (2j+1)/16 or nm value (2j+1)/16: exact ties of the 3rd decimal
        j = rng.randint(0, 400)
        v = Fr(2 * j + 1, 16)
        if rng.random() < 0.5:
            b = f2b(float(v / 10))
            for cand in (b, b - 1, b + 1):
                if rnd32_mul10(cand) == v:
                    b = cand
                    break
        else:
            b = f2b(float(v))
        return b | (0x80000000 if sign < 0 else 0)
    if cls == "zero":
        return rng.choice([0, 0x80000000, f2b(-1e-5), f2b(1e-5), f2b(-4.9e-4), f2b(5e-5), f2b(-5e-5)])
    if cls == "wide":      # spans > 16777 nm: the XTC coder switches to separate bit fields per coordinate
        return f2b(sign * rng.choice([0.5, 20000.25, 150000.5, 900000.125]) * rng.uniform(0.5, 1.0))
    if cls == "over":
        return f2b(sign * rng.choice([1000.5, 12345.678, 99999.5, 1.2e6, 1.1e7]))
    raise ValueError(cls)


# XTC format standard (generator only: spacing classes that sweep the adaptive small-size index over the table)
XTC_MAGIC = [0, 0, 0, 0, 0, 0, 0, 0, 0, 8, 10, 12, 16, 20, 25, 32, 40, 50, 64, 80, 101, 128, 161, 203, 256, 322, 406, 512, 645,
             812, 1024, 1290, 1625, 2048, 2580, 3250, 4096, 5060, 6501, 8192, 10321, 13003, 16384, 20642, 26007, 32768,
             41285, 52015, 65536, 82570, 104031, 131072, 165140, 208063, 262144, 330280, 416127, 524287, 660561, 832255,
             1048576, 1321122, 1664510, 2097152, 2642245, 3329021, 4194304, 5284491, 6658042, 8388607, 10568983,
             13316085, 16777216]
DILUTE_EXTS = [".xtc", ".trr", ".h5"]
TEXT_EXTS = [".mdcrd", ".xyz", ".lammpstrj", ".gro", ".pdb", ".rst7"]
CHAIN_EXTS = [".pdb", ".pdb.gz", ".h5", ".gro", ".xtc", ".dcd"]     # formats loaded with their own topology, and two loaded with top=
REFUSAL_BOUNDS = [Fr(-999999, 10000), Fr(9999999, 10000),          # mdcrd %8.3f, _format_83 first branch (angstrom)
                  Fr(-9999999, 10), Fr(99999999, 10),               # _format_83 second branch / ValueError
                  Fr(-9999995, 10000), Fr(99999995, 10000),         # gro %8.3f (nm)
                  Fr(-100), Fr(1000)]                               # rst7 %12.7f (angstrom)


def gen_dilute_frame(rng, n_atoms, slot):
    """a dilute system: file-order neighbours 0.27..0.33 * magicints[slot] / 1000 nm apart along every axis, so that
    the smallest L1 neighbour distance falls in (magicints[slot-1], magicints[slot]] (the coder starts at smallidx =
    slot), every atom is run-length coded relative to its predecessor and the index then adapts upwards through the
    following table entries"""
    m = XTC_MAGIC[slot] / 1000.0
    pos = [rng.uniform(-2, 2) * m for _ in range(3)]
    fr = []
    for _a in range(n_atoms):
        fr += [f2b(p) for p in pos]
        pos = [p + rng.choice([-1, 1]) * rng.uniform(0.27, 0.33) * m for p in pos]
    return fr


def rnd32_mul10(b):
    """exact value of float32(b) * 10 rounded to binary32 (generator only)"""
    return fr32(f2b(float(fr32(b) * 10)))


def gen_traj(rng, cls, n_atoms, n_frames, cell, times, slot=None):
    xyz = []
    for _ in range(n_frames):
        fr = []
        if cls == "dilute":
            fr = gen_dilute_frame(rng, n_atoms, slot)
        elif cls == "cluster":
            base = [rng.uniform(-3, 3) for _ in range(3)]
            for a in range(n_atoms):
                if a % 3 == 0 and rng.random() < 0.5:
                    base = [b + rng.uniform(-0.4, 0.4) for b in base]
                fr += [f2b(b + rng.uniform(-0.02, 0.02)) for b in base]
        elif cls == "wide":
            # far-apart pairs of close atoms: large spans (separate bit fields per coordinate in XTC) while the
            # smallest step between consecutive atoms stays small (xdrfile.c reads magicints[] out of bounds otherwise)
            for a in range(n_atoms):
                if a % 2 == 0:
                    base = [b2f(gen_value(rng, "wide")) for _ in range(3)]
                    fr += [f2b(b) for b in base]
                else:
                    fr += [f2b(b + rng.uniform(-0.05, 0.05)) for b in base]
        else:
            for _a in range(3 * n_atoms):
                c = cls if rng.random() < 0.7 else rng.choice(["unit", "tiny", "zero", "tie"])
                if cls == "over" and rng.random() < 0.8:
                    c = "unit"
                fr.append(gen_value(rng, c))
        xyz.append(fr)
    tj = {"n_atoms": n_atoms, "xyz": xyz, "cls": cls}
    if times == "default":
        tj["time"] = None
    else:
        t, ts = rng.choice([0.0, 1.5, 100.0]), []
        for _ in range(n_frames):
            ts.append(f2b(t))
            t = b2f(f2b(t + rng.choice([0.5, 1.0, 2.0, 0.002, 10.0, 1234.5, 0.25])))
        tj["time"] = ts
    if cell == "none":
        tj["cell"] = None
    elif cell in ("mix_ot", "mix_to", "mix_mid", "vary1"):
        # per-frame series that mix cell KINDS inside one trajectory, or vary a single box component
        l0 = [f2b(rng.uniform(2.0, 9.0)) for _ in range(3)]
        ortho, tric = [f2b(90.0)] * 3, [f2b(80.0), f2b(95.5), f2b(100.25)]
        comp = rng.randrange(6)
        L, A = [], []
        for i in range(n_frames):
            if cell == "vary1":
                li, ai = list(l0), list(tric if comp % 2 else ortho)
                if comp < 3:
                    li[comp] = f2b(b2f(l0[comp]) + 0.375 * i)
                else:
                    ai[comp - 3] = f2b(b2f(ai[comp - 3]) + 2.5 * i)
            else:
                is_tric = {"mix_ot": i > 0, "mix_to": i == 0, "mix_mid": i == n_frames // 2}[cell]
                li, ai = list(l0), list(tric if is_tric else ortho)
            L.append(li)
            A.append(ai)
        tj["cell"] = {"lengths": L, "angles": A, "kind": "tric" if any(b2f(a) != 90.0 for r in A for a in r) else "perframe",
                      "series": cell}
    else:
        L, A = [], []
        l0 = [f2b(rng.uniform(2.0, 9.0)) for _ in range(3)]
        a0 = [f2b(90.0)] * 3 if cell in ("ortho", "perframe") else [f2b(rng.choice([60.0, 75.5, 90.0, 100.25, 110.0, 120.0]))
                                                                    for _ in range(3)]
        if cell == "tric":
            al, be, ga = [b2f(a) for a in a0]
            valid = al + be + ga < 350 and al < be + ga - 5 and be < al + ga - 5 and ga < al + be - 5
            if not valid or (al, be, ga) == (90.0, 90.0, 90.0):       # keep the cell non-degenerate and not orthorhombic
                a0 = [f2b(80.0), f2b(95.5), f2b(100.25)]
        for i in range(n_frames):
            if cell == "perframe":
                L.append([f2b(b2f(x) + 0.125 * i) for x in l0])
            else:
                L.append(list(l0))
            A.append(list(a0))
        tj["cell"] = {"lengths": L, "angles": A, "kind": cell}
    return tj


def saves_for(rng, tj, quick):
    sv = []
    for ext in (DILUTE_EXTS if tj["cls"] == "dilute" else TEXT_EXTS if tj["cls"] in ("decade", "limit", "celldecade") else
                CHAIN_EXTS if tj["cls"] == "chains" else ALL_EXTS):
        opts = {}
        if ext == ".gro":
            opts = {"precision": rng.choice([1, 2, 3, 3, 4, 5, 6])}
        if ext in (".pdb", ".pdb.gz"):
            opts = {"ter": rng.random() < 0.7, "header": rng.random() < 0.7}
            if rng.random() < 0.4:
                n, T = tj["n_atoms"], len(tj["xyz"])
                if rng.random() < 0.5:
                    opts["bfactors"] = [f2b(round(rng.uniform(-9, 99), 2)) for _ in range(n)]
                    opts["bf_shape"] = [n]
                else:
                    opts["bfactors"] = [f2b(round(rng.uniform(-9, 99), 2)) for _ in range(n * T)]
                    opts["bf_shape"] = [T, n]
        sv.append({"ext": ext, "opts": opts})
        if ext in (".pdb", ".pdb.gz") and tj.get("chains"):
            # chain boundaries in the file are TER records and chain-letter changes: both values of `ter`
            sv.append({"ext": ext, "opts": dict(opts, ter=not opts["ter"])})
    return sv


def build_trajs(ctx):
    rng = ctx.rng
    quick = ctx.tier == "quick"
    trajs = []
    # fixed probes: the witnesses of the recorded defects always run
    one = lambda v: f2b(v)   # noqa: E731
    trajs.append({"n_atoms": 1, "xyz": [[one(0.1), one(0.2), one(0.3)], [one(0.4), one(0.5), one(0.6)]], "cls": "probe",
                  "time": [one(1.0), one(2.5)], "cell": None})
    trajs.append({"n_atoms": 2, "xyz": [[one(0.1), one(-10.0), one(0.3), one(1.0), one(2.0), one(3.0)]] * 3, "cls": "probe",
                  "time": [one(1.0), one(2.5), one(7.0)], "cell": None})
    trajs.append({"n_atoms": 2, "xyz": [[one(0.1), one(0.2), one(0.3), one(1.0), one(2.0), one(3.0)],
                                        [one(0.15), one(0.25), one(0.35), one(1.5), one(2.5), one(3.5)]], "cls": "probe",
                  "time": [one(1.0), one(2.5)],
                  "cell": {"lengths": [[one(3.0)] * 3] * 2, "angles": [[one(55.0)] * 3] * 2, "kind": "tric"}})
    trajs.append({"n_atoms": 3, "xyz": [[one(0.1 * k) for k in range(9)]] * 3, "cls": "probe",
                  "time": [one(1.0), one(2.5), one(7.0)],
                  "cell": {"lengths": [[one(3.0 + i)] * 3 for i in range(3)], "angles": [[one(90.0)] * 3] * 3, "kind": "perframe"}})
    trajs.append({"n_atoms": 3, "xyz": [[one(0.1 * k) for k in range(9)], [one(0.2 * k) for k in range(9)]], "cls": "probe",
                  "time": [one(1e-5), one(2.5)], "cell": None})
    atoms = [1, 2, 3, 4, 5, 8, 9, 10, 11, 12, 17, 23, 30]
    classes = ["unit", "unit", "tiny", "big", "edge", "tie", "zero", "cluster", "cluster", "over", "wide"]
    n = 46 if quick else 420
    for i in range(n):
        cls = classes[i % len(classes)]
        na = rng.choice(atoms)
        if cls in ("cluster", "wide"):
            na = rng.choice([10, 11, 12, 17, 23, 30])
        if na > 12 and rng.random() < 0.5:
            nf = rng.randint(1, 2)
        else:
            nf = rng.randint(1, 6)
        cell = ["none", "ortho", "tric", "perframe", "mix_ot", "mix_to", "mix_mid", "vary1"][(i // 2) % 8]
        if cell.startswith("mix") or cell == "vary1":
            nf = max(nf, 3)
        times = "default" if rng.random() < 0.25 else "nonuniform"
        trajs.append(gen_traj(rng, cls, na, nf, cell, times))
    # topology axis: several chains, with explicit ids that repeat for non-adjacent chains (A, B, A), adjacent chains with
    # the same id, and more than 26 unlabelled chains (the PDB writer's letters wrap around); the comparison of
    # load(save(t)) with t is per atom index, so a reader that regroups atoms by chain letter moves coordinates
    chain_sets = [["A", "B", "A"], [None] * 28, ["X", "Y", "X", "Y"], [None] * 3, ["A", "A", "B"], [None] * 27 + ["A"]]
    trajs.append({"n_atoms": 18, "xyz": [[one(0.05 * k - 0.3) for k in range(54)], [one(0.07 * k + 0.1) for k in range(54)]],
                  "cls": "probe", "time": [one(0.0), one(1.0)], "cell": None, "chains": ["A", "B", "A"]})
    trajs.append({"n_atoms": 30, "xyz": [[one(0.03 * k - 1.0) for k in range(90)]], "cls": "probe", "time": [one(0.0)],
                  "cell": {"lengths": [[one(5.0)] * 3], "angles": [[one(90.0)] * 3], "kind": "ortho"}, "chains": [None] * 28})
    for i in range(6 if quick else 36):
        cs = chain_sets[(i + ctx.seed) % len(chain_sets)]
        na = rng.choice([a for a in (12, 17, 23, 30, 40, 60) if a >= len(cs)])
        tj = gen_traj(rng, "unit", na, rng.randint(1, 3), rng.choice(["none", "ortho", "tric"]), "nonuniform")
        tj["cls"] = "chains"
        tj["chains"] = list(cs)
        trajs.append(tj)
    # dilute systems: the XTC small-size index starts at every slot of magicints[] (thorough: all of 9..64, quick: a
    # spread with stride 5 -- the index climbs up to 8 entries within a frame, so every entry is used in both tiers)
    slots = list(range(9, 65)) if not quick else [9 + (5 * k + ctx.seed) % 56 for k in range(12)]
    for slot in slots:
        tj = gen_traj(rng, "dilute", rng.choice([10, 12, 17, 24, 30]), rng.randint(1, 2),
                      rng.choice(["none", "ortho", "tric"]), "nonuniform", slot=slot)
        tj["slot"] = slot
        trajs.append(tj)
    # magnitudes: every decade from 1e-3 nm to beyond every field limit, both signs, one hot coordinate per trajectory
    # (a value that must be refused would hide the others); text formats; oracle "refused, or the number is right"
    for d in range(-3, 8):
        for sgn in (1.0, -1.0):
            na, nf = rng.choice([2, 3, 4]), rng.randint(1, 2)
            tj = gen_traj(rng, "unit", na, nf, rng.choice(["none", "ortho"]), "nonuniform")
            tj["cls"] = "decade"
            hot = f2b(sgn * rng.uniform(1.0, 9.99) * 10.0 ** d)
            tj["xyz"][rng.randrange(nf)][rng.randrange(3 * na)] = hot
            tj["hot"] = [d, sgn]
            trajs.append(tj)
    # the limits at which a format must start refusing, a few ulps on both sides (thorough sweeps all of -6..6 below)
    if quick:
        for c in REFUSAL_BOUNDS:
            b0 = f2b(float(c))
            for k in (-6, -1, 0, 1, 6):
                trajs.append({"n_atoms": 2, "xyz": [[one(0.25), b0 + k, one(-0.5), one(1.0), one(2.0), b0 + k]], "cls": "limit",
                              "time": [one(0.0)], "cell": None})
    # cell lengths: every decade up to and beyond CRYST1 %9.3f / gro %10.5f / rst7 %12.7f
    for d in range(0, 5):
        L = [f2b(rng.uniform(1.0, 9.99) * 10.0 ** d) for _ in range(3)]
        tj = gen_traj(rng, "unit", 3, 1, "none", "nonuniform")
        tj["cls"] = "celldecade"
        tj["cell"] = {"lengths": [L], "angles": [[one(90.0)] * 3], "kind": "ortho"}
        trajs.append(tj)
    # history axis: a long-lived object (saved before, box vectors / volumes / periodic distances evaluated) whose
    # cell is then replaced through each public way of assigning it; every later save must hold the CURRENT cell
    vias = ["vectors", "lengths_angles", "inplace", "inplace_frame"]
    touches = [[{"op": "save", "ext": ".xtc"}], [{"op": "vectors"}], [{"op": "volumes"}], [{"op": "distances"}],
               [{"op": "save", "ext": ".gro"}, {"op": "save", "ext": ".h5"}], [{"op": "save", "ext": ".trr"}, {"op": "volumes"}]]
    k = 0
    for tj in trajs:
        if tj.get("cell") and tj["cls"] not in ("probe", "over", "sweep", "decade", "limit", "celldecade") and (k := k + 1) % (2 if quick else 3) == 0:
            T = len(tj["xyz"])
            tj["history"] = {"initial_cell": {"lengths": [[one(3.0)] * 3] * T, "angles": [[one(90.0)] * 3] * T},
                             "steps": touches[(k // 2) % len(touches)], "set_via": vias[(k // 2) % len(vias)]}
    if not quick:
        # exhaustive: every float32 within 6 ulps of each field / branch boundary, both signs of the neighbourhood
        bounds = [Fr(-999999, 10000), Fr(9999999, 10000), Fr(-9999995, 100000), Fr(99999995, 100000),
                  Fr(-9999995, 10000), Fr(99999995, 10000), Fr(-999999, 1000), Fr(9999999, 1000),
                  Fr(-9999999, 10), Fr(99999999, 10), Fr(-100), Fr(-10), Fr(100), Fr(1000), Fr(5, 10000), Fr(-5, 10000)]
        for c in bounds:
            b0 = f2b(float(c))
            for k in range(-6, 7):
                trajs.append({"n_atoms": 2, "xyz": [[b0 + k, one(0.25), one(-0.5), one(1.0), b0 + k, one(3.0)],
                                                    [one(0.5), b0 + k, one(0.75), one(1.5), one(2.5), b0 + k]],
                              "cls": "sweep", "time": [one(0.0), one(2.0)],
                              "cell": {"lengths": [[one(4.0), one(5.0), one(6.0)]] * 2, "angles": [[one(90.0)] * 3] * 2,
                                       "kind": "ortho"} if k % 2 else None})
        ctx.notes.setdefault("coverage_extra", {})["exhaustive_boundary_sweep"] = {
            "boundaries": [float(c) for c in bounds], "ulps": [-6, 6], "exhaustive": True}
    # how the object got its time stamps: constructor, assigned after a time-less construction, re-assigned, or
    # inherited through slicing / joining (the stamps are the same in every case)
    ths = ["direct", "assign", "reassign", "slice", "join", "assign", "stack_slice"]
    k = 0
    for tj in trajs:
        if tj.get("time") is not None and tj["cls"] != "probe":
            tj["time_hist"] = ths[k % len(ths)]
            k += 1
    sid = 0
    for tj in trajs:
        tj["saves"] = saves_for(rng, tj, quick)
        for s in tj["saves"]:
            s["sid"] = sid
            sid += 1
    return trajs


# --------------------------------------------------------------------------- checking one save
def pack_job(kind, ps, n32=(), n64=(), w64=32, txt=""):
    """one job of the stream Run.run_stream decodes (see coq/Codec/Run.v)"""
    out = [kind, len(ps)] + list(ps) + [len(n32)] + list(n32)
    if w64 == 64:
        raw = []
        for b in n64:
            raw += [b >> 32, b & 0xFFFFFFFF]
    else:
        raw = list(n64)
    out += [len(raw)] + raw
    data = txt.encode("latin-1")
    out.append(len(data))
    for k in range(0, len(data), 7):
        chunk = data[k:k + 7].ljust(7, b"\0")
        out.append(int.from_bytes(chunk, "big"))
    return out


def run_streams(ctx, streams, requires=("MD.Codec.Model", "MD.Codec.Run"), fn="run_stream", shards=8, min_per=20):
    """streams: list of int lists (one per job).  Returns (bad job indices, errors); all shards in parallel."""
    from concurrent.futures import ThreadPoolExecutor
    if not streams:
        return [], []
    per = max(min_per, (len(streams) + shards - 1) // shards)
    parts = [(k, streams[k:k + per]) for k in range(0, len(streams), per)]

    def one(part):
        off, js = part
        flat = [x for j in js for x in j]
        text = ("From Coq Require Import ZArith List.\nFrom Coq Require Import Uint63 PArray.\n" +
                "".join("Require Import %s.\n" % r for r in requires) +
                "Open Scope uint63_scope.\nDefinition data : PArray.array Uint63.int := [| %s | 0 |].\n" % ("; ".join(map(str, flat)) or "0") +
                "Eval vm_compute in (%s data).\n" % fn)
        rc, outp = ctx.coqc_text("stream_%s_%d" % (fn, off), text, timeout=900)
        if os.environ.get("C01_KEEP"):
            import shutil
            shutil.copy(os.path.join(ctx.tmp, "stream_%s_%d.v" % (fn, off)), os.environ["C01_KEEP"])
        if rc != 0:
            return off, len(js), None, outp[-2000:]
        m = re.search(r"=\s*\((\d+)%nat,(.*?)\)\s*:\s*nat \* list nat", outp, re.S)
        if not m:
            return off, len(js), None, "unparsed coqc output: " + outp[-1500:]
        if int(m.group(1)) != len(js):
            return off, len(js), None, "stream decoded %s jobs, %d were sent" % (m.group(1), len(js))
        return off, len(js), [int(x) for x in re.findall(r"(\d+)%nat", m.group(2))], None
    bad, errs = [], []
    with ThreadPoolExecutor(max_workers=4) as ex:
        for off, _n, b, e in ex.map(one, parts):
            if e:
                errs.append(e)
            else:
                bad += [off + i for i in b]
    return sorted(bad), errs


class Jobs:
    """Coq evaluations collected during a run: Run.run_job on compact streams (Coq's number/string notations
    are too slow for long literals), all evaluated by one sharded vm_compute pass."""

    def __init__(self):
        self.items = []

    def add(self, kind, ps, on_bad, n32=(), n64=(), w64=32, txt=""):
        self.items.append((pack_job(kind, ps, n32, n64, w64, txt), on_bad))

    def run(self, ctx):
        if not self.items:
            return
        bad, errs = run_streams(ctx, [a for a, _ in self.items])
        if errs:
            ctx.break_("correspondence:coqc-evaluation", "\n".join(errs))
            return
        for i in bad:
            self.items[i][1]()
        ctx.log("coq jobs:", len(self.items), "mismatches:", len(bad))


EXTRA_REQ = []


def text_lines(files, name):
    return files[name]["text"].split("\n")


def mframes_nums(tj):
    out = []
    for i, x in enumerate(tj["xyz"]):
        out += x
        if tj["cell"]:
            out += tj["cell"]["lengths"][i]
    return out


def in_field_range(tj, ext, opts):
    """Does every coordinate (and cell length) fit the format's fixed-width field?  (exact)"""
    unit, p = STD[ext]
    if p in ("bin", "xtc"):
        return all(abs(fr32(b)) < 2 ** 20 for f in tj["xyz"] for b in f)
    if ext == ".gro":
        p = opts.get("precision", 3)
    scale = 10 if unit == "A" else 1
    w = {".rst7": 12, ".gro": p + 5}.get(ext, 8)
    room = w - p - 1
    lo, hi = -(10 ** (room - 1)), 10 ** room     # printed value must satisfy lo < v < hi after rounding
    half = Fr(1, 2 * 10 ** p)
    for f in tj["xyz"]:
        for b in f:
            v = rnd32_mul10(b) if scale == 10 else fr32(b)
            if ext in (".pdb", ".pdb.gz"):
                if not (Fr(-9999999) < v < Fr(99999999)):
                    return False
            elif ext in (".xyz", ".xyz.gz", ".lammpstrj"):
                continue          # whitespace separated: no field limit
            elif not (lo + half < v < hi - half):
                return False
    if tj.get("cell"):          # fixed-width cell fields: CRYST1 %9.3f (A), gro box %10.5f (nm), rst7 %12.7f (A)
        cl = {".pdb": (10, Fr(999999995, 10000)), ".pdb.gz": (10, Fr(999999995, 10000)), ".gro": (1, Fr(999999995, 1000000)),      # read back with split(): needs the leading blank
              ".rst7": (10, Fr(99999999995, 10000000))}.get(ext)
        if cl:
            for row in tj["cell"]["lengths"]:
                for b in row:
                    if not (fr32(b) * cl[0] < cl[1]):
                        return False
    return True


def tol_xyz(ext, opts, x):
    """stated bound on |loaded - original| (nm) for one coordinate x (Fraction, nm)"""
    unit, p = STD[ext]
    ulp = abs(x) * Fr(1, 2 ** 21) + Fr(1, 2 ** 140)
    if p == "bin":
        return Fr(0) if unit == "nm" else ulp
    if p == "xtc":
        return Fr(1, 2000) + ulp
    if ext == ".gro":
        p = opts.get("precision", 3)
    res = Fr(1, 10 ** p) * (Fr(1, 10) if unit == "A" else 1)
    if ext in (".pdb", ".pdb.gz"):
        a = fr32(f2b(float(x * 10)))            # the float32 angstrom value that is printed
        if not (Fr(-999999, 1000) < a < Fr(9999999, 1000)):
            excess = len("%8.3f" % float(a)) - 8       # characters _format_83 cuts off
            kept = max(0, 3 - excess)
            return Fr(1, 10 ** kept) / 10 + res / 2 + ulp
    return res / 2 + ulp


def fail(ctx, case, desc, observed, expected, **tags):
    tags.setdefault("fmt", case["save"]["ext"])
    ctx.fail(desc, case, observed=observed, expected=expected, tags=tags)


def check_loaded(ctx, case, tj, sv, res, mem, skip_time=False):
    """(iv) md.load(save(t)) against t, exact rational comparison under the stated bounds."""
    ext, opts = sv["ext"], sv["opts"]
    lo = res["load"]
    T, n = len(tj["xyz"]), tj["n_atoms"]
    inr = in_field_range(tj, ext, opts)
    if "multi" in lo:
        return      # restart files are compared file by file in check_restart
    texp = any("e" in repr(float(fr64(b))) or fr64(b) < 0 for b in mem["time"])
    if "err" in lo:
        if inr:
            fail(ctx, case, "%s: saved file cannot be loaded back (%s)" % (ext, lo["err"]["cls"]), lo["err"],
                 "a trajectory with %d frames" % T, kind="load_refuses", err=lo["err"]["cls"], n_atoms=n,
                 cls=tj["cls"], explained_by=case.get("explained_by"), time_exponent=texp,
                 what="time" if (ext == ".gro" and lo["err"]["cls"] == "IndexError") else None)
        return
    if lo["n_frames"] != T or lo["n_atoms"] != n:
        fail(ctx, case, "%s: load(save(t)) has a different number of frames/atoms" % ext,
             {"n_frames": lo["n_frames"], "n_atoms": lo["n_atoms"]}, {"n_frames": T, "n_atoms": n},
             kind="shape", n_atoms=n, explained_by=case.get("explained_by"), header=opts.get("header"), multi=T > 1)
        return
    if not inr and STD[ext][1] in ("bin", "xtc"):
        return
    # beyond the field limit of a text format the oracle stays: either refused with an error (handled above), or the
    # numbers that come back are the numbers that were saved -- never silently different
    flat = [b for f in tj["xyz"] for b in f]
    worst = None
    for k, (b0, b1) in enumerate(zip(flat, lo["xyz"])):
        x0, x1 = fr32(b0), fr32(b1)
        t = tol_xyz(ext, opts, x0)
        if abs(x1 - x0) > t:
            worst = (k, float(x0), float(x1), float(t))
            break
    if worst:
        fail(ctx, case, "%s: load(save(t)) coordinates differ by more than the format's precision%s" % (
                 ext, "" if inr else " (value beyond the field limit neither refused nor written correctly)"),
             {"index": worst[0], "loaded": worst[2]}, {"original": worst[1], "bound": worst[3]}, kind="silent_diff",
             what="xyz", n_atoms=n, beyond_limit=not inr)
    if not inr:
        return
    # time
    tmode = {".h5": 1, ".xtc": 1, ".trr": 1, ".nc": 1, ".netcdf": 1, ".ncdf": 1, ".gro": 1, ".dtr": 1,
             ".rst7": 1, ".ncrst": 1}.get(ext)
    if tmode and not skip_time:
        t0 = [fr64(b) for b in mem["time"]]
        t1 = [fr64(b) for b in lo["time"]]
        rel = Fr(1, 10 ** 7) if ext == ".rst7" else Fr(0)
        bad = [i for i, (a, b) in enumerate(zip(t0, t1)) if abs(a - b) > rel * abs(a)]
        if bad:
            fail(ctx, case, "%s: load(save(t)) time stamps differ" % ext, [float(x) for x in t1], [float(x) for x in t0],
                 kind="silent_diff", what="time", time_exponent=texp)
    # unit cell
    cmode = {".h5": "la", ".xtc": "vec", ".trr": "vec", ".dcd": "la", ".nc": "la", ".netcdf": "la", ".ncdf": "la",
             ".mdcrd": "len", ".crd": "len", ".lammpstrj": "la", ".gro": "vec", ".pdb": "first", ".pdb.gz": "first",
             ".dtr": "la", ".rst7": "la", ".ncrst": "la"}.get(ext)
    if cmode is None:
        return
    if tj["cell"] is None:
        if lo["lengths"] is not None and ext != ".lammpstrj":
            fail(ctx, case, "%s: loaded trajectory has a unit cell, the saved one had none" % ext,
                 [b2f(b) for b in lo["lengths"][:3]], None, kind="cell_invented", n_atoms=n,
                 explained_by=case.get("explained_by"))
        return
    if lo["lengths"] is None:
        fail(ctx, case, "%s: unit cell lost by load(save(t))" % ext, None, "cell", kind="cell_lost", n_atoms=n,
             small_cell=all(b2f(b) < 6.0 for b in mem["lengths"]) and all(b2f(b) < 60.0 for b in mem["angles"]))
        return
    L0 = [fr32(b) for b in mem["lengths"]]
    A0 = [fr32(b) for b in mem["angles"]]
    if cmode == "first":
        L0, A0 = L0[:3] * T, A0[:3] * T
    L1 = [fr32(b) for b in lo["lengths"]]
    A1 = [fr32(b) for b in lo["angles"]]
    ltol = {".pdb": Fr(1, 10000), ".pdb.gz": Fr(1, 10000), ".mdcrd": Fr(1, 10000), ".crd": Fr(1, 10000),
            ".gro": Fr(4, 100000), ".rst7": Fr(1, 10 ** 7)}.get(ext, Fr(0))
    atol = {".pdb": Fr(6, 1000), ".pdb.gz": Fr(6, 1000), ".gro": Fr(1, 100), ".xtc": Fr(1, 1000), ".trr": Fr(1, 1000),
            ".dcd": Fr(1, 1000), ".lammpstrj": Fr(1, 1000), ".dtr": Fr(1, 1000), ".rst7": Fr(1, 10 ** 6)}.get(ext, Fr(0))
    badl = [i for i, (a, b) in enumerate(zip(L0, L1)) if abs(a - b) > ltol + abs(a) * Fr(1, 2 ** 20)]
    bada = [i for i, (a, b) in enumerate(zip(A0, A1)) if cmode != "len" and abs(a - b) > atol + abs(a) * Fr(1, 2 ** 20)]
    if badl or bada:
        fail(ctx, case, "%s: load(save(t)) unit cell differs" % ext,
             {"lengths": [float(x) for x in L1], "angles": [float(x) for x in A1]},
             {"lengths": [float(x) for x in L0], "angles": [float(x) for x in A0]}, kind="silent_diff", what="cell")


def lammps_box_mismatch(lines, len_bits, ang_bits):
    """Independent reading of the BOX BOUNDS block of a LAMMPS dump frame (LAMMPS manual, 'triclinic' how-to):
    orthogonal: 'xlo xhi' per axis; triclinic: 'xlo_bound xhi_bound xy' / 'ylo_bound yhi_bound xz' / 'zlo_bound zhi_bound yz'
    with xlo = xlo_bound - min(0, xy, xz, xy+xz), xhi = xhi_bound - max(0, xy, xz, xy+xz), ylo = ylo_bound - min(0, yz),
    yhi = yhi_bound - max(0, yz).  The lengths (angstrom) and the cosines of the angles recovered from it must be those of the
    cell, up to 1e-5 relative (float64 arithmetic of the writer on float32 inputs).  Returns None or (observed, expected)."""
    import math
    hdr = lines[0].split()
    rows = [[float(Fr(tok)) for tok in l.split()] for l in lines[1:4]]
    L = [float(fr32(b) * 10) for b in len_bits]
    A = [float(fr32(b)) for b in ang_bits]
    tol = 1e-5
    if len(hdr) == 6:
        if any(len(r) != 2 for r in rows):
            return [lines, "two numbers per axis"]
        got = [r[1] - r[0] for r in rows]
        if any(abs(a - 90.0) > 1e-3 for a in A) or any(abs(g - w) > tol * max(1.0, abs(w)) + 4e-7 * (abs(r[0]) + abs(r[1])) for g, w, r in zip(got, L, rows)):
            return [{"style": "orthogonal", "extents": got}, {"lengths_A": L, "angles": A}]
        return None
    if len(hdr) == 9 and hdr[3:6] == ["xy", "xz", "yz"]:
        if any(len(r) != 3 for r in rows):
            return [lines, "three numbers per axis"]
        xy, xz, yz = rows[0][2], rows[1][2], rows[2][2]
        xlo = rows[0][0] - min(0.0, xy, xz, xy + xz)
        xhi = rows[0][1] - max(0.0, xy, xz, xy + xz)
        ylo = rows[1][0] - min(0.0, yz)
        yhi = rows[1][1] - max(0.0, yz)
        lx, ly, lz = xhi - xlo, yhi - ylo, rows[2][1] - rows[2][0]
        a, b, c = lx, math.sqrt(ly * ly + xy * xy), math.sqrt(lz * lz + xz * xz + yz * yz)
        cosines = [(xy * xz + ly * yz) / (b * c), xz / c, xy / b]
        want = [math.cos(math.radians(x)) for x in A]
        slack = 4e-7 * max(abs(v) for r in rows for v in r)
        if (any(abs(g - w) > tol * max(1.0, abs(w)) + slack for g, w in zip((a, b, c), L)) or
                any(abs(g - w) > 2e-5 + slack / max(1.0, min(L)) for g, w in zip(cosines, want)) or min(lx, ly, lz) <= 0):
            return [{"style": "triclinic", "lengths_A": [a, b, c], "cosines": cosines}, {"lengths_A": L, "cosines": want}]
        return None
    return [lines[0], "ITEM: BOX BOUNDS pp pp pp | ITEM: BOX BOUNDS xy xz yz pp pp pp"]


def atoms_of(tj, i):
    f = tj["xyz"][i]
    return [f[3 * a:3 * a + 3] for a in range(tj["n_atoms"])]


def items_lit(pairs):
    return clist(["(%s, %s)" % (cdys(x), cstr(s)) for x, s in pairs])


def tie_break(ctx, case, what, detail):
    """the model and the implementation disagree on a case: the tie is broken (reported once per kind)"""
    seen = ctx.notes.setdefault("tie_break_counts", {})
    seen[what] = seen.get(what, 0) + 1
    if seen[what] > 1:
        return
    ctx.break_("correspondence:%s" % what, "%s\ncase sid=%s ext=%s" % (detail, case["save"].get("sid"), case["save"]["ext"]))
    ctx.notes.setdefault("tie_examples", []).append({"what": what, "case": case, "detail": detail[:500]})


def check_text(ctx, jobs, case, tj, sv, res, mem):
    """(i) characters written against the model encoder, model decoder on mdtraj's characters."""
    ext, opts = sv["ext"], sv["opts"]
    T, n = len(tj["xyz"]), tj["n_atoms"]
    files = res["files"]
    name = "s%d%s" % (sv["sid"], ext)

    def structure(ok, what):
        if not ok:
            tie_break(ctx, case, "layout[%s]" % ext, what)
        return ok

    if ext in (".mdcrd", ".crd"):
        lines = text_lines(files, name)
        if not structure(lines[0] == "TITLE : Created by MDTraj with %d atoms" % n and lines[-1] == "", "title/terminator"):
            return
        body = lines[1:-1]
        hasb = 1 if tj["cell"] else 0
        jobs.add(0, [n, hasb], lambda: tie_break(ctx, case, "bytes[mdcrd]", "model writer and MDCRDTrajectoryFile.write disagree"),
                 n32=mframes_nums(tj), txt="\n".join(body))
        hb = 2 if n >= 2 else hasb
        jobs.add(1, [n, hasb, hb], lambda: tie_break(ctx, case, "decode[mdcrd]", "model reader does not extract the quantised numbers"),
                 n32=mframes_nums(tj), txt="\n".join(body))
        case["_mdcrd_body"] = body
    elif ext in (".xyz", ".xyz.gz", ".lammpstrj"):
        lines = text_lines(files, name)
        pairs = []
        per = (n + 2) if ext != ".lammpstrj" else (n + 9)
        if not structure(len(lines) == per * T + 1 and lines[-1] == "", "line count"):
            return
        for i in range(T):
            blk = lines[per * i:per * (i + 1)]
            if ext == ".lammpstrj":
                ok = (blk[0] == "ITEM: TIMESTEP" and blk[1] == str(i) and blk[2] == "ITEM: NUMBER OF ATOMS" and blk[3] == str(n)
                      and blk[4].startswith("ITEM: BOX BOUNDS") and blk[8] == "ITEM: ATOMS id type xu yu zu")
                if ok and tj["cell"]:
                    bad = lammps_box_mismatch(blk[4:8], mem["lengths"][3 * i:3 * i + 3], mem["angles"][3 * i:3 * i + 3])
                    if bad:
                        fail(ctx, case, ".lammpstrj: BOX BOUNDS do not describe the frame's unit cell (LAMMPS dump convention)", bad[0], bad[1],
                             kind="native_value", what="cell")
                rows = blk[9:]
                pre = ["%d 1" % (a + 1) for a in range(n)]
            else:
                ok = blk[0] == str(n) and blk[1].startswith("Created with MDTraj")
                rows = blk[2:]
                pre = [["N", "CA", "C"][a % 3] for a in range(n)]
            if not structure(ok and all(r.startswith(p + " ") for r, p in zip(rows, pre)), "frame header / leading tokens"):
                return
            pairs += [(x, r[len(p):]) for x, r, p in zip(atoms_of(tj, i), rows, pre)]
        jobs.add(4, [1 if ext == ".lammpstrj" else 0],
                 lambda: tie_break(ctx, case, "bytes[%s]" % ext, "coordinate tokens differ from the model / do not decode"),
                 n32=[b for x, _ in pairs for b in x], txt="\n".join(r for _, r in pairs))
    elif ext == ".gro":
        p = opts["precision"]
        lines = text_lines(files, name)
        per = n + 3
        if not structure(len(lines) == per * T + 1 and lines[-1] == "", "line count"):
            return
        pairs, boxes = [], []
        for i in range(T):
            blk = lines[per * i:per * (i + 1)]
            if not structure(blk[0].startswith("Generated with MDTraj, t= ") and blk[1] == " %d" % n, "gro header"):
                return
            tt = blk[0][len("Generated with MDTraj, t= "):]
            try:
                if Fr(float(tt)) != fr64(mem["time"][i]):
                    fail(ctx, case, ".gro: time in the title line is not the frame's time", tt, float(fr64(mem["time"][i])),
                         kind="native_value", what="time")
            except ValueError:
                structure(False, "time text %r" % tt)
            pairs += [(x, r[20:]) for x, r in zip(atoms_of(tj, i), blk[2:2 + n])]
            uv = mem["uv"][9 * i:9 * i + 9] if mem["uv"] else [0] * 9
            order = [0, 4, 8, 1, 2, 3, 5, 6, 7]
            boxes.append(([uv[k] for k in order], blk[-1]))
        jobs.add(6, [], lambda: tie_break(ctx, case, "bytes[gro box]", "box line differs from the model"),
                 n32=[b for x, _ in boxes for b in x], txt="\n".join(r for _, r in boxes))
        jobs.add(5, [p], lambda: tie_break(ctx, case, "bytes[gro]", "coordinate columns differ from the model / do not decode"),
                 n32=[b for x, _ in pairs for b in x], txt="\n".join(r for _, r in pairs))
    elif ext in (".pdb", ".pdb.gz"):
        lines = text_lines(files, name)
        atoms = [l for l in lines if l.startswith("ATOM")]
        if not structure(len(atoms) == n * T and all(len(l) == 80 for l in atoms), "ATOM record count/width"):
            return
        pairs = []
        for i in range(T):
            pairs += [(x, l[30:54]) for x, l in zip(atoms_of(tj, i), atoms[n * i:n * (i + 1)])]
        jobs.add(7, [], lambda: tie_break(ctx, case, "bytes[pdb]", "columns 31-54 differ from _format_83 model / do not decode"),
                 n32=[b for x, _ in pairs for b in x], txt="\n".join(r for _, r in pairs))
        hdr = opts.get("header", True)
        structure(len([l for l in lines if l.startswith("MODEL")]) == (T if hdr else 0) and
                  len([l for l in lines if l == "ENDMDL"]) == (T if hdr else 0), "MODEL/ENDMDL records")
        nch = len([c for c in range(len(tj.get("chains") or [None])) if any(a * len(tj.get("chains") or [None]) // n == c for a in range(n))])
        structure(len([l for l in lines if l.startswith("TER")]) == (T * nch if opts.get("ter", True) else 0), "TER records")
        cr = [l for l in lines if l.startswith("CRYST1")]
        if tj["cell"]:
            if structure(len(cr) == 1, "one CRYST1 record"):
                jobs.add(8, [], lambda: tie_break(ctx, case, "bytes[CRYST1]", "CRYST1 record differs from the model"),
                         n32=mem["lengths"][:3] + mem["angles"][:3], txt=cr[0])
                if all(fr32(b) * 10 < Fr(999999995, 10000) for b in mem["lengths"][:3]) and all(fr32(b) < Fr(999999, 1000) for b in mem["angles"][:3]):
                    jobs.add(15, [], lambda: tie_break(ctx, case, "decode[CRYST1]", "model of PdbStructure's CRYST1 columns does not extract the quantised cell"),
                             n32=mem["lengths"][:3] + mem["angles"][:3], txt=cr[0])
        else:
            structure(not cr, "no CRYST1 without cell")
        if opts.get("bfactors") is not None:
            bf = opts["bfactors"]
            per_frame = opts["bf_shape"] == [T, n]
            for k, l in enumerate(atoms):
                b = bf[k] if per_frame else bf[k % n]
                want = "%5.2f" % b2f(b)
                if l[61:66] != want[:5] or len(want) != 5:
                    tie_break(ctx, case, "bytes[pdb bfactor]", "atom record %d has %r, expected %r" % (k, l[61:66], want))
                    break
    elif ext == ".rst7":
        for fi, fn in enumerate(sorted(files, key=lambda s: (len(s), s))):
            lines = files[fn]["text"].split("\n")
            if not structure(lines[0].startswith("Amber restart file") and lines[-1] == "", "rst7 title"):
                return
            m = re.fullmatch(r"( *\d+)( *-?\d\.\d{7}e[+-]\d+)", lines[1])
            if not structure(m and len(m.group(1)) == 5 and len(m.group(2)) == 15 and int(m.group(1)) == n, "natom/time line"):
                return
            i = fi if T > 1 else 0
            nums = list(tj["xyz"][i])
            if tj["cell"]:
                nums += mem["lengths"][3 * i:3 * i + 3] + mem["angles"][3 * i:3 * i + 3]
            jobs.add(9, [1 if tj["cell"] else 0], lambda: tie_break(ctx, case, "bytes[rst7]", "coordinate/box lines differ from the model"),
                     n32=nums, txt="\n".join(lines[2:-1]))
            jobs.add(16, [1 if tj["cell"] else 0], lambda: tie_break(ctx, case, "decode[rst7]", "model of AmberRestartFile's 12-column reader does not extract the quantised numbers"),
                     n32=nums, txt="\n".join(lines[2:-1]))


def check_raw(ctx, jobs, case, tj, sv, res, mem):
    """(iii) numbers an independent reader extracts from the binary containers."""
    ext = sv["ext"]
    raw = res.get("raw") or {}
    T, n = len(tj["xyz"]), tj["n_atoms"]
    if "err" in raw:
        tie_break(ctx, case, "raw-reader[%s]" % ext, str(raw["err"]))
        return
    flat = [b for f in tj["xyz"] for b in f]

    def native(what, observed, expected):
        fail(ctx, case, "%s: file does not hold the %s an independent reader expects" % (ext, what), observed, expected,
             kind="native_value", what=what)

    def container(xs, rawbits, w, what, scale=True):
        if len(xs) != len(rawbits):
            native(what + " (count)", len(rawbits), len(xs))
            return
        jobs.add(10 if scale else 11, [w],
                 lambda: native(what, [b2f(b) if w == 32 else float(fr64(b)) for b in rawbits[:6]], [b2f(b) for b in xs[:6]]),
                 n32=xs, n64=rawbits, w64=w, txt=ext)

    def loader_units(rawbits, w, lo=None):
        """the loader's conversion: what md.load returns must be from_file_unit (GlueModel.v) of the numbers in the file"""
        lo = res.get("load") if lo is None else lo
        if w != 32 or not lo or "err" in lo or "multi" in lo or lo.get("n_frames") != T or lo.get("n_atoms") != n or len(lo["xyz"]) != len(rawbits):
            return
        jobs.add(14, [w, 1 if ext in (".nc", ".netcdf", ".ncdf") else 0],
                 lambda: tie_break(ctx, case, "load-units[%s]" % ext, "md.load does not return from_file_unit(number in the file): "
                                            "file %s loaded %s" % ([b2f(b) if w == 32 else float(fr64(b)) for b in rawbits[:3]],
                                                                   [b2f(b) for b in lo["xyz"][:3]])),
                 n32=lo["xyz"], n64=rawbits, w64=w, txt=ext)

    def schema(what, observed, expected):
        if observed != expected:
            fail(ctx, case, "%s: container layout is not the format convention's (%s)" % (ext, what), observed, expected,
                 kind="native_schema", what=what)

    def one_nc(r, frames, unitw, skip_time=False, lo=None):
        c = r.get("coordinates")
        if not c:
            native("coordinates variable", list(r), "coordinates")
            return
        xs = [b for i in frames for b in tj["xyz"][i]]
        container(xs, c["b"], c["w"], "coordinates")
        if len(frames) == T:
            loader_units(c["b"], c["w"])
        elif c["w"] == 32 and lo is not None and "err" not in lo and len(lo.get("xyz", [])) == len(c["b"]):
            jobs.add(14, [c["w"], 0], lambda: tie_break(ctx, case, "load-units[%s]" % ext, "restart loader does not return from_file_unit(file)"),
                     n32=lo["xyz"], n64=c["b"], w64=c["w"], txt=ext)
        # container schema of the format convention (MDTraj HDF5 1.1 / AMBER NetCDF 1.0 / AMBER NetCDF restart 1.0)
        std = SCHEMA_STD[".nc" if ext in (".netcdf", ".ncdf") else ext]
        schema("conventions attribute", [r.get("conventions"), r.get("convention_version")], std["conv"])
        for name in ("coordinates", "time", "cell_lengths", "cell_angles"):
            if r.get(name):
                schema("%s: float width" % name, r[name]["w"], std["w"][name])
                if "dims" in std:
                    schema("%s: dimensions" % name, r[name].get("dims"), std["dims"][name])
                if r.get("extra_attrs", {}).get(name):
                    bad = [a for a in r["extra_attrs"][name] if a in ("scale_factor", "add_offset")]
                    schema("%s: scaling attributes" % name, bad, [])
        if "labels" in std:
            want = {k: v for k, v in std["labels"].items() if k in (r.get("labels") or {}) or k == "spatial"}
            schema("label variables", {k: (r.get("labels") or {}).get(k) for k in want}, want)
        if c.get("units") != unitw[0]:
            native("coordinates units attribute", c.get("units"), unitw[0])
        t = r.get("time")
        if t:
            want = [mem["time"][i] for i in frames]
            got = [fr32(b) if t["w"] == 32 else fr64(b) for b in t["b"]]
            if got != [fr64(b) for b in want] and not skip_time:
                native("time", [float(x) for x in got], [float(fr64(b)) for b in want])
            if t.get("units") != unitw[1]:
                native("time units attribute", t.get("units"), unitw[1])
        else:
            native("time variable", None, "time")
        if tj["cell"]:
            cl, ca = r.get("cell_lengths"), r.get("cell_angles")
            if not cl or not ca:
                native("cell variables", list(r), "cell_lengths, cell_angles")
                return
            container([b for i in frames for b in mem["lengths"][3 * i:3 * i + 3]], cl["b"], cl["w"], "cell_lengths")
            container([b for i in frames for b in mem["angles"][3 * i:3 * i + 3]], ca["b"], ca["w"], "cell_angles", scale=False)
            if cl.get("units") != unitw[0] or ca.get("units") != unitw[2]:
                native("cell units attributes", [cl.get("units"), ca.get("units")], [unitw[0], unitw[2]])
        elif r.get("cell_lengths") or r.get("cell_angles"):
            native("absence of cell variables", "present", "absent")

    if ext in (".h5", ".nc", ".netcdf", ".ncdf"):
        one_nc(raw, range(T), UNITWORD[ext])
    elif ext == ".ncrst":
        per = (res.get("load") or {}).get("multi", {})
        for fi, fn in enumerate(sorted(raw, key=lambda s: (len(s), s))):
            one_nc(raw[fn], [fi] if T > 1 else [0], UNITWORD[ext], skip_time=T > 1, lo=per.get(fn))
    elif ext == ".xtc":
        data = base64.b64decode(res["files"]["s%d%s" % (sv["sid"], ext)]["b64"])
        times = tj["time"] if tj.get("time") is not None else [f2b(float(i)) for i in range(T)]
        uv = mem["uv"] if mem["uv"] else [0] * (9 * T)
        if n > 9 and len(data) >= 88:
            hist = ctx.notes.setdefault("coverage_extra", {}).setdefault("xtc_header_smallidx_histogram", {})
            k0 = str(struct.unpack(">i", data[84:88])[0])
            hist[k0] = hist.get(k0, 0) + 1
        jobs.add(12, [n, T], lambda: native("frames (Gallina XTC decoder)", "%d bytes" % len(data),
                                            "header, time, box and quantised coordinates of every frame"),
                 n32=flat + list(times) + list(uv), txt=data.decode("latin-1"))
        jobs.add(13, [n, T], lambda: tie_break(ctx, case, "bytes[xtc]", "model encoder and xdrfile_compress_coord_float disagree"),
                 n32=flat + list(times) + list(uv), txt=data.decode("latin-1"))
    elif ext == ".trr":
        fr = raw["frames"]
        if len(fr) != T or any(f["natoms"] != n or f["magic"] != 1993 for f in fr):
            native("frame count / natoms / magic", [(f["natoms"], f["magic"]) for f in fr], (T, n, 1993))
            return
        container(flat, [b for f in fr for b in f["x"]], fr[0]["w"], "coordinates")
        loader_units([b for f in fr for b in f["x"]], fr[0]["w"])
        # header fields of the GROMACS trn frame an independent reader relies on
        fsz = fr[0]["w"] // 8
        for i, f in enumerate(fr):
            hdr = {"version": f["version"], "slen": f["slen"], "step": f["step"], "lambda": f["lambda"], "nre": f["nre"],
                   "sizes": f["sizes"]}
            want = {"version": "GMX_trn_file", "slen": 13, "step": i, "lambda": 0, "nre": 0,
                    "sizes": [0, 0, 9 * fsz, 0, 0, 0, 0, 3 * n * fsz, 0, 0]}
            if hdr != want:
                schema("trn frame header", hdr, want)
                break
        got = [fr32(f["time"]) if f["w"] == 32 else fr64(f["time"]) for f in fr]
        if got != [fr64(b) for b in mem["time"]]:
            native("time", [float(x) for x in got], [float(fr64(b)) for b in mem["time"]])
        uv = mem["uv"] if mem["uv"] else [0] * (9 * T)
        container(uv, [b for f in fr for b in f["box"]], fr[0]["w"], "box vectors", scale=False)
        if any(f["v_size"] or f["f_size"] for f in fr):
            native("absence of velocities/forces", "present", "absent")
    elif ext == ".dtr":
        fr = raw["frames"]
        if len(fr) != T:
            native("frame count (timekeys)", len(fr), T)
            return
        pos = [f["items"].get("POSITION") for f in fr]
        if any(p is None or p.get("w") != 32 or len(p["b"]) != 3 * n for p in pos):
            native("POSITION field (3*n_atoms floats)", [None if p is None else len(p.get("b", [])) for p in pos], 3 * n)
            return
        container(flat, [b for p in pos for b in p["b"]], 32, "coordinates (POSITION)")
        loader_units([b for p in pos for b in p["b"]], 32)
        tms = [f["items"].get("CHEMICAL_TIME") for f in fr]
        got = [None if t is None else fr64(t["b"][0]) for t in tms]
        keys = [fr64(f["key_time"]) for f in fr]
        want = [fr64(b) for b in mem["time"]]
        if got != want or keys != want:
            native("time (CHEMICAL_TIME field and timekeys record)", [None if g is None else float(g) for g in got], [float(w) for w in want])
        uvs = mem["uv"] or []
        for i, f in enumerate(fr):
            uc = f["items"].get("UNITCELL")
            if uc is None or len(uc["b"]) != 9:
                native("UNITCELL field (9 numbers)", uc, 9)
                return
            vals = [fr32(b) if uc["w"] == 32 else fr64(b) for b in uc["b"]]
            for r in range(3):
                for c in range(3):          # stored[3*r + c] = component r of box vector c, in angstrom
                    w = fr32(uvs[9 * i + 3 * c + r]) * 10
                    if abs(vals[3 * r + c] - w) > Fr(1, 10 ** 5) * max(1, abs(w)) + Fr(1, 10 ** 4):
                        native("unit cell (UNITCELL: box vectors as columns, angstrom)", [float(v) for v in vals],
                               [float(fr32(b) * 10) for b in uvs[9 * i:9 * i + 9]])
                        return
    elif ext == ".dcd":
        fr = raw["frames"]
        if len(fr) != T or raw["natoms"] != n or raw["nset_header"] != T:
            native("frame count / natoms", (len(fr), raw["natoms"], raw["nset_header"]), (T, n, T))
            return
        container(flat, [b for f in fr for b in f["x"]], 32, "coordinates")
        loader_units([b for f in fr for b in f["x"]], 32)
        # CHARMM header block, title and atom-count records (32-bit Fortran record markers are checked by the reader)
        h = dict(raw["header"])
        delta = fr32(h.pop("delta_bits"))
        istart, nsavc = h.pop("istart"), h.pop("nsavc")
        if h.pop("nstep") != istart + T * nsavc:       # NSTEP: steps elapsed at the last frame (CHARMM / VMD convention)
            schema("DCD header NSTEP", raw["header"]["nstep"], istart + T * nsavc)
        h["trailing"] = raw["trailing"]
        want = {"hdr_len": 84, "nfixed": 0, "fourdims": 0, "charmm_version": 24, "ntitle": h["ntitle"], "title_len": 4 + 80 * h["ntitle"],
                "natom_rec_len": 4, "unused_zero": True, "trailing": 0}
        schema("DCD header", h, want)
        lo = res.get("load") or {}
        if "err" not in lo and lo.get("n_frames") == T:
            # the header's ISTART / NSAVC / DELTA give the frames' time axis; it must be the one mdtraj reports for the file
            tt = [(istart + i * nsavc) * delta for i in range(T)]
            if nsavc < 1 or tt != [fr64(b) for b in lo["time"]]:
                native("time axis (ISTART, NSAVC, DELTA of the header)", [float(x) for x in tt], [float(fr64(b)) for b in lo["time"]])
        if bool(raw["has_cell"]) != bool(tj["cell"]):
            native("unit cell flag", raw["has_cell"], bool(tj["cell"]))
        elif tj["cell"]:
            container(mem["lengths"], [f["cell"][k] for f in fr for k in (0, 2, 5)], 64, "cell lengths (A, B, C)")
            import math
            for i, f in enumerate(fr):
                for k, a in ((4, 0), (3, 1), (1, 2)):       # cos(alpha), cos(beta), cos(gamma)
                    want = math.cos(math.radians(b2f(mem["angles"][3 * i + a])))
                    if abs(float(fr64(f["cell"][k])) - want) > 1e-6:
                        native("cell angle cosines", float(fr64(f["cell"][k])), want)
                        return


def check_restart(ctx, jobs, case, tj, sv, res, mem, rst_obs):
    """multi-file restart writers: which frame's coordinates / time / cell each numbered file holds."""
    ext = sv["ext"]
    T, n = len(tj["xyz"]), tj["n_atoms"]
    key = (ext, T, bool(tj["cell"]))
    if res["save_err"]:
        rst_obs.append((key, None, case))
        return
    if not in_field_range(tj, ext, sv["opts"]):
        return          # numbers beyond the 12.7 field: the columns run together, nothing to index
    lo = res["load"]
    files = sorted(res["files"], key=lambda s: (len(s), s))
    base = "s%d%s" % (sv["sid"], ext)
    obs = []
    per = ({files[0]: lo} if "err" not in lo else {}) if T == 1 else lo.get("multi", {})
    raw = res.get("raw") or {}
    for fi, fn in enumerate(files):
        suffix = fn[len(base):]
        # what the file holds, read independently of mdtraj: angstrom coordinates, time, cell lengths
        try:
            if ext == ".rst7":
                lines = res["files"][fn]["text"].split("\n")
                nl = (n + 1) // 2
                nums = [Fr(l[k:k + 12].strip()) for l in lines[2:2 + nl] for k in range(0, len(l), 12)]
                tfile = Fr(lines[1][5:].strip())
                cfile = None
                if len(lines) - 1 == 2 + nl + 1:
                    cfile = [Fr(lines[2 + nl][k:k + 12].strip()) for k in range(0, 72, 12)]
            else:
                r = raw[fn]
                c = r["coordinates"]
                nums = [fr32(b) if c["w"] == 32 else fr64(b) for b in c["b"]]
                t = r["time"]
                tfile = fr32(t["b"][0]) if t["w"] == 32 else fr64(t["b"][0])
                cfile = None
                if "cell_lengths" in r:
                    cl, ca = r["cell_lengths"], r["cell_angles"]
                    cfile = [fr32(b) if cl["w"] == 32 else fr64(b) for b in cl["b"]] + \
                            [fr32(b) if ca["w"] == 32 else fr64(b) for b in ca["b"]]
        except Exception as e:      # noqa: BLE001
            if in_field_range(tj, ext, sv["opts"]):
                tie_break(ctx, case, "layout[%s]" % ext, "cannot read %s independently: %r" % (fn, e))
            return          # numbers beyond the 12.7 field: the columns run together, nothing to index

        def dist(i):
            return sum(abs(fr32(a) * 10 - b) for a, b in zip(tj["xyz"][i], nums))
        pi = min(range(T), key=dist)
        tis = [i for i in range(T) if abs(fr64(mem["time"][i]) - tfile) <= abs(tfile) * Fr(1, 10 ** 7)]
        ti = pi if pi in tis else (tis[0] if tis else 999)
        ci = None
        if cfile is not None and tj["cell"]:
            def cdist(i):      # lengths (angstrom) and angles (degrees) of frame i against the file's cell
                return (sum(abs(fr32(a) * 10 - b) for a, b in zip(mem["lengths"][3 * i:3 * i + 3], cfile[:3])) +
                        sum(abs(fr32(a) - b) for a, b in zip(mem["angles"][3 * i:3 * i + 3], cfile[3:])))
            best = min(range(T), key=cdist)
            ci = pi if cdist(pi) == cdist(best) else best
        elif cfile is not None:
            ci = 998
        obs.append((suffix[1:] if suffix else None, pi, ti, ci))
        if T > 1 and fi < T and fn in per:      # (iv) for numbered file fi against frame fi (time is judged by the indexing check)
            sub = {"n_atoms": n, "xyz": [tj["xyz"][fi]], "cls": tj["cls"], "cell": None}
            if tj["cell"]:
                sub["cell"] = {"lengths": [tj["cell"]["lengths"][fi]], "angles": [tj["cell"]["angles"][fi]], "kind": tj["cell"]["kind"]}
            smem = {"time": [mem["time"][fi]],
                    "lengths": None if mem["lengths"] is None else mem["lengths"][3 * fi:3 * fi + 3],
                    "angles": None if mem["angles"] is None else mem["angles"][3 * fi:3 * fi + 3], "uv": None}
            check_loaded(ctx, case, sub, sv, {"load": per[fn]}, smem, skip_time=True)
    distinct_t = len({mem["time"][i] for i in range(T)}) == T
    distinct_x = len({tuple(f) for f in tj["xyz"]}) == T
    if distinct_t and distinct_x:
        rst_obs.append((key, obs, case))


def decide_restart(ctx, rst_obs):
    """which variant of the restart-writer model reproduces the implementation on ALL cases (per format)"""
    variants = {".rst7": [(False, False), (False, True), (True, False), (True, True)], ".ncrst": [(False, False), (True, False)]}
    names = {(False, False): "save_restart_fix", (False, True): "save_restart_fix+time0", (True, False): "save_restart_cur",
             (True, True): "save_restart_cur+time0"}
    for ext, vs in variants.items():
        mine = [(k, o, c) for k, o, c in rst_obs if k[0] == ext]
        if not mine:
            continue
        cases, jobs_ix = [], []
        for ci, (k, o, _c) in enumerate(mine):
            if o is None:
                ot = "None"
            else:
                ot = "(Some %s)" % clist(["(%s, %s, %s, %s)" % ("None" if s is None else "(Some %s)" % cstr(s), cnat(p), cnat(t),
                                                                  "None" if c is None else "(Some %s)" % cnat(c)) for s, p, t, c in o])
            for v in vs:
                cases.append(("(%s, %s, %s, %s, %s)" % ("true" if v[0] else "false", "true" if v[1] else "false", cnat(k[1]),
                                                          "true" if k[2] else "false", ot), "true"))
                jobs_ix.append((ci, v))
        bad, errs = ctx.coq_mismatches(["MD.Codec.Model", "MD.Codec.Run"], ("bool * bool * nat * bool * option rst_obs", "bool"),
                                       "Bool.eqb", "(fun c => match c with (a, b, n, h, o) => chk_restart a b n h o end)", cases)
        if errs:
            ctx.break_("correspondence:coqc-evaluation[restart]", "\n".join(errs))
            continue
        badset = {jobs_ix[i] for i in bad}
        agree = next((v for v in vs if all((ci, v) not in badset for ci in range(len(mine)))), None)
        ctx.notes.setdefault("coverage_extra", {}).setdefault("model_variant_matching_impl", {})["restart" + ext] = (
            names[agree] if agree else None)
        if agree is None:
            ex = next(ci for ci in range(len(mine)) if (ci, vs[-1]) in badset)
            ctx.break_("correspondence:restart-writer[%s]" % ext, "no model variant reproduces the numbered files, e.g. %s -> %s" % (
                mine[ex][0], mine[ex][1]))
            continue
        # the property itself: file i holds frame i (coordinates, time, cell); a refused save is a failure too
        for k, o, c in mine:
            T = k[1]
            if o is None:
                fail(ctx, c, "%s: multi-frame trajectory without unit cell cannot be saved (%s)" % (ext, "TypeError"), "save raises",
                     "%d files" % T, kind="save_refuses", explained_by=names[agree], has_cell=k[2], multi=T > 1)
                continue
            want = [(i, i, (i if k[2] else None)) for i in range(T)]
            got = [(p, t, ci) for _s, p, t, ci in o]
            if got != want:
                what = "time" if [g[1] for g in got] != [w[1] for w in want] else "payload/cell"
                fail(ctx, c, "%s: numbered restart file i does not hold frame i's %s" % (ext, what), got, want,
                     kind="restart_index", what=what, explained_by=names[agree])


def run_cases(ctx, trajs):
    payload = {"trajs": [{k: v for k, v in tj.items() if k != "cls"} for tj in trajs]}
    out = ctx.run_impl("codec_impl.py", payload)
    ctx.log("implementation run done")
    results = {r["sid"]: r for r in out["results"]}
    for tj, mem in zip(trajs, out["mem"]):
        if tj.get("history") and tj.get("cell") and mem["lengths"] is not None:
            # the reference is the cell the object holds NOW (assigned through a setter: lengths/angles may have
            # gone through box vectors and back)
            T = len(tj["xyz"])
            tj["cell"] = dict(tj["cell"], lengths=[mem["lengths"][3 * i:3 * i + 3] for i in range(T)],
                              angles=[mem["angles"][3 * i:3 * i + 3] for i in range(T)])
            if any(b2f(a) != 90.0 for a in mem["angles"]):
                tj["cell"]["kind"] = "tric"
    jobs = Jobs()
    rst_obs = []
    mdcrd_cases = []
    for tj, mem in zip(trajs, out["mem"]):
        for sv in tj["saves"]:
            res = results[sv["sid"]]
            ext = sv["ext"]
            case = {"traj": {k: v for k, v in tj.items() if k != "saves"}, "save": sv}
            T, n = len(tj["xyz"]), tj["n_atoms"]
            inr = in_field_range(tj, ext, sv["opts"])
            ctx.count({"t": case["traj"], "s": {"ext": ext, "opts": sv["opts"]}}, nontrivial=not res["save_err"],
                      bucket="%s/%s" % (ext, tj["cls"]))
            if ext in (".rst7", ".ncrst"):
                check_restart(ctx, jobs, case, tj, sv, res, mem, rst_obs)
                if res["save_err"]:
                    continue
            if res["save_err"]:
                e = res["save_err"]
                expected_refusal = (
                    (ext in (".mdcrd", ".crd") and tj["cell"] and tj["cell"]["kind"] == "tric" and e["cls"] == "ValueError") or
                    (not inr and e["cls"] in ("ValueError", "OverflowError")))
                if ext in (".mdcrd", ".crd") and not inr and not (tj["cell"] and tj["cell"]["kind"] == "tric"):
                    jobs.add(2, [n, 1 if tj["cell"] else 0],
                             lambda case=case: tie_break(ctx, case, "refusal[mdcrd]", "writer refused a trajectory the model writes"),
                             n32=mframes_nums(tj))
                if not expected_refusal:
                    fail(ctx, case, "%s: Trajectory.save refuses (%s)" % (ext, e["cls"]), e, "file written",
                         kind="save_refuses", err=e["cls"], has_cell=bool(tj["cell"]), multi=T > 1)
                continue
            try:
                if STD[ext][1] not in ("bin", "xtc"):
                    if inr or ext in (".xyz", ".xyz.gz", ".lammpstrj", ".pdb", ".pdb.gz"):
                        check_text(ctx, jobs, case, tj, sv, res, mem)
                elif inr:
                    check_raw(ctx, jobs, case, tj, sv, res, mem)
            except Exception as e:      # noqa: BLE001  malformed file: the tie is broken, not the harness
                import traceback
                tie_break(ctx, case, "layout[%s]" % ext, traceback.format_exc()[-800:])
            if ext in (".mdcrd", ".crd") and "_mdcrd_body" in case:
                mdcrd_cases.append((case, tj, sv, res, mem))
            else:
                check_loaded(ctx, case, tj, sv, res, mem)
    decide_mdcrd(ctx, mdcrd_cases)
    jobs.run(ctx)
    decide_restart(ctx, rst_obs)
    for tj in trajs:       # scratch keys must not leak into replays
        for sv in tj["saves"]:
            sv.pop("_x", None)


def decide_mdcrd(ctx, mdcrd_cases):
    """reader model (today's code / repaired) against MDCRDTrajectoryFile.read on the same files"""
    if not mdcrd_cases:
        return
    cases, ix = [], []
    for ci, (case, tj, sv, res, mem) in enumerate(mdcrd_cases):
        nat = res["native"]
        n = tj["n_atoms"]
        body = "\n".join(case.pop("_mdcrd_body"))
        if nat is None:
            continue
        nums, okind, obox = [], 0, 0
        if "err" in nat:
            okind = {"ValueError": 1, "OSError": 2}.get(nat["err"]["cls"], 3)
        else:
            xb = nat["xyz"]["b"]
            k = 3 * n
            bx = nat["box"]["b"] if nat["box"] else None
            obox = 1 if bx is not None else 0
            for i in range(len(xb) // k):
                nums += xb[k * i:k * (i + 1)]
                if bx is not None:
                    nums += bx[3 * i:3 * i + 3]
        for strict in (False, True):
            cases.append(pack_job(3, [n, 1 if strict else 0, okind, obox], n32=nums, txt=body))
            ix.append((ci, strict))
    bad, errs = run_streams(ctx, cases)
    if errs:
        ctx.break_("correspondence:coqc-evaluation[mdcrd reader]", "\n".join(errs))
        return
    badset = {ix[i] for i in bad}
    agree = next((s for s in (False, True) if all((ci, s) not in badset for ci in range(len(mdcrd_cases)))), None)
    name = {False: "mdcrd_read_fix", True: "mdcrd_read_cur", None: None}[agree]
    ctx.notes.setdefault("coverage_extra", {}).setdefault("model_variant_matching_impl", {})["mdcrd reader"] = name
    if agree is None:
        ex = next(ci for ci in range(len(mdcrd_cases)) if (ci, True) in badset)
        c = mdcrd_cases[ex]
        ctx.break_("correspondence:mdcrd-reader", "neither reader variant reproduces MDCRDTrajectoryFile.read, e.g. sid=%s native=%s" % (
            c[2]["sid"], str(c[3]["native"])[:300]))
    for case, tj, sv, res, mem in mdcrd_cases:
        case["explained_by"] = name
        check_loaded(ctx, case, tj, sv, res, mem)


def correspond(ctx):
    trajs = build_trajs(ctx)
    ctx.log("trajectories:", len(trajs), "saves:", sum(len(t["saves"]) for t in trajs))
    run_cases(ctx, trajs)


def search(ctx, broken):
    # correspond() already runs the property oracle (iv: exact comparison of load(save(t)) with t, and the
    # independent raw readers) on every generated case; a second, larger stream is drawn here.
    import random
    ctx.rng = random.Random(ctx.seed + 77)
    ctx.tier = "quick"
    try:
        run_cases(ctx, build_trajs(ctx))
    except Exception as e:      # noqa: BLE001
        ctx.log("search stream failed:", e)


def replay(ctx, rec):
    c = rec["case"]
    tj = dict(c["traj"])
    sv = dict(c["save"])
    sv["sid"] = 0
    tj["saves"] = [sv]
    run_cases(ctx, [tj])
