"""C20 — existing files are never modified unless overwriting was requested.

Model      coq/Overwrite/Model.v   effect language for constructors (level 1) and Trajectory.save_* (level 2),
                                   concrete semantics on one path / on a file system, abstract interpreter
Theorems   coq/Overwrite/Proofs.v  the checkers are sound for ALL programs (coq/Props/C20.v)
Tie (a)    translator (below): Python `ast` over the `__init__` of every registered file-object class,
           utils/zipped.py:open_maybe_zipped (inlined), the `__cinit__` of the four .pyx classes (after
           stripping C declarations), every Trajectory.save_* and md.open  ->  coq/Gen/OverwritePrograms.v,
           whose lemmas `check_guarded <ctor> = true` ... are re-proved by vm_compute on every run.
           A class whose source leaves the translator's grammar falls back to coq/Overwrite/Reference.v
           (evidence: translator degraded, tie = correspondence alone for that class).
Tie (b)    correspondence: every extension x pre-existing content x {save, md.open+write, md.open only} x
           {1, 3 frames} x force_overwrite is run on real files (sha256 of every path before/after, reload)
           and compared inside coqc with the status the translated program predicts.
Read side  coq/Overwrite/Sessions.v: mode 'a' (old bytes stay a prefix), unknown mode strings (refused, untouched), read
           sessions (constructor in mode 'r' followed by ANY sequence of the open() sites found in the other methods of
           the class), the registered load_* functions and md.open defaults as level-2 programs, default value of every
           mode parameter; all regenerated from the sources and re-checked in Gen/OverwriteChecks.v on every run.
Search     the sha256 oracle itself (property stated on the implementation) over the same grid.
"""
import ast
import os
import re
import textwrap

from common import REPO, cnat, clist, cbool, cstr

LEVEL = "proof"
THEOREMS = "Props/C20.v"
EXTRA_TARGETS = ("Gen/OverwritePrograms.vo", "Gen/OverwriteChecks.vo", "Overwrite/Predict.vo")
EXTS = ["xtc", "trr", "dcd", "dtr"]
RULE = ("grid: extension accepted by Trajectory.save / md.open('w') x pre-existing content {absent, valid same "
        "format, longer valid file, unrelated bytes, directory} x entry {save, open+write, open only} x frames "
        "{1,3} x position of the pre-existing file among the numbered restart files x force_overwrite; "
        "read entry points {load, open.read, iterload, load_frame, len/seek, the registered load function, seek "
        "backwards after reading, write() on a read handle, partial reads, load of a list, iterload options} x extension "
        "(sha256 AND modification time of every file before/after); modes other than 'w': md.open(path, 'a' | a string "
        "that is no mode) + write, Trajectory.save_hdf5(mode='a'|'x') x pre-existing content x force_overwrite; a case is "
        "non-trivial when something exists at a target; distinct by hash of the case")
TRUSTED = ["translator harness/props/C20.py:translate (decides which source text becomes which effect term; its "
           "table of effectful callees and of pure path functions is listed in the file)",
           "harness/impl/overwrite_impl.py (creates the pre-existing content, hashes every path, reloads)",
           "semantics of the effects in coq/Overwrite/Model.v (open 'w' truncates, unlink removes, DtrWriter "
           "removes and recreates its directory, PyTables/netCDF4 mode 'w' truncates) are modelled, and "
           "validated only by the correspondence runs"]
ASSUMPTIONS = ["calls in a constructor that do not receive the filename do not touch the path (they are modelled as "
               "'may raise'); the first write of DCD/DTR is what creates the file (DeferOpen)",
               "one process, no concurrent writer to the same path between the existence test and the open",
               "gsd and lh5 savers are not modelled (packages absent / writer broken with this PyTables)"]

# ============================================================================ translator

class Outside(Exception):
    """source construct outside the translator's grammar"""


MODES = {"r": "MR", "w": "MW", "a": "MA"}
PURE_PATH_FUNCS = {"str", "os.fspath", "os.path.splitext", "os.path.basename", "os.path.abspath", "_is_url",
                   "os.stat", "os.path.getsize", "strlen", "strcpy", "malloc", "len", "bytes", "repr",
                   "os.path.expanduser", "os.path.dirname", "warnings.warn", "print", "format", "_get_extension",
                   "os.path.normpath", "pathlib.Path", "Path"}
OPENERS = {"open", "io.open", "gzip.GzipFile", "gzip.open", "bz2.BZ2File", "bz2.open", "xdrlib.xdrfile_open",
           "trrlib.xdrfile_open", "xdrfile_open"}
READ_ONLY_CALLS = {"xdrlib.read_xtc_natoms", "trrlib.read_trr_natoms", "open_dcd_read", "open_file_read",
                   "PDBxFile", "urlopen", "xdrlib.read_xtc_nframes"}
LIB_OPENERS = {"netcdf", "self._open_file", "self.tables.open_file", "tables.open_file", "netCDF4.Dataset",
               "scipy.io.netcdf_file"}
REMOVERS = {"os.unlink": "Unlink", "os.remove": "Unlink", "shutil.rmtree": "Rmtree"}


def dotted(node):
    if isinstance(node, ast.Name):
        return node.id
    if isinstance(node, ast.Attribute):
        b = dotted(node.value)
        return None if b is None else b + "." + node.attr
    return None


class Tr:
    """Translator of one function body into a `stmt` term (nested tuples)."""

    def __init__(self, funcs, cls_methods=None):
        self.funcs = funcs              # name -> ast.FunctionDef of inlinable helpers (open_maybe_zipped)
        self.unk = 0
        self.cls_methods = cls_methods or {}
        self.kw_dicts = {}              # local dict literals usable as **kwargs: name -> [ {key: expr} ]
        self.n_eff = 0                  # effects emitted so far (to detect a stale `x = os.path.exists(f)`)

    def fresh(self):
        self.unk += 1
        return ("CUnk", self.unk)

    def may_raise(self):
        return ("If", self.fresh(), ("Raise",), ("Skip",))

    # ---- abstract values of names: bind = {name: ("path",)|("mode",)|("modec","w")|("force",)|("bool",True)|...}
    def is_path(self, e, bind):
        if isinstance(e, ast.Name):
            return bind.get(e.id, (None,))[0] == "path"
        if isinstance(e, ast.Call) and dotted(e.func) in ("str", "os.fspath", "bytes") and e.args:
            return self.is_path(e.args[0], bind)
        if isinstance(e, ast.Attribute) and dotted(e) in bind:
            return bind[dotted(e)][0] == "path"
        return False

    def path_nodes(self, node, bind, prune_messages=True):
        """occurrences of the filename in node; exception/warning messages are not uses of the path"""
        out = []
        todo = [node]
        while todo:
            n = todo.pop()
            if prune_messages and isinstance(n, ast.Raise):
                continue
            if prune_messages and isinstance(n, ast.Call) and dotted(n.func) in ("warnings.warn", "print"):
                continue
            if isinstance(n, ast.Name) and bind.get(n.id, (None,))[0] == "path":
                out.append(n)
            elif isinstance(n, ast.Attribute) and bind.get(dotted(n) or "", (None,))[0] == "path":
                out.append(n)
                continue
            todo.extend(ast.iter_child_nodes(n))
        return out

    def mentions_path(self, node, bind):
        return bool(self.path_nodes(node, bind))

    def derived_only_through_calls(self, arg, bind):
        """arg mentions the filename only inside nested calls (which are checked on their own)"""
        inner = set()
        for c in ast.walk(arg):
            if isinstance(c, ast.Call):
                for a in list(c.args) + [k.value for k in c.keywords]:
                    for n in self.path_nodes(a, bind):
                        inner.add(id(n))
        return all(id(n) in inner for n in self.path_nodes(arg, bind))

    def const_str(self, e):
        if isinstance(e, ast.Constant) and isinstance(e.value, (str, bytes)):
            v = e.value
            return v.decode() if isinstance(v, bytes) else v
        return None

    def mode_value(self, e, bind):
        """('var',) for the mode argument, ('const', 'w') for a literal, None otherwise"""
        if isinstance(e, ast.Call) and dotted(e.func) == "str" and e.args:
            return self.mode_value(e.args[0], bind)
        if isinstance(e, ast.Name):
            b = bind.get(e.id)
            if b and b[0] == "mode":
                return ("var",)
            if b and b[0] == "modec":
                return ("const", b[1])
            return None
        s = self.const_str(e)
        if s is not None:
            return ("const", s)
        return None

    def cond(self, e, bind):
        if isinstance(e, ast.BoolOp):
            parts = [self.cond(v, bind) for v in e.values]
            op = "CAnd" if isinstance(e.op, ast.And) else "COr"
            r = parts[0]
            for p in parts[1:]:
                r = (op, r, p)
            return r
        if isinstance(e, ast.UnaryOp) and isinstance(e.op, ast.Not):
            return ("CNot", self.cond(e.operand, bind))
        if isinstance(e, ast.Constant) and isinstance(e.value, bool):
            return ("CTrue",) if e.value else ("CFalse",)
        if isinstance(e, ast.Name):
            b = bind.get(e.id)
            if b and b[0] == "force":
                return ("CForce",)
            if b and b[0] == "bool":
                return ("CTrue",) if b[1] else ("CFalse",)
            if b and b[0] == "path":
                raise Outside("truth value of the filename")
            if b and b[0] == "cond":
                if has_exists(b[1]) and b[2] != self.n_eff:
                    raise Outside("existence test stored in %s is used after an effect" % e.id)
                return b[1]
            if b and b[0] in ("tainted", "mode", "modec"):
                raise Outside("condition on %s, derived from mode/force_overwrite/filename" % e.id)
            return self.fresh()
        if isinstance(e, ast.Call) and dotted(e.func) in ("os.path.exists", "os.path.lexists") and len(e.args) == 1:
            if self.is_path(e.args[0], bind):
                return ("CExists",)
            if self.mentions_path(e, bind):
                raise Outside("exists() of an expression derived from the filename")
            return self.fresh()
        if isinstance(e, ast.Compare) and len(e.ops) == 1:
            l, r, op = e.left, e.comparators[0], e.ops[0]
            mv = self.mode_value(l, bind)
            if mv is not None and mv[0] in ("var", "const") and not (mv[0] == "const" and self.mode_value(r, bind) is None
                                                                     and not isinstance(r, (ast.Tuple, ast.List, ast.Set))):
                def one(s):
                    if mv[0] == "var":
                        return ("CMode", MODES[s]) if s in MODES else ("CFalse",)
                    return ("CTrue",) if mv[1] == s else ("CFalse",)
                if isinstance(op, (ast.Eq, ast.NotEq)):
                    s = self.const_str(r)
                    if s is not None:
                        c = one(s)
                        return c if isinstance(op, ast.Eq) else ("CNot", c)
                if isinstance(op, (ast.In, ast.NotIn)) and isinstance(r, (ast.Tuple, ast.List, ast.Set)):
                    ss = [self.const_str(x) for x in r.elts]
                    if all(s is not None for s in ss) and ss:
                        c = one(ss[0])
                        for s in ss[1:]:
                            c = ("COr", c, one(s))
                        return c if isinstance(op, ast.In) else ("CNot", c)
        if self.mentions_path(e, bind):
            self.check_pure_path_expr(e, bind)
        for n in ast.walk(e):
            if isinstance(n, ast.Name) and bind.get(n.id, (None,))[0] in ("mode", "modec", "force", "tainted", "cond"):
                raise Outside("unrecognised condition on %s" % n.id)
        return self.fresh()

    def check_pure_path_expr(self, e, bind):
        """an expression mentioning the filename is acceptable only if every call that receives it is a known
        pure function (string manipulation, stat)"""
        for n in ast.walk(e):
            if isinstance(n, ast.Call):
                args = list(n.args) + [k.value for k in n.keywords]
                direct = any(self.mentions_path(a, bind) for a in args)
                meth = isinstance(n.func, ast.Attribute) and self.mentions_path(n.func.value, bind)
                if meth and n.func.attr in ("lower", "upper", "endswith", "startswith", "encode", "decode", "split",
                                            "rsplit", "strip", "format", "suffix", "with_suffix"):
                    continue
                if direct and dotted(n.func) not in PURE_PATH_FUNCS:
                    raise Outside("call %s(...) receives the filename and is not a known function" % dotted(n.func))

    # ---- effects of an expression (calls), in evaluation order, as a stmt
    def open_mode_effect(self, s):
        s = s.replace("b", "").replace("t", "")
        if s in ("r", ""):
            return "OpenRead"
        if s == "w":
            return "OpenTrunc"
        if s == "a":
            return "OpenAppend"
        if s in ("r+", "+r", "a+", "+a"):
            return "OpenOverlay" if "r" in s else "OpenAppend"
        if s in ("w+", "+w"):
            return "OpenTrunc"
        if s in ("x", "x+"):
            return "OpenExcl"
        raise Outside("open mode %r" % s)

    def expr_effects(self, e, bind):
        """returns a stmt for the effects of evaluating e (Skip when pure and call-free)"""
        calls = [n for n in ast.walk(e) if isinstance(n, ast.Call)]
        if not calls:
            return ("Skip",)
        out = []
        has_other_call = False
        for c in calls:
            name = dotted(c.func)
            args = list(c.args)
            kws = {k.arg: k.value for k in c.keywords if k.arg}
            star = [k.value for k in c.keywords if k.arg is None]
            gets_path = bool(args) and self.is_path(args[0], bind)
            allargs = args + list(kws.values())
            for a in allargs:
                for n in ast.walk(a):
                    dn = dotted(n) if isinstance(n, (ast.Name, ast.Attribute)) else None
                    if dn and bind.get(dn, (None,))[0] == "dpath":
                        raise Outside("call %s(...) receives %s, a re-spelled (abspath/expanduser/...) filename" % (name, dn))
            any_path = any(self.is_path(a, bind) for a in allargs)
            for a in allargs:
                if not self.is_path(a, bind) and self.mentions_path(a, bind) \
                        and not self.derived_only_through_calls(a, bind):
                    if name not in PURE_PATH_FUNCS:
                        raise Outside("call %s(...) receives a path derived from the filename" % name)
                    any_path = True
            if name in OPENERS and gets_path:
                m = args[1] if len(args) > 1 else kws.get("mode")
                if m is None:
                    out.append(("Do", "OpenRead"))
                else:
                    mv = self.mode_value(m, bind)
                    if mv is None:
                        raise Outside("open() with a computed mode")
                    out.append(("Do", "OpenByMode") if mv[0] == "var" else ("Do", self.open_mode_effect(mv[1])))
                out.append(self.may_raise())
            elif name in REMOVERS and gets_path:
                out.append(("Do", REMOVERS[name]))
            elif name in READ_ONLY_CALLS and any_path:
                out.append(("Do", "OpenRead"))
                out.append(self.may_raise())
            elif name in LIB_OPENERS and gets_path:
                m = kws.get("mode", args[1] if len(args) > 1 else None)
                mv = self.mode_value(m, bind) if m is not None else ("const", "r")
                if mv is None:
                    raise Outside("library open with a computed mode")
                clob = ("CTrue",)
                if "clobber" in kws:
                    clob = self.cond(kws["clobber"], bind)
                for s in star:
                    if isinstance(s, ast.Name) and s.id in self.kw_dicts:
                        alts = []
                        for d in self.kw_dicts[s.id]:
                            alts.append(self.cond(d["clobber"], bind) if "clobber" in d else ("CTrue",))
                        clob = alts[0]
                        for a in alts[1:]:
                            u = self.fresh()
                            clob = ("COr", ("CAnd", u, clob), ("CAnd", ("CNot", u), a))
                    else:
                        raise Outside("library open with unknown **kwargs")
                if mv[0] == "var":
                    out.append(("Do", ("LibOpen", clob)))
                else:
                    raise Outside("library open with a literal mode")
                out.append(self.may_raise())
            elif name in self.funcs and any_path:
                out.append(self.inline(self.funcs[name], c, bind))
            elif any_path:
                if name in PURE_PATH_FUNCS or (isinstance(c.func, ast.Attribute) and
                                               c.func.attr in ("lower", "upper", "endswith", "startswith", "encode")):
                    has_other_call = True
                else:
                    raise Outside("call %s(...) receives the filename and is not a known function" % name)
            else:
                if isinstance(c.func, ast.Attribute) and self.mentions_path(c.func.value, bind):
                    if c.func.attr not in ("lower", "upper", "endswith", "startswith", "encode", "decode", "format"):
                        raise Outside("method .%s() of the filename" % c.func.attr)
                has_other_call = True
        if has_other_call and not out:
            out.append(self.may_raise())
        self.n_eff += sum(1 for x in out if has_effect(x))
        return seq(out)

    def inline(self, fn, call, bind):
        params = [a.arg for a in fn.args.args]
        defaults = dict(zip(params[len(params) - len(fn.args.defaults):], fn.args.defaults))
        actual = {}
        for p, a in zip(params, call.args):
            actual[p] = a
        for k in call.keywords:
            if k.arg is None:
                raise Outside("inlined call with **kwargs")
            actual[k.arg] = k.value
        nb = {}
        for p in params:
            a = actual.get(p, defaults.get(p))
            if a is None:
                raise Outside("inlined call lacks argument %s" % p)
            if p in actual and self.is_path(a, bind):
                nb[p] = ("path",)
            elif self.mode_value(a, bind) is not None and p == "mode":
                mv = self.mode_value(a, bind)
                nb[p] = ("mode",) if mv[0] == "var" else ("modec", mv[1])
            elif isinstance(a, ast.Constant) and isinstance(a.value, bool):
                nb[p] = ("bool", a.value)
            elif isinstance(a, ast.Name) and bind.get(a.id, (None,))[0] in ("force", "bool"):
                nb[p] = bind[a.id]
            elif p in actual and self.mentions_path(a, bind):
                raise Outside("inlined call receives an expression derived from the filename")
            else:
                nb[p] = ("other",)
        return self.block(fn.body, nb, ("Skip",))

    # ---- statements
    def has_return(self, stmts):
        return any(isinstance(n, ast.Return) for s in stmts for n in ast.walk(s))

    def pure_block(self, stmts, bind):
        """no path mention, no raise-free guarantee needed: modelled as 'may raise'"""
        for s in stmts:
            if self.mentions_path(s, bind):
                return False
        return True

    def block(self, stmts, bind, k):
        if not stmts:
            return k
        s, rest = stmts[0], stmts[1:]
        if isinstance(s, ast.Return):
            return self.expr_effects(s.value, bind) if s.value is not None else ("Skip",)
        if isinstance(s, ast.Raise):
            return ("Raise",)
        if isinstance(s, ast.If):
            c = self.cond(s.test, bind)
            if self.has_return([s]):
                b1, b2 = dict(bind), dict(bind)
                t1 = self.block(list(s.body) + list(rest), b1, k)
                t2 = self.block(list(s.orelse) + list(rest), b2, k)
                return ("If", c, t1, t2)
            b1, b2 = dict(bind), dict(bind)
            t = ("If", c, self.block(s.body, b1, ("Skip",)), self.block(s.orelse, b2, ("Skip",)))
            self.merge_bindings(bind, b1, b2)
            return seq([t, self.block(rest, bind, k)])
        return seq([self.stmt(s, bind), self.block(rest, bind, k)])

    @staticmethod
    def merge_bindings(bind, b1, b2):
        """bindings after an if: equal in both branches -> kept; a path alias in either -> path (conservative:
        every unknown call receiving it is then outside the grammar); anything else that changed -> tainted"""
        for name in set(b1) | set(b2):
            v1, v2 = b1.get(name), b2.get(name)
            if v1 == v2:
                if v1 is not None:
                    bind[name] = v1
            elif (v1 and v1[0] == "path") or (v2 and v2[0] == "path"):
                bind[name] = ("path",)
            else:
                bind[name] = ("tainted",)

    def stmt(self, s, bind):
        if isinstance(s, (ast.Pass, ast.Import, ast.ImportFrom, ast.Global, ast.Nonlocal)):
            return ("Skip",)
        if isinstance(s, ast.Expr):
            if isinstance(s.value, ast.Constant):
                return ("Skip",)
            return self.expr_effects(s.value, bind)
        if isinstance(s, (ast.Assign, ast.AnnAssign, ast.AugAssign)):
            targets = s.targets if isinstance(s, ast.Assign) else [s.target]
            val = s.value
            for t in targets:
                d = dotted(t)
                if d and d.endswith("_needs_write_initialization"):
                    kind = "KFile"
                    iw = self.cls_methods.get("_initialize_write")
                    if iw is not None and re.search(r"\bopen_file_write\b", iw):
                        kind = "KDir"
                    return ("Do", ("DeferOpen", kind))
                if d and val is not None and self.is_path(val, bind) and isinstance(t, (ast.Name, ast.Attribute)):
                    bind[d] = ("path",)
                    return ("Skip",)
                if d and val is not None and self.mentions_path(val, bind) and isinstance(t, (ast.Name, ast.Attribute)) \
                        and any(isinstance(n, ast.Call) and dotted(n.func) in (
                            "os.path.abspath", "os.path.expanduser", "os.path.normpath", "os.path.realpath",
                            "os.path.join", "os.path.expandvars") for n in ast.walk(val)):
                    # another spelling of the filename: the effect language has ONE path, so a constructor that tests
                    # one spelling and opens another is outside it
                    bind[d] = ("dpath",)
                    return ("Skip",)
                if isinstance(t, ast.Name) and isinstance(val, ast.Dict) and all(
                        isinstance(kk, ast.Constant) for kk in val.keys):
                    self.kw_dicts.setdefault(t.id, []).append({kk.value: vv for kk, vv in zip(val.keys, val.values)})
                if isinstance(t, ast.Name) and t.id in bind and bind[t.id][0] in ("mode", "force", "path"):
                    raise Outside("assignment to %s" % t.id)
                if isinstance(t, ast.Name) and val is not None and not isinstance(s, ast.AugAssign):
                    uses = [n.id for n in ast.walk(val) if isinstance(n, ast.Name)
                            and bind.get(n.id, (None,))[0] in ("mode", "modec", "force", "tainted", "cond")]
                    is_exists = any(isinstance(n, ast.Call) and dotted(n.func) in ("os.path.exists", "os.path.lexists")
                                    for n in ast.walk(val))
                    if uses or is_exists:
                        before = self.unk
                        try:
                            c = self.cond(val, dict(bind))
                        except Outside:
                            c = None
                        if c is not None and self.unk == before:
                            bind[t.id] = ("cond", c, self.n_eff)
                            return ("Skip",)
                        self.unk = before
                        bind[t.id] = ("tainted",)
                    elif t.id in bind and bind[t.id][0] in ("cond", "tainted"):
                        del bind[t.id]
            if val is None:
                return ("Skip",)
            return self.expr_effects(val, bind)
        if isinstance(s, ast.Assert):
            if self.mentions_path(s, bind):
                self.check_pure_path_expr(s.test, bind)
            return self.may_raise()
        if isinstance(s, ast.With):
            parts = [self.expr_effects(it.context_expr, bind) for it in s.items]
            return seq(parts + [self.block(s.body, bind, ("Skip",))])
        if isinstance(s, ast.Try):
            whole_pure = self.pure_block([s], bind)
            if whole_pure:
                for n in ast.walk(s):
                    if isinstance(n, ast.Assign) and len(n.targets) == 1 and isinstance(n.targets[0], ast.Name) \
                            and isinstance(n.value, ast.Dict) and all(isinstance(kk, ast.Constant) for kk in n.value.keys):
                        self.kw_dicts.setdefault(n.targets[0].id, []).append(
                            {kk.value: vv for kk, vv in zip(n.value.keys, n.value.values)})
                return self.may_raise()
            # effects inside try: accept  try: BODY except ImportError-like handlers without path mention
            if all(self.pure_block(h.body, bind) for h in s.handlers) and self.pure_block(s.orelse, bind) \
                    and not self.has_return([s]):
                body = self.block(s.body, bind, ("Skip",))
                fin = self.block(s.finalbody, bind, ("Skip",))
                # a handler may swallow an exception of BODY: over-approximated by 'BODY may stop anywhere
                # without raising' only when BODY has no effect; otherwise outside the grammar
                if s.handlers and has_effect(body):
                    raise Outside("effects inside try/except")
                if s.handlers:
                    alts = [self.block(h.body, bind, ("Skip",)) for h in s.handlers]
                    t = body
                    for a in alts:
                        t = ("If", self.fresh(), t, a)
                    return seq([t, fin])
                return seq([body, fin])
            raise Outside("try statement touching the filename")
        if isinstance(s, (ast.For, ast.While)):
            if self.pure_block([s], bind):
                return self.may_raise()
            raise Outside("loop touching the filename")
        if isinstance(s, ast.Delete):
            return ("Skip",)
        if isinstance(s, (ast.FunctionDef, ast.ClassDef)):
            if self.pure_block([s], bind):
                return ("Skip",)
            raise Outside("nested definition touching the filename")
        raise Outside("statement %s" % type(s).__name__)


def has_exists(c):
    if c[0] == "CExists":
        return True
    return any(isinstance(x, tuple) and has_exists(x) for x in c[1:])


def has_effect(t):
    if t[0] == "Do":
        return True
    if t[0] == "If":
        return has_effect(t[2]) or has_effect(t[3])
    if t[0] == "Seq":
        return has_effect(t[1]) or has_effect(t[2])
    return False


def is_may_raise(t):
    return t[0] == "If" and t[1][0] == "CUnk" and t[2] == ("Raise",) and t[3] == ("Skip",)


def seq(parts):
    flat = []
    for p in parts:
        if p[0] == "Seq":
            flat += flatten(p)
        else:
            flat.append(p)
    out = []
    for p in flat:
        if p == ("Skip",):
            continue
        if out and is_may_raise(p) and is_may_raise(out[-1]):
            continue
        if out and out[-1] == ("Raise",):
            break
        out.append(p)
    if not out:
        return ("Skip",)
    r = out[-1]
    for p in reversed(out[:-1]):
        r = ("Seq", p, r)
    return r


def flatten(t):
    if t[0] == "Seq":
        return flatten(t[1]) + flatten(t[2])
    return [t]


def simplify(t):
    if t[0] == "If":
        a, b = simplify(t[2]), simplify(t[3])
        if a == ("Skip",) and b == ("Skip",):
            return ("Skip",)
        if t[1] == ("CTrue",):
            return a
        if t[1] == ("CFalse",):
            return b
        return ("If", t[1], a, b)
    if t[0] == "Seq":
        return seq([simplify(x) for x in flatten(t)])
    return t


def renumber(t):
    """unknowns numbered in order of appearance, so that unrelated edits do not change the text"""
    m = {}

    def rc(c):
        if c[0] == "CUnk":
            return ("CUnk", m.setdefault(c[1], len(m) + 1))
        if c[0] in ("CNot",):
            return (c[0], rc(c[1]))
        if c[0] in ("CAnd", "COr"):
            return (c[0], rc(c[1]), rc(c[2]))
        return c

    def rs(s):
        if s[0] == "If":
            c = rc(s[1])
            return ("If", c, rs(s[2]), rs(s[3]))
        if s[0] == "Seq":
            a = rs(s[1])
            return ("Seq", a, rs(s[2]))
        if s[0] == "Do" and isinstance(s[1], tuple) and s[1][0] == "LibOpen":
            return ("Do", ("LibOpen", rc(s[1][1])))
        return s
    return rs(t)


def pcond(c):
    if c[0] in ("CTrue", "CFalse", "CForce", "CExists"):
        return c[0]
    if c[0] == "CMode":
        return "(CMode %s)" % c[1]
    if c[0] == "CUnk":
        return "(CUnk %d)" % c[1]
    if c[0] == "CNot":
        return "(CNot %s)" % pcond(c[1])
    return "(%s %s %s)" % (c[0], pcond(c[1]), pcond(c[2]))


def pstmt(t, ind=2):
    sp = " " * ind
    if t[0] in ("Skip", "Raise"):
        return t[0]
    if t[0] == "Do":
        e = t[1]
        if isinstance(e, tuple):
            e = "(%s %s)" % (e[0], pcond(e[1]) if isinstance(e[1], tuple) else e[1])
        return "(Do %s)" % e
    if t[0] == "If":
        return "(If %s\n%s  %s\n%s  %s)" % (pcond(t[1]), sp, pstmt(t[2], ind + 2), sp, pstmt(t[3], ind + 2))
    return "(Seq %s\n%s  %s)" % (pstmt(t[1], ind + 2), sp, pstmt(t[2], ind + 2))


# ---- source access
def strip_pyx(src):
    """make the body of a .pyx __cinit__ parseable by Python: drop cdef lines, C types in the signature, casts, &"""
    out = []
    for line in src.splitlines():
        if re.match(r"\s*cdef\b", line):
            continue
        line = re.sub(r"\b(?:unsigned\s+)?(?:char|int|float|double|long|bint|object)\s*\*?\s+(?=\w+\s*[,=)])", "", line)
        line = re.sub(r"<[A-Za-z_][\w\s]*\**>", "", line)
        line = re.sub(r"&(?=[A-Za-z_])", "", line)
        out.append(line)
    return "\n".join(out)


def extract_def(text, cls, name):
    """source text of method `name` of class `cls` (indentation based; works for .pyx too)"""
    m = re.search(r"^(cdef\s+)?class\s+%s\b.*?:\s*$" % re.escape(cls), text, re.M)
    if not m:
        raise Outside("class %s not found" % cls)
    body = text[m.end():]
    nxt = re.search(r"^(?:cdef\s+)?class\s+\w+", body, re.M)
    if nxt:
        body = body[:nxt.start()]
    d = re.search(r"^([ \t]+)def\s+%s\s*\(" % re.escape(name), body, re.M)
    if not d:
        return None
    ind = len(d.group(1).expandtabs(4))
    lines = body[d.start():].splitlines()
    out = [lines[0]]
    # the signature may span lines: keep going until the block ends
    for ln in lines[1:]:
        if ln.strip() and (len(ln) - len(ln.lstrip())) <= ind and not ln.lstrip().startswith(")") \
                and not re.match(r"\s*(def|cdef|cpdef|@|property)\b", ln) is None:
            break
        if ln.strip() and (len(ln.expandtabs(4)) - len(ln.expandtabs(4).lstrip())) <= ind \
                and not ln.lstrip().startswith(")"):
            break
        out.append(ln)
    return textwrap.dedent("\n".join(out))


CLASSES = [
    # (key, file, class, ctor method, is_pyx)
    ("XTC", "mdtraj/formats/xtc/xtc.pyx", "XTCTrajectoryFile", "__cinit__", True),
    ("TRR", "mdtraj/formats/xtc/trr.pyx", "TRRTrajectoryFile", "__cinit__", True),
    ("DCD", "mdtraj/formats/dcd/dcd.pyx", "DCDTrajectoryFile", "__cinit__", True),
    ("DTR", "mdtraj/formats/dtr/dtr.pyx", "DTRTrajectoryFile", "__cinit__", True),
    ("HDF5", "mdtraj/formats/hdf5.py", "HDF5TrajectoryFile", "__init__", False),
    ("LH5", "mdtraj/formats/lh5.py", "LH5TrajectoryFile", "__init__", False),
    ("NetCDF", "mdtraj/formats/netcdf.py", "NetCDFTrajectoryFile", "__init__", False),
    ("AmberRestart", "mdtraj/formats/amberrst.py", "AmberRestartFile", "__init__", False),
    ("AmberNetCDFRestart", "mdtraj/formats/amberrst.py", "AmberNetCDFRestartFile", "__init__", False),
    ("MDCRD", "mdtraj/formats/mdcrd.py", "MDCRDTrajectoryFile", "__init__", False),
    ("XYZ", "mdtraj/formats/xyzfile.py", "XYZTrajectoryFile", "__init__", False),
    ("LAMMPS", "mdtraj/formats/lammpstrj.py", "LAMMPSTrajectoryFile", "__init__", False),
    ("Gro", "mdtraj/formats/gro.py", "GroTrajectoryFile", "__init__", False),
    ("PDB", "mdtraj/formats/pdb/pdbfile.py", "PDBTrajectoryFile", "__init__", False),
    ("PDBx", "mdtraj/formats/pdbx.py", "PDBxTrajectoryFile", "__init__", False),
    ("Arc", "mdtraj/formats/arc.py", "ArcTrajectoryFile", "__init__", False),
]
CLASS_BY_NAME = {c[2]: c[0] for c in CLASSES}
# extensions of the property x the key of their file class / saver (cross-checked against the source below)
PROPERTY_EXTS = ["xtc", "trr", "pdb", "pdb.gz", "dcd", "h5", "nc", "netcdf", "ncdf", "ncrst", "crd", "mdcrd",
                 "lammpstrj", "xyz", "xyz.gz", "gro", "rst7", "dtr"]
NOT_MODELLED_SAVERS = {"save_gsd", "save_lh5"}


def read(repo, rel):
    with open(os.path.join(repo, rel)) as fh:
        return fh.read()


def helper_funcs(repo):
    tree = ast.parse(read(repo, "mdtraj/utils/zipped.py"))
    return {n.name: n for n in tree.body if isinstance(n, ast.FunctionDef) and n.name == "open_maybe_zipped"}


CTOR_SIG = {}      # key -> {"params": [...], "mode_default": "MR"|..|None, "force_default": bool|None} (filled by translate_ctor)


def translate_ctor(repo, entry, funcs):
    key, rel, cls, meth, is_pyx = entry
    text = read(repo, rel)
    src = extract_def(text, cls, meth)
    if src is None:
        raise Outside("%s.%s not found" % (cls, meth))
    iw = extract_def(text, cls, "_initialize_write")
    if is_pyx:
        src = strip_pyx(src)
    try:
        fn = ast.parse(src).body[0]
    except SyntaxError as e:
        raise Outside("cannot parse %s.%s: %s" % (cls, meth, e))
    params = [a.arg for a in fn.args.args]
    bind = {}
    for p in params:
        if p == "filename":
            bind[p] = ("path",)
        elif p == "mode":
            bind[p] = ("mode",)
        elif p == "force_overwrite":
            bind[p] = ("force",)
    if "filename" not in bind or "mode" not in bind:
        raise Outside("%s.%s has no filename/mode parameter" % (cls, meth))
    defaults = dict(zip(params[len(params) - len(fn.args.defaults):], fn.args.defaults))
    fo_default = None
    if "force_overwrite" in defaults and isinstance(defaults["force_overwrite"], ast.Constant):
        fo_default = bool(defaults["force_overwrite"].value)
    tr = Tr(funcs, {"_initialize_write": iw} if iw else {})
    term = renumber(simplify(tr.block(fn.body, bind, ("Skip",))))
    mode_default = None
    if "mode" in defaults and isinstance(defaults["mode"], ast.Constant):
        v = defaults["mode"].value
        v = v.decode() if isinstance(v, bytes) else v
        mode_default = MODES.get(v, "MOther")
    CTOR_SIG[key] = {"params": [q for q in params if q != "self"], "mode_default": mode_default,
                     "force_default": fo_default}
    return term, fo_default, "force_overwrite" in bind


def saver_table(repo):
    """extension -> saver method name, from Trajectory._savers (ast)"""
    tree = ast.parse(read(repo, "mdtraj/core/trajectory.py"))
    cls = [n for n in tree.body if isinstance(n, ast.ClassDef) and n.name == "Trajectory"][0]
    fns = {n.name: n for n in cls.body if isinstance(n, ast.FunctionDef)}
    ret = [n for n in ast.walk(fns["_savers"]) if isinstance(n, ast.Return)][0].value
    tab = {}
    for k, v in zip(ret.keys, ret.values):
        tab[k.value.lstrip(".")] = v.attr
    mod_fns = {n.name: n for n in tree.body if isinstance(n, ast.FunctionDef)}
    return tab, fns, mod_fns


def fileobject_table(repo):
    """extension -> class name from the FormatRegistry.register_fileobject registrations (regex over the sources)"""
    tab = {}
    for key, rel, cls, _m, _p in CLASSES:
        text = read(repo, rel)
        for m in re.finditer(r"FormatRegistry\.register_fileobject\(\s*['\"]\.([\w.]+)['\"]\s*\)\(\s*(\w+)\s*\)", text):
            tab[m.group(1)] = m.group(2)
        for m in re.finditer(r"((?:^@FormatRegistry\.register_fileobject\(\s*['\"]\.[\w.]+['\"]\s*\)\s*\n)+)"
                             r"(?:cdef\s+)?class\s+(\w+)", text, re.M):
            for e in re.findall(r"['\"]\.([\w.]+)['\"]", m.group(1)):
                tab[e] = m.group(2)
    return tab


class SaveTr:
    def __init__(self):
        self.unk = 0

    def may(self):
        self.unk += 1
        return ("SMayRaise", self.unk)

    def mentions(self, node, names):
        return any(isinstance(n, ast.Name) and n.id in names for n in ast.walk(node))

    def block(self, stmts, ctx):
        out = []
        for s in stmts:
            t = self.stmt(s, ctx)
            if t != ("SSkip",):
                if out and t[0] == "SMayRaise" and out[-1][0] == "SMayRaise":
                    continue
                out.append(t)
        if not out:
            return ("SSkip",)
        r = out[-1]
        for p in reversed(out[:-1]):
            r = ("SSeq", p, r)
        return r

    def is_frames(self, e):
        return dotted(e) in ("self.n_frames",) or (isinstance(e, ast.Call) and dotted(e.func) == "len"
                                                   and dotted(e.args[0]) == "self")

    def stmt(self, s, ctx):
        watched = {"filename", "force_overwrite"} | ctx["numbered"]
        if isinstance(s, ast.Expr) and isinstance(s.value, ast.Constant):
            return ("SSkip",)
        if isinstance(s, ast.With):
            if len(s.items) != 1 or not isinstance(s.items[0].context_expr, ast.Call):
                raise Outside("with statement shape")
            c = s.items[0].context_expr
            cname = dotted(c.func)
            if cname not in CLASS_BY_NAME:
                if self.mentions(s, watched):
                    raise Outside("with %s(...) touching the filename" % cname)
                return self.may()
            kws = {k.arg: k.value for k in c.keywords}
            args = list(c.args)
            if not args:
                raise Outside("constructor call without a path")
            p = args[0]
            if isinstance(p, ast.Call) and dotted(p.func) in ("os.fspath", "str") and p.args:
                p = p.args[0]
            if isinstance(p, ast.Name) and p.id == "filename":
                tgt = "base"
            elif isinstance(p, ast.BinOp) and isinstance(p.op, ast.Mod) and isinstance(p.left, ast.Name) \
                    and p.left.id in ctx["numbered"]:
                tgt = "numbered"
            else:
                raise Outside("constructor called on an unrecognised path expression")
            if (tgt == "numbered") != ctx["in_for"]:
                raise Outside("numbered path outside the frame loop / base path inside it")
            m = args[1] if len(args) > 1 else kws.get("mode")
            mode = None
            if m is None:
                mode = "MR"
            elif isinstance(m, ast.Constant) and m.value in MODES:
                mode = MODES[m.value]
            elif isinstance(m, ast.Name) and m.id in ctx["mode_defaults"]:
                mode = MODES[ctx["mode_defaults"][m.id]]
            else:
                raise Outside("constructor mode argument")
            f = kws.get("force_overwrite", args[2] if len(args) > 2 else None)
            if f is None:
                d = ctx["ctor_force_default"].get(CLASS_BY_NAME[cname])
                if d is None:
                    raise Outside("constructor without a force_overwrite default")
                farg = "(FLit %s)" % cbool(d)
            elif isinstance(f, ast.Name) and f.id == "force_overwrite":
                farg = "FPass"
            elif isinstance(f, ast.Constant) and isinstance(f.value, bool):
                farg = "(FLit %s)" % cbool(f.value)
            else:
                raise Outside("force_overwrite argument is computed")
            for b in s.body:
                if self.mentions(b, {"filename"} | ctx["numbered"]):
                    raise Outside("with-body touches the filename")
            return ("SWith", "ctor_" + CLASS_BY_NAME[cname], mode, farg)
        if isinstance(s, ast.If):
            t = s.test
            if isinstance(t, ast.Compare) and len(t.ops) == 1 and isinstance(t.ops[0], ast.Eq) \
                    and self.is_frames(t.left) and isinstance(t.comparators[0], ast.Constant) \
                    and t.comparators[0].value == 1:
                return ("SIfOne", self.block(s.body, ctx), self.block(s.orelse, ctx))
            if not self.mentions(s, watched) and not any(isinstance(n, ast.With) for n in ast.walk(s)):
                return self.may()
            raise Outside("if statement in a saver touching filename/force_overwrite")
        if isinstance(s, ast.For):
            it = s.iter
            if isinstance(it, ast.Call) and dotted(it.func) == "range" and len(it.args) == 1 and self.is_frames(it.args[0]) \
                    and any(isinstance(n, ast.With) for n in ast.walk(s)):
                if ctx["in_for"]:
                    raise Outside("nested frame loops")
                c2 = dict(ctx, in_for=True, loop_var=s.target.id if isinstance(s.target, ast.Name) else None)
                return ("SFor", self.block(s.body, c2))
            if not self.mentions(s, watched) and not any(isinstance(n, ast.With) for n in ast.walk(s)):
                return self.may()
            raise Outside("loop in a saver touching the filename")
        if isinstance(s, ast.Assign) and len(s.targets) == 1 and isinstance(s.targets[0], ast.Name):
            v = s.value
            if isinstance(v, ast.BinOp) and isinstance(v.op, ast.Mod) and isinstance(v.left, ast.Constant) \
                    and isinstance(v.left.value, str) and v.left.value.startswith("%s.") \
                    and isinstance(v.right, ast.Tuple) and isinstance(v.right.elts[0], ast.Name) \
                    and v.right.elts[0].id == "filename":
                ctx["numbered"].add(s.targets[0].id)
                return ("SSkip",)
        if self.mentions(s, watched):
            raise Outside("statement %s in a saver touches filename/force_overwrite" % type(s).__name__)
        if any(isinstance(n, (ast.Call, ast.Raise, ast.Subscript)) for n in ast.walk(s)):
            return self.may()
        return ("SSkip",)


def psstmt(t, ind=2):
    sp = " " * ind
    if t[0] == "SSkip":
        return "SSkip"
    if t[0] == "SMayRaise":
        return "(SMayRaise %d)" % t[1]
    if t[0] == "SWith":
        return "(SWith %s %s %s)" % (t[1], t[2], t[3])
    if t[0] == "SFor":
        return "(SFor %s)" % psstmt(t[1], ind + 2)
    return "(%s %s\n%s  %s)" % (t[0], psstmt(t[1], ind + 2), sp, psstmt(t[2], ind + 2))


def translate_saver(fn, ctor_force_default, mode_override=None):
    params = [a.arg for a in fn.args.args]
    if "filename" not in params or "force_overwrite" not in params:
        raise Outside("%s lacks filename/force_overwrite parameters" % fn.name)
    defaults = dict(zip(params[len(params) - len(fn.args.defaults):], fn.args.defaults))
    mode_defaults = {}
    if "mode" in defaults and isinstance(defaults["mode"], ast.Constant) and defaults["mode"].value in MODES:
        mode_defaults["mode"] = defaults["mode"].value
    if mode_override is not None:
        if "mode" not in params:
            raise Outside("%s has no mode parameter" % fn.name)
        mode_defaults["mode"] = mode_override
    st = SaveTr()
    ctx = {"in_for": False, "numbered": set(), "mode_defaults": mode_defaults, "ctor_force_default": ctor_force_default}
    return st.block(fn.body, ctx)


ALL_KINDS = {"str", "rel", "weird", "slash", "path", "pathlike", "bytes"}
KIND_OF_TYPE = {"os.PathLike": {"path", "pathlike"}, "PathLike": {"path", "pathlike"}, "pathlib.Path": {"path"},
                "Path": {"path"}, "pathlib.PurePath": {"path"}, "PurePath": {"path"},
                "str": {"str", "rel", "weird", "slash"}, "bytes": {"bytes"}}


def _loader_call(call):
    """(farg or None = constructor default, mode: 'MW' when the caller's mode is forwarded, else the literal/default)"""
    kws = {k.arg: k.value for k in call.keywords}
    a = call.args
    p = a[0] if a else None
    if isinstance(p, ast.Call) and dotted(p.func) in ("os.fspath", "str", "os.fsdecode") and p.args:
        p = p.args[0]
    if not (isinstance(p, ast.Name) and p.id == "filename"):
        raise Outside("md.open does not pass the filename through")
    m = kws.get("mode", a[1] if len(a) > 1 else None)
    if m is None:
        mode = None                     # constructor default mode
    elif isinstance(m, ast.Name) and m.id == "mode":
        mode = "pass"
    elif isinstance(m, ast.Constant) and m.value in MODES:
        mode = MODES[m.value]
    else:
        raise Outside("md.open computes the mode")
    f = kws.get("force_overwrite", a[2] if len(a) > 2 else None)
    if f is None:
        farg = None
    elif isinstance(f, ast.Name) and f.id == "force_overwrite":
        farg = "FPass"
    elif isinstance(f, ast.Constant) and isinstance(f.value, bool):
        farg = "(FLit %s)" % cbool(f.value)
    else:
        raise Outside("md.open computes force_overwrite")
    return farg, mode


def _kinds_of_test(t):
    if isinstance(t, ast.UnaryOp) and isinstance(t.op, ast.Not):
        return ALL_KINDS - _kinds_of_test(t.operand)
    if isinstance(t, ast.BoolOp) and isinstance(t.op, ast.Or):
        k = set()
        for v in t.values:
            k |= _kinds_of_test(v)
        return k
    if isinstance(t, ast.Call) and dotted(t.func) == "isinstance" and len(t.args) == 2 \
            and isinstance(t.args[0], ast.Name) and t.args[0].id == "filename":
        ty = t.args[1]
        tys = ty.elts if isinstance(ty, ast.Tuple) else [ty]
        k = set()
        for x in tys:
            d = dotted(x)
            if d not in KIND_OF_TYPE:
                raise Outside("md.open tests the filename against %s" % d)
            k |= KIND_OF_TYPE[d]
        return k
    raise Outside("md.open branches on a condition that is not an isinstance test of the filename")


def translate_md_open(fn):
    """every `return loader(...)` of md.open with the argument kinds that reach it, in source order:
    [(label, kinds or None for the final unconditional return, farg, mode)]"""
    out = []

    def returns_loader(node):
        return [n for n in ast.walk(node) if isinstance(n, ast.Return) and isinstance(n.value, ast.Call)
                and dotted(n.value.func) == "loader"]

    for st in fn.body:
        rl = returns_loader(st)
        if not rl:
            continue
        if isinstance(st, ast.Return):
            farg, mode = _loader_call(st.value)
            out.append(("default", None, farg, mode))
        elif isinstance(st, ast.If):
            chain, cur = [], st
            while True:
                rb = returns_loader(ast.Module(body=cur.body, type_ignores=[]))
                if len(rb) != 1:
                    raise Outside("md.open: branch without exactly one `return loader(...)`")
                chain.append((_kinds_of_test(cur.test), rb[0].value))
                if len(cur.orelse) == 1 and isinstance(cur.orelse[0], ast.If):
                    cur = cur.orelse[0]
                    continue
                if cur.orelse:
                    ro = returns_loader(ast.Module(body=cur.orelse, type_ignores=[]))
                    if len(ro) != 1:
                        raise Outside("md.open: else branch shape")
                    chain.append((None, ro[0].value))
                break
            for kinds, call in chain:
                farg, mode = _loader_call(call)
                label = "default" if kinds is None else "b%d" % len(out)
                out.append((label, kinds, farg, mode))
        else:
            raise Outside("md.open: `return loader(...)` inside %s" % type(st).__name__)
    if not out or out[-1][1] is not None:
        raise Outside("md.open: no unconditional `return loader(...)`")
    return out



# ---- read side: registered load_* functions, md.open defaults, call sites in the methods of the file classes
def extract_module_def(text, name):
    """source text of the module-level function `name` (works for .pyx)"""
    m = re.search(r"^def\s+%s\s*\(" % re.escape(name), text, re.M)
    if not m:
        return None
    lines = text[m.start():].splitlines()
    out = [lines[0]]
    for ln in lines[1:]:
        if ln.strip() and not ln[0].isspace() and not ln.lstrip().startswith(")"):
            break
        out.append(ln)
    return "\n".join(out)


def save_dispatch_forwards(fn):
    """Trajectory.save: `saver = savers[extension]` ... `return saver(filename, **kwargs)` with the ** parameter of save
    itself, never modified before the call: force_overwrite (and everything else) reaches the saver as given"""
    if fn.args.kwarg is None:
        raise Outside("Trajectory.save has no **kwargs")
    kw = fn.args.kwarg.arg
    for n in ast.walk(fn):
        if isinstance(n, ast.Call) and isinstance(n.func, ast.Attribute) and isinstance(n.func.value, ast.Name) \
                and n.func.value.id == kw and n.func.attr in ("pop", "update", "clear", "setdefault", "popitem"):
            raise Outside("Trajectory.save modifies its keyword arguments (%s.%s)" % (kw, n.func.attr))
        if isinstance(n, (ast.Assign, ast.AugAssign, ast.Delete)):
            tg = n.targets if not isinstance(n, ast.AugAssign) else [n.target]
            for t in tg:
                for x in ast.walk(t):
                    if isinstance(x, ast.Name) and x.id in (kw, "filename"):
                        raise Outside("Trajectory.save reassigns %s" % x.id)
    rets = [n for n in ast.walk(fn) if isinstance(n, ast.Return) and isinstance(n.value, ast.Call)]
    if len(rets) != 1:
        raise Outside("Trajectory.save: not exactly one `return saver(...)`")
    c = rets[0].value
    if not (isinstance(c.func, ast.Name) and len(c.args) == 1 and isinstance(c.args[0], ast.Name)
            and c.args[0].id == "filename" and len(c.keywords) == 1 and c.keywords[0].arg is None
            and isinstance(c.keywords[0].value, ast.Name) and c.keywords[0].value.id == kw):
        raise Outside("Trajectory.save does not end in `return saver(filename, **%s)`" % kw)
    sv = c.func.id
    ok = any(isinstance(n, ast.Assign) and len(n.targets) == 1 and isinstance(n.targets[0], ast.Name)
             and n.targets[0].id == sv and isinstance(n.value, ast.Subscript) for n in ast.walk(fn))
    if not ok:
        raise Outside("Trajectory.save: %s is not looked up in the saver table" % sv)
    return True


def saver_ctor_calls(fns, ctor_force_default):
    """every call of a registered file class inside a Trajectory.save_* method, whatever branch it sits in:
    [(saver:line, farg)] with the force_overwrite it receives (arguments resolved by parameter name)"""
    out = []
    for name in sorted(fns):
        if not name.startswith("save_"):
            continue
        for n in ast.walk(fns[name]):
            if not (isinstance(n, ast.Call) and dotted(n.func) in CLASS_BY_NAME):
                continue
            key = CLASS_BY_NAME[dotted(n.func)]
            label = "%s:%s:%d" % (name, key, n.lineno - fns[name].lineno)
            try:
                actual, sig = _ctor_call_args(n, key)
            except Outside:
                out.append((label, "(FLit true)"))
                continue
            m = actual.get("mode")
            if m is None or (isinstance(m, ast.Constant) and m.value in ("r", b"r")):
                continue                                   # a read-mode call
            f = actual.get("force_overwrite")
            if f is None:
                d = sig["force_default"]
                out.append((label, "(FLit %s)" % cbool(True if d is None else bool(d))))
            elif isinstance(f, ast.Name) and f.id == "force_overwrite":
                out.append((label, "FPass"))
            elif isinstance(f, ast.Constant) and isinstance(f.value, bool):
                out.append((label, "(FLit %s)" % cbool(f.value)))
            else:
                out.append((label, "(FLit true)"))         # computed: assume the worst
    return out


def loader_table(repo):
    """extension -> (file, function name) from the @FormatRegistry.register_loader decorations"""
    tab = {}
    for _key, rel, _cls, _m, _p in CLASSES:
        text = read(repo, rel)
        for m in re.finditer(r"((?:^@FormatRegistry\.register_loader\(\s*['\"]\.[\w.]+['\"]\s*\)\s*\n)+)def\s+(\w+)", text, re.M):
            for e in re.findall(r"['\"]\.([\w.]+)['\"]", m.group(1)):
                tab[e] = (rel, m.group(2))
    return tab


def _ctor_call_args(call, key):
    """actual arguments of a constructor call by parameter name"""
    sig = CTOR_SIG.get(key)
    if sig is None:
        raise Outside("constructor signature of %s unknown" % key)
    actual = {}
    for pn, a in zip(sig["params"], call.args):
        if isinstance(a, ast.Starred):
            raise Outside("constructor call with *args")
        actual[pn] = a
    for k in call.keywords:
        if k.arg is not None:
            actual[k.arg] = k.value
    return actual, sig


def translate_loader(repo, rel, name, depth=0):
    """a registered load_* function -> sstmt: its constructor calls with the mode they receive"""
    text = read(repo, rel)
    src = extract_module_def(text, name)
    if src is None:
        raise Outside("%s not found in %s" % (name, rel))
    if rel.endswith(".pyx"):
        src = strip_pyx(src)
    try:
        fn = ast.parse(textwrap.dedent(src)).body[0]
    except SyntaxError as e:
        raise Outside("cannot parse %s: %s" % (name, e))
    if not fn.args.args or fn.args.args[0].arg != "filename":
        raise Outside("%s: first parameter is not filename" % name)
    withs = []
    for n in ast.walk(fn):
        if isinstance(n, ast.Call):
            cname = dotted(n.func)
            if cname in CLASS_BY_NAME:
                withs.append(n)
            elif cname in OPENERS or cname in LIB_OPENERS or cname in REMOVERS or cname == "open_maybe_zipped":
                if any(isinstance(x, ast.Name) and x.id == "filename" for a in list(n.args) + [k.value for k in n.keywords]
                       for x in ast.walk(a)):
                    raise Outside("%s opens the filename itself through %s" % (name, cname))
    if not withs:
        # delegation: `return _helper(filename, ...)` to a function of the same module
        if depth < 2:
            for n in ast.walk(fn):
                if isinstance(n, ast.Call) and isinstance(n.func, ast.Name) and n.args \
                        and isinstance(n.args[0], ast.Name) and n.args[0].id == "filename" \
                        and extract_module_def(text, n.func.id) is not None:
                    return translate_loader(repo, rel, n.func.id, depth + 1)
        raise Outside("%s constructs no file object" % name)
    parts = [("SMayRaise", 1)]
    for c in withs:
        key = CLASS_BY_NAME[dotted(c.func)]
        actual, sig = _ctor_call_args(c, key)
        p = actual.get("filename")
        if isinstance(p, ast.Call) and dotted(p.func) in ("os.fspath", "str", "os.fsdecode") and p.args:
            p = p.args[0]
        if not (isinstance(p, ast.Name) and p.id == "filename"):
            raise Outside("%s constructs a file object on something that is not its filename" % name)
        m = actual.get("mode")
        if m is None:
            mode = sig["mode_default"]
            if mode is None:
                raise Outside("%s relies on a constructor without a literal default mode" % name)
        elif isinstance(m, ast.Constant) and isinstance(m.value, (str, bytes)):
            v = m.value.decode() if isinstance(m.value, bytes) else m.value
            mode = MODES.get(v, "MOther")
        else:
            raise Outside("%s computes the mode" % name)
        f = actual.get("force_overwrite")
        if f is None:
            farg = "(FLit %s)" % cbool(bool(sig["force_default"]) if sig["force_default"] is not None else True)
        elif isinstance(f, ast.Constant) and isinstance(f.value, bool):
            farg = "(FLit %s)" % cbool(f.value)
        else:
            raise Outside("%s computes force_overwrite" % name)
        parts.append(("SWith", "ctor_" + key, mode, farg))
    r = parts[-1]
    for q in reversed(parts[:-1]):
        r = ("SSeq", q, r)
    return r


SITE_WRITE_CALLS = {"open_dcd_write", "open_file_write", "dcdlib.open_dcd_write", "dtrlib.open_file_write"}
MODE_ATTRS = {"self.mode", "self._mode", "mode"}
WRITE_MODE_STRINGS = {"w", "a", "ws", "as", "wb", "ab"}


def _method_names(text, cls):
    m = re.search(r"^(cdef\s+)?class\s+%s\b.*?:\s*$" % re.escape(cls), text, re.M)
    if not m:
        raise Outside("class %s not found" % cls)
    body = text[m.end():]
    nxt = re.search(r"^(?:cdef\s+)?class\s+\w+", body, re.M)
    if nxt:
        body = body[:nxt.start()]
    return list(dict.fromkeys(re.findall(r"^[ \t]+def\s+(\w+)\s*\(", body, re.M)))


def _is_write_guard(st):
    """`if <mode is not a write mode>: raise` / `_check_mode(self.mode, ('w','a'))` at the head of a method"""
    if isinstance(st, ast.Expr) and isinstance(st.value, ast.Call) and dotted(st.value.func) == "_check_mode":
        consts = [c.value for a in st.value.args[1:] for c in ast.walk(a) if isinstance(c, ast.Constant)]
        return bool(consts) and all(isinstance(v, str) and v in WRITE_MODE_STRINGS for v in consts)
    if isinstance(st, ast.If) and any(isinstance(n, ast.Raise) for b in st.body for n in ast.walk(b)) and not st.orelse:
        t = st.test
        names = {dotted(n) for n in ast.walk(t) if isinstance(n, (ast.Name, ast.Attribute))}
        if not (names & MODE_ATTRS):
            return False
        consts = [c.value for c in ast.walk(t) if isinstance(c, ast.Constant) and isinstance(c.value, (str, bytes))]
        consts = [c.decode() if isinstance(c, bytes) else c for c in consts]
        if not consts or not all(c in WRITE_MODE_STRINGS for c in consts):
            return False
        # shapes: mode != 'w' / not mode == 'w' / mode not in [...]
        if isinstance(t, ast.UnaryOp) and isinstance(t.op, ast.Not) and isinstance(t.operand, ast.Compare) \
                and isinstance(t.operand.ops[0], (ast.Eq, ast.In)):
            return True
        if isinstance(t, ast.Compare) and isinstance(t.ops[0], (ast.NotEq, ast.NotIn)):
            return True
    return False


def _site_effect(call):
    """effect term of one opener call found in a method (None: not an opener)"""
    name = dotted(call.func)
    args = list(call.args)
    kws = {k.arg: k.value for k in call.keywords if k.arg}
    if name in READ_ONLY_CALLS:
        return "OpenRead"
    if name in SITE_WRITE_CALLS:
        return "OpenTrunc"
    if name in REMOVERS:
        return REMOVERS[name]
    if name in OPENERS or name == "open_maybe_zipped":
        m = args[1] if len(args) > 1 else kws.get("mode")
        if m is None:
            return "OpenRead"
        if isinstance(m, ast.Constant) and isinstance(m.value, (str, bytes)):
            v = m.value.decode() if isinstance(m.value, bytes) else m.value
            try:
                return Tr({}).open_mode_effect(v)
            except Outside:
                return "OpenTrunc"
        if dotted(m) in MODE_ATTRS:
            return "OpenByMode"
        return "OpenTrunc"                  # a computed mode: assume the worst
    if name in LIB_OPENERS:
        m = kws.get("mode", args[1] if len(args) > 1 else None)
        if m is None or (isinstance(m, ast.Constant) and m.value in ("r", b"r")):
            return "OpenRead"
        if dotted(m) in MODE_ATTRS:
            return "(LibOpen CTrue)"
        return "OpenTrunc"
    return None


def class_census(repo, entry):
    """every opener / remover call in the methods of a file class other than its constructor.
    Returns (read_sites, write_sites): [(method, effect)] for the methods reachable on an object in mode 'r'
    (no write-mode guard at their head, followed through self.<helper>() calls) and for the write-only ones."""
    key, rel, cls, ctor, is_pyx = entry
    text = read(repo, rel)
    direct, calls, guarded = {}, {}, {}
    for name in _method_names(text, cls):
        if name == ctor:
            continue
        src = extract_def(text, cls, name)
        if src is None:
            continue
        if is_pyx:
            src = strip_pyx(src)
        try:
            fn = ast.parse(src).body[0]
        except SyntaxError:
            # unparseable (C syntax): textual scan; any opener counts as the worst effect unless it is a known reader
            sites = []
            for nm in sorted(OPENERS | LIB_OPENERS | set(REMOVERS) | SITE_WRITE_CALLS | READ_ONLY_CALLS | {"open_maybe_zipped"}):
                if re.search(r"(?<![\w.])%s\s*\(" % re.escape(nm), src):
                    sites.append("OpenRead" if nm in READ_ONLY_CALLS else "OpenTrunc")
            direct[name] = sites
            calls[name] = set(re.findall(r"self\.(\w+)\s*\(", src))
            guarded[name] = False
            continue
        sites = []
        for n in ast.walk(fn):
            if isinstance(n, ast.Call):
                e = _site_effect(n)
                if e is not None:
                    sites.append(e)
        direct[name] = sites
        calls[name] = {n.func.attr for n in ast.walk(fn) if isinstance(n, ast.Call) and isinstance(n.func, ast.Attribute)
                       and isinstance(n.func.value, ast.Name) and n.func.value.id == "self"}
        body = [b for b in fn.body if not (isinstance(b, ast.Expr) and isinstance(b.value, ast.Constant))]
        guarded[name] = any(_is_write_guard(b) for b in body[:4])

    def reach(name, seen):
        out = [(name, e) for e in direct.get(name, [])]
        for c in sorted(calls.get(name, ())):
            if c in direct and c not in seen:
                out += reach(c, seen | {c})
        return out

    entries = [n for n in direct if not n.startswith("_") or (n.startswith("__") and n.endswith("__"))]
    called = set()
    for n in direct:
        called |= calls[n] & set(direct)
    # a private helper nobody calls is treated as an entry point too
    entries += [n for n in direct if n not in entries and n not in called]
    read_sites, write_sites = [], []
    for n in entries:
        for (mname, e) in reach(n, {n}):
            tag = "%s>%s" % (n, mname) if mname != n else n
            (write_sites if guarded[n] else read_sites).append((tag, e))
    return sorted(set(read_sites)), sorted(set(write_sites))


def build_gen(repo):
    """returns (text of Gen/OverwritePrograms.v, info dict)"""
    funcs = helper_funcs(repo)
    info = {"degraded": {}, "classes": {}, "savers": {}}
    lines = ["(* GENERATED by harness/props/C20.py from the mdtraj sources on every run. Do not edit. *)",
             "From Coq Require Import List String Bool.", "Import ListNotations.",
             "Require Import MD.Overwrite.Model MD.Overwrite.Reference.", "Local Open Scope string_scope.", ""]
    ctor_force_default = {}
    keys = []
    for entry in CLASSES:
        key = entry[0]
        try:
            term, fo_default, has_fo = translate_ctor(repo, entry, funcs)
            lines.append("Definition ctor_%s : stmt :=\n  %s." % (key, pstmt(term)))
            info["classes"][key] = "translated"
            ctor_force_default[key] = fo_default
        except Outside as e:
            info["degraded"]["ctor_" + key] = str(e)
            lines.append("Definition ctor_%s : stmt := Reference.ctor_%s.  (* degraded: %s *)" % (
                key, key, str(e).replace("*", "x")))
            ctor_force_default[key] = True
        keys.append(key)
        lines.append("")
    lines.append("Definition ctors : list (string * stmt) :=\n  [%s]." % ";\n   ".join(
        '("%s", ctor_%s)' % (k, k) for k in keys))
    lines.append("")
    stab, fns, mod_fns = saver_table(repo)
    ftab = fileobject_table(repo)
    saver_names = []
    for name in sorted(set(stab.values())):
        if name in NOT_MODELLED_SAVERS:
            continue
        try:
            if name not in fns:
                raise Outside("Trajectory.%s not found" % name)
            t = translate_saver(fns[name], ctor_force_default)
            lines.append("Definition %s : sstmt :=\n  %s." % (name, psstmt(t)))
            info["savers"][name] = "translated"
        except Outside as e:
            info["degraded"][name] = str(e)
            lines.append("Definition %s : sstmt := Reference.%s.  (* degraded: %s *)" % (name, name, str(e).replace("*", "x")))
        saver_names.append(name)
        lines.append("")
    try:
        branches = translate_md_open(mod_fns["open"])
        info["md_open"] = [{"label": l, "kinds": sorted(k) if k else None, "force": f or "constructor default",
                            "mode": m or "constructor default"} for l, k, f, m in branches]
    except (Outside, KeyError) as e:
        info["degraded"]["md.open"] = str(e)
        branches = [("default", None, "FPass", "pass")]
        info["md_open"] = [{"label": "default", "kinds": None, "force": "FPass", "mode": "pass"}]
    info["md_open_branches"] = [(l, sorted(k) if k else None) for l, k, _f, _m in branches]
    ext_rows, open_rows, read_rows, direct_rows = [], [], [], []
    for ext in PROPERTY_EXTS:
        if ext not in stab or stab[ext] in NOT_MODELLED_SAVERS:
            raise Outside("extension .%s has no modelled saver" % ext)
        if ext not in ftab or ftab[ext] not in CLASS_BY_NAME:
            raise Outside("extension .%s has no modelled file class" % ext)
        k = CLASS_BY_NAME[ftab[ext]]
        ext_rows.append('("%s", %s)' % (ext, stab[ext]))
        for label, _kinds, farg, mode in branches:
            fa = farg if farg is not None else "(FLit %s)" % cbool(bool(ctor_force_default.get(k, True)))
            md = "MW" if mode == "pass" else (mode if mode is not None else "MR")   # every file class defaults to mode='r'
            key = ext if label == "default" else "%s@%s" % (ext, label)
            open_rows.append('("%s", SWith ctor_%s %s %s)' % (key, k, md, fa))
        direct_rows.append('("%s", SWith ctor_%s MW FPass)' % (ext, k))
        read_rows.append('("%s", ctor_%s)' % (ext, k))
    info["ext_saver"] = {e: stab[e] for e in PROPERTY_EXTS}
    info["ext_class"] = {e: ftab[e] for e in PROPERTY_EXTS}
    lines.append("Definition savers : list (string * sstmt) :=\n  [%s]." % ";\n   ".join(ext_rows))
    lines.append("Definition openers : list (string * sstmt) :=\n  [%s]." % ";\n   ".join(open_rows))
    lines.append("(* the file class called directly: Cls(path, 'w', force_overwrite=fo) *)")
    lines.append("Definition direct : list (string * sstmt) :=\n  [%s]." % ";\n   ".join(direct_rows))
    lines.append("Definition readers : list (string * stmt) :=\n  [%s]." % ";\n   ".join(read_rows))
    lines.append("")
    # ---- read side and the other modes (Overwrite/Sessions.v)
    lines.append("(* default value of the mode parameter, read from the signatures *)")
    dm_rows = []
    for k in keys:
        md_ = (CTOR_SIG.get(k) or {}).get("mode_default")
        if md_ is None:
            info["degraded"]["default_mode_" + k] = "no literal default for mode"
            md_ = "MR"
        dm_rows.append('("%s", %s)' % (k, md_))
    open_mode_default, open_force_default = "MR", True
    try:
        ofn = mod_fns["open"]
        oparams = [a.arg for a in ofn.args.args]
        odef = dict(zip(oparams[len(oparams) - len(ofn.args.defaults):], ofn.args.defaults))
        if not (isinstance(odef.get("mode"), ast.Constant) and odef["mode"].value in MODES):
            raise Outside("md.open has no literal default mode")
        open_mode_default = MODES[odef["mode"].value]
        if isinstance(odef.get("force_overwrite"), ast.Constant):
            open_force_default = bool(odef["force_overwrite"].value)
    except (Outside, KeyError) as e:
        info["degraded"]["md.open defaults"] = str(e)
    dm_rows.append('("md.open", %s)' % open_mode_default)
    lines.append("Definition default_modes : list (string * mode) :=\n  [%s]." % ";\n   ".join(dm_rows))
    lines.append("(* opener / remover calls in the methods (other than the constructor) of each file class that are reachable\n"
                 "   on an object in mode 'r'; [write_sites]: those of the methods that refuse to run unless the mode is 'w'/'a' *)")
    sess_rows, wsite_rows = [], []
    info["method_sites"] = {}
    for entry in CLASSES:
        k = entry[0]
        try:
            rs, ws = class_census(repo, entry)
        except Outside as e:
            info["degraded"]["methods_" + k] = str(e)
            rs, ws = [], []
        info["method_sites"][k] = {"read_mode": ["%s:%s" % x for x in rs], "write_mode": ["%s:%s" % x for x in ws]}
        lines.append("Definition sites_%s : list eff := [%s].  (* %s *)" % (
            k, "; ".join(e for _m, e in rs), ", ".join(m for m, _e in rs) or "none"))
        sess_rows.append('("%s", ctor_%s, sites_%s)' % (k, k, k))
        wsite_rows.append('("%s", [%s])' % (k, "; ".join(e for _m, e in ws)))
    lines.append("Definition read_sessions : list (string * stmt * list eff) :=\n  [%s]." % ";\n   ".join(sess_rows))
    lines.append("Definition write_sites : list (string * list eff) :=\n  [%s]." % ";\n   ".join(wsite_rows))
    lines.append("(* the registered load_* functions: their constructor calls, with the mode they pass (or the default) *)")
    ltab = loader_table(repo)
    load_rows = []
    info["loaders"] = {}
    for ext in sorted(ltab):
        rel, name = ltab[ext]
        if ext not in ftab or ftab[ext] not in CLASS_BY_NAME:
            continue
        try:
            t = translate_loader(repo, rel, name)
            info["loaders"][ext] = name
        except Outside as e:
            info["degraded"]["load." + ext] = str(e)
            t = ("SWith", "Reference.ctor_" + CLASS_BY_NAME[ftab[ext]], "MR", "(FLit true)")
        load_rows.append('("%s", %s)' % (ext, psstmt(t, 4)))
    for ext in PROPERTY_EXTS:
        if ext not in ltab:
            raise Outside("extension .%s has no registered loader" % ext)
    lines.append("Definition loaders : list (string * sstmt) :=\n  [%s]." % ";\n   ".join(load_rows))
    lines.append("(* md.open(path) with every argument defaulted (md.iterload, md.load_frame reach the file this way) *)")
    od_rows = []
    for ext in PROPERTY_EXTS:
        k = CLASS_BY_NAME[ftab[ext]]
        for label, _kinds, farg, mode in branches:
            fa = "(FLit %s)" % cbool(open_force_default) if farg == "FPass" else (
                farg if farg is not None else "(FLit %s)" % cbool(bool(ctor_force_default.get(k, True))))
            md_ = open_mode_default if mode == "pass" else (mode if mode is not None else
                                                           ((CTOR_SIG.get(k) or {}).get("mode_default") or "MR"))
            key = ext if label == "default" else "%s@%s" % (ext, label)
            od_rows.append('("%s", SWith ctor_%s %s %s)' % (key, k, md_, fa))
    lines.append("Definition open_defaults : list (string * sstmt) :=\n  [%s]." % ";\n   ".join(od_rows))
    try:
        fwd = save_dispatch_forwards(fns["save"])
    except (Outside, KeyError) as e:
        info["degraded"]["Trajectory.save dispatch"] = str(e)
        # keyword arguments modified / not handed on: the saver does not get the caller's force_overwrite (lemma
        # save_dispatch_checked breaks); any other shape: not recognised, the save correspondence alone ties the dispatch
        fwd = not (" modifies " in str(e) or " does not end in " in str(e) or " reassigns " in str(e))
    lines.append("(* Trajectory.save looks the saver up by extension and calls it as saver(filename, **kwargs), kwargs untouched *)")
    lines.append("Definition save_dispatch_forwards : bool := %s." % cbool(fwd))
    calls = saver_ctor_calls(fns, ctor_force_default)
    info["saver_ctor_calls"] = {l: f for l, f in calls}
    lines.append("(* every write-mode call of a file class inside a Trajectory.save_* method (saver:class:line offset) with the\n"
                 "   force_overwrite it is given, whatever branch it sits in *)")
    lines.append("Definition saver_ctor_calls : list (string * farg) :=\n  [%s]." % ";\n   ".join('("%s", %s)' % c for c in calls))
    lines.append("(* savers that take a mode parameter, with mode='a' *)")
    ap_rows = []
    for name in saver_names:
        fnode = fns.get(name)
        if fnode is None or "mode" not in [a.arg for a in fnode.args.args]:
            continue
        try:
            t = translate_saver(fnode, ctor_force_default, mode_override="a")
            ap_rows.append('("%s", %s)' % (name, psstmt(t, 4)))
            info.setdefault("append_savers", []).append(name)
        except Outside as e:
            info["degraded"][name + "(mode='a')"] = str(e)
    lines.append("Definition append_savers : list (string * sstmt) :=\n  [%s]." % ";\n   ".join(ap_rows))
    lines.append("")
    defs_text = "\n".join(lines) + "\n"
    lines = ["(* GENERATED by harness/props/C20.py: obligations about Gen/OverwritePrograms.v, re-proved on every run. *)",
             "From Coq Require Import List String Bool.", "Import ListNotations.",
             "Require Import MD.Overwrite.Model MD.Overwrite.Sessions MD.Gen.OverwritePrograms.", ""]
    # obligations re-proved on every run, by computation (reflection)
    for k in keys:
        lines.append("Lemma append_%s : check_append ctor_%s = true. Proof. vm_compute. reflexivity. Qed." % (k, k))
        lines.append("Lemma badmode_%s : check_badmode ctor_%s = true. Proof. vm_compute. reflexivity. Qed." % (k, k))
        lines.append("Lemma session_%s : check_session ctor_%s sites_%s = true. Proof. vm_compute. reflexivity. Qed." % (k, k, k))
    lines.append("Lemma all_ctors_append : forallb (fun x => check_append (snd x)) ctors = true. "
                 "Proof. vm_compute. reflexivity. Qed.")
    lines.append("Lemma all_ctors_badmode : forallb (fun x => check_badmode (snd x)) ctors = true. "
                 "Proof. vm_compute. reflexivity. Qed.")
    lines.append("Lemma all_saver_calls_forward : check_saver_calls saver_ctor_calls = true. Proof. vm_compute. reflexivity. Qed.")
    lines.append("Lemma save_dispatch_checked : save_dispatch_forwards = true. Proof. reflexivity. Qed.")
    lines.append("Lemma all_default_modes_read : all_default_read (map snd default_modes) = true. "
                 "Proof. vm_compute. reflexivity. Qed.")
    lines.append("Lemma all_sessions_checked : forallb (fun x => check_session (snd (fst x)) (snd x)) read_sessions = true. "
                 "Proof. vm_compute. reflexivity. Qed.")
    lines.append("Lemma all_loaders_checked : forallb (fun x => check_load (snd x)) (loaders ++ open_defaults) = true. "
                 "Proof. vm_compute. reflexivity. Qed.")
    lines.append("Lemma all_append_savers_checked : forallb (fun x => check_save_append (snd x)) append_savers = true. "
                 "Proof. vm_compute. reflexivity. Qed.")
    for k in keys:
        lines.append("Lemma guarded_%s : check_guarded ctor_%s = true. Proof. vm_compute. reflexivity. Qed." % (k, k))
        lines.append("Lemma truncates_%s : check_truncates ctor_%s = true. Proof. vm_compute. reflexivity. Qed." % (k, k))
        lines.append("Lemma readonly_%s : check_readonly ctor_%s = true. Proof. vm_compute. reflexivity. Qed." % (k, k))
    for n in saver_names:
        lines.append("Lemma checked_%s : check_save %s = true. Proof. vm_compute. reflexivity. Qed." % (n, n))
        lines.append("Lemma replaces_%s : check_save_truncates %s = true. Proof. vm_compute. reflexivity. Qed." % (n, n))
    lines.append("Lemma all_ctors_guarded : forallb (fun x => check_guarded (snd x)) ctors = true. "
                 "Proof. vm_compute. reflexivity. Qed.")
    lines.append("Lemma all_ctors_truncate : forallb (fun x => check_truncates (snd x)) ctors = true. "
                 "Proof. vm_compute. reflexivity. Qed.")
    lines.append("Lemma all_ctors_readonly : forallb (fun x => check_readonly (snd x)) ctors = true. "
                 "Proof. vm_compute. reflexivity. Qed.")
    lines.append("Lemma all_savers_checked : forallb (fun x => check_save (snd x) && check_save_truncates (snd x)) "
                 "savers = true. Proof. vm_compute. reflexivity. Qed.")
    lines.append("Lemma all_openers_checked : forallb (fun x => check_save (snd x) && check_save_truncates (snd x)) "
                 "openers = true. Proof. vm_compute. reflexivity. Qed.")
    info["checks_text"] = "\n".join(lines) + "\n"
    return defs_text, info


def translate(ctx):
    text, info = build_gen(REPO)
    ctx.write_gen("Gen/OverwritePrograms.v", text)
    ctx.write_gen("Gen/OverwriteChecks.v", info["checks_text"])
    ctx.notes.setdefault("coverage_extra", {})["translator"] = {
        "classes_translated": sorted(k for k, v in info["classes"].items() if v == "translated"),
        "savers_translated": sorted(info["savers"]), "degraded": info["degraded"], "md_open": info.get("md_open"),
        "reflection_lemmas_in_Gen": len(re.findall(r"^Lemma ", info["checks_text"], re.M))}
    if info["degraded"]:
        ctx.notes["translator"] = "degraded: %s" % info["degraded"]
        ctx.log("translator degraded for", info["degraded"])
    ctx.c20_info = info


# ============================================================================ correspondence and oracle
SINGLE_FRAME = {"rst7", "ncrst"}
# (extension, argument kind) whose handling is a recorded finding (known_findings/C20.json): the effect programs say
# nothing about argument types, so these cases are judged by the sha256 oracle only, not compared with the model
NOT_MODELLED_ARGS = {("dtr", "slash"), ("nc", "pathlike"), ("netcdf", "pathlike"), ("ncdf", "pathlike")}
READ_OPS = ["load", "load_stride", "load_atoms", "load_frame", "iterload", "open_read", "open_force_true", "len_seek", "load_topology",
            "fmt_loader", "write_on_read_handle", "with_read_partial", "load_list", "iterload_opts", "seek_back"]
TRAJ_VARIANTS = [{"cell": False}, {"time": False}, {"bonds": True}, {"cell": False, "time": False, "bonds": True}]
BAD_MODES = ["x", "rw", "wb", "w+", "", "R", "W", "r+", "ab"]


def build_cases(ctx):
    quick = ctx.tier == "quick"
    cases = []
    for ext in PROPERTY_EXTS:
        for pre in (0, 1, 2, 3, 4):
            for force in (False, True):
                for entry in ("save", "open", "open_only"):
                    fr = [1] if (entry != "save" or ext in SINGLE_FRAME and False) else [1, 3]
                    if entry == "open":
                        fr = [1] if ext in SINGLE_FRAME else [2]
                    for frames in fr:
                        cases.append({"kind": "write", "ext": ext, "entry": entry, "pre": pre, "pre_at": 0,
                                      "frames": frames, "force": force})
    # numbered restart files, and files that merely look numbered next to an ordinary trajectory
    numbered_exts = sorted(SINGLE_FRAME) + (["xtc", "h5"] if quick else [e for e in PROPERTY_EXTS if e not in SINGLE_FRAME])
    for ext in numbered_exts:
        for pre in (1, 2, 3, 4):
            for pre_at in (1, 2, 3):
                for force in (False, True):
                    for frames in ([3] if quick else [2, 3]):
                        cases.append({"kind": "write", "ext": ext, "entry": "save", "pre": pre, "pre_at": pre_at,
                                      "frames": frames, "force": force})
    # argument-type axis of every entry point: str, pathlib.Path, another os.PathLike, bytes, a relative path, a
    # directory with capitals / spaces / dots in its name, a trailing slash (dtr); also the file class called directly
    for ext in PROPERTY_EXTS:
        for entry in ("save", "open", "open_only", "class"):
            kinds = ["path", "pathlike", "bytes", "rel", "weird"] + (["slash"] if ext == "dtr" else [])
            if entry == "class":
                kinds = ["str"] + kinds
            for arg in kinds:
                for pre in ((0, 3) if quick else (0, 1, 3, 4)):
                    for force in (False, True):
                        fr = 1 if (entry != "save" or ext in SINGLE_FRAME) else 2
                        if quick and arg in ("bytes", "pathlike") and pre == 0 and force:
                            continue
                        cases.append({"kind": "write", "ext": ext, "entry": entry, "pre": pre, "pre_at": 0,
                                      "frames": fr, "force": force, "arg": arg})
    # path spellings that differ from their resolved form: ~/x (HOME points into the scratch directory), ./x,
    # sub/../x, dir/./x, a symlinked directory, a symlink to the target itself.  The runner resolves the spelling
    # itself; the statuses reported are those of the RESOLVED paths
    for ext in PROPERTY_EXTS:
        for entry in ("save", "open", "open_only", "class"):
            for arg in ("tilde", "dot", "dotdot", "dirdot", "symdir", "symfile"):
                for pre in ((3,) if quick else (1, 3, 4)):
                    if arg == "symfile" and pre == 0:
                        continue
                    for force in (False, True):
                        fr = 1 if (entry != "save" or ext in SINGLE_FRAME) else 2
                        cases.append({"kind": "write", "ext": ext, "entry": entry, "pre": pre, "pre_at": 0,
                                      "frames": fr, "force": force, "arg": arg})
                if arg != "symfile" and (not quick or entry == "save"):
                    cases.append({"kind": "write", "ext": ext, "entry": entry, "pre": 0, "pre_at": 0,
                                  "frames": 1, "force": False, "arg": arg})
        if ext in SINGLE_FRAME:
            for arg in ("tilde", "dotdot", "symdir"):
                for force in (False, True):
                    cases.append({"kind": "write", "ext": ext, "entry": "save", "pre": 3, "pre_at": 2, "frames": 3,
                                  "force": force, "arg": arg})
    reads = [{"kind": "read", "ext": ext, "op": op} for ext in PROPERTY_EXTS for op in READ_OPS]
    # modes other than 'w': 'a' (HDF5 appends, every other class refuses) and strings that are no mode at all
    for xi, ext in enumerate(PROPERTY_EXTS):
        bad = BAD_MODES if not quick else [BAD_MODES[(xi + j + ctx.seed) % len(BAD_MODES)] for j in (0, 4)]
        for mode in ["a"] + list(bad):
            for pre in ((0, 1, 3) if quick else (0, 1, 2, 3, 4)):
                for force in (False, True):
                    cases.append({"kind": "mode", "ext": ext, "entry": "open_mode", "mode": mode, "pre": pre,
                                  "force": force})
    for mode in ("a", "x"):
        for pre in (0, 1, 2, 3, 4):
            for force in (False, True):
                cases.append({"kind": "mode", "ext": "h5", "entry": "save_mode", "mode": mode, "pre": pre, "force": force})
    cases += series_cases(ctx)
    # the branches inside Trajectory.save_* depend on what the trajectory carries: every extension x {no unit cell, default
    # time, bonded topology, none of them} x {1, 3 frames} x pre-existing content, force_overwrite=False (and True on a
    # fresh path / where the saver accepts such a trajectory)
    for ext in PROPERTY_EXTS:
        for traj in TRAJ_VARIANTS:
            for frames in ((1,) if ext in SINGLE_FRAME and quick else (1, 3)):
                for pre in ((1, 3) if quick else (0, 1, 2, 3, 4)):
                    cases.append({"kind": "write", "ext": ext, "entry": "save", "pre": pre, "pre_at": 0, "frames": frames,
                                  "force": False, "traj": traj})
                if not quick:
                    cases.append({"kind": "write", "ext": ext, "entry": "save", "pre": 1, "pre_at": 0, "frames": frames,
                                  "force": True, "traj": traj})
    if not quick:
        # a random extra stream over the whole grid (repeats catch order/time dependent behaviour)
        for _ in range(400):
            ext = ctx.rng.choice(PROPERTY_EXTS)
            entry = ctx.rng.choice(["save", "open", "open_only"])
            frames = 1 if (entry != "save" and ext in SINGLE_FRAME) else ctx.rng.choice([1, 2, 3])
            cases.append({"kind": "write", "ext": ext, "entry": entry, "pre": ctx.rng.randrange(5),
                          "pre_at": ctx.rng.choice([0, 0, 1, 2, 3]) if entry == "save" else 0,
                          "frames": frames, "force": ctx.rng.random() < 0.5})
    return cases, reads


def series_cases(ctx):
    """numbered restart output with frame counts that change the width of the zero padding (9 | 10, 12 | 100, 101) and
    pre-existing files at padded target names, at unpadded / differently padded names (not targets) and at the base
    name; thorough: every subset of the candidate names, quick: singletons, some pairs, all"""
    quick = ctx.tier == "quick"
    out = []
    for ext in sorted(SINGLE_FRAME):
        for N in ((9, 12, 100) if quick else (2, 9, 10, 12, 100, 101)):
            w = len(str(N))
            cand = [".%0*d" % (w, 1), ".%0*d" % (w, min(7, N - 1)), ".%0*d" % (w, N)]      # targets: first, low, last
            if w > 1:
                cand += [".1", ".%d" % min(7, N - 1)]                                     # unpadded: not targets
            cand += [".%0*d" % (w + 1, 1), ""]                                             # wider padding, the base name
            cand = list(dict.fromkeys(cand))
            if quick:
                subsets = [[c] for c in cand] + [cand[:2], [cand[0], cand[-1]], cand[3:5] if w > 1 else cand[1:3], cand]
                if N == 100:
                    subsets = subsets[:4] + [cand]
            else:
                subsets = [[c for j, c in enumerate(cand) if m >> j & 1] for m in range(1, 2 ** len(cand))]
                if N >= 100:
                    subsets = [sb for sb in subsets if len(sb) <= 2 or len(sb) == len(cand)]
            for sb in subsets:
                if not sb:
                    continue
                for force in (False, True):
                    pre = [[c, "valid" if (j + len(sb)) % 2 == 0 else "bytes"] for j, c in enumerate(sb)]
                    out.append({"kind": "series", "ext": ext, "frames": N, "force": force, "pre": pre})
    return out


def run_series_cases(ctx, series, outs):
    """the property itself on numbered restart series (the effect model numbers the files abstractly, it does not know
    about zero padding: this stream is judged by the sha256 oracle alone)"""
    for c, o in zip(series, outs):
        ctx.count(c, nontrivial=True, bucket="series/%s/n=%d/force=%s" % (c["ext"], c["frames"], c["force"]))
        tags = {"ext": c["ext"], "entry": "save", "force": c["force"], "frames": c["frames"], "stream": "series"}
        if o["stray"]:
            ctx.fail("%s: a numbered save leaves files that are neither targets nor were there before" % c["ext"], c,
                     observed=o, expected="only the numbered targets", tags=dict(tags, kind="stray"))
        others_changed = [x for x in o["changed"] if x in o["pre_other"]]
        if others_changed:
            ctx.fail("%s: a numbered save touched an existing file that is not one of its targets" % c["ext"], c, observed=o,
                     expected="non-target paths byte-identical", tags=dict(tags, kind="frame"))
        if not c["force"]:
            if [x for x in o["changed"] if x in o["pre_targets"]]:
                ctx.fail("%s: force_overwrite=False modified an existing numbered file" % c["ext"], c, observed=o,
                         expected="pre-existing path byte-identical", tags=dict(tags, kind="modified"))
            elif o["pre_targets"] and o["raised"] is None:
                ctx.fail("%s: force_overwrite=False at an existing numbered target did not raise" % c["ext"], c,
                         observed=o, expected="an error", tags=dict(tags, kind="no_error"))
        if o["raised"] is None and (c["force"] or not o["pre_targets"]):
            if o["bad_targets"] or o["n_created"] + len(o["pre_targets"]) != o["n_targets"]:
                ctx.fail("%s: a numbered save returned normally but a target does not hold exactly its frame" % c["ext"], c,
                         observed=o, expected="file k holds frame k", tags=dict(tags, kind="not_written"))


def model_pre(c):
    # a valid .dtr "file" is a directory
    if c["ext"] == "dtr" and c["pre"] in (1, 2):
        return 4
    return c["pre"]


def is_target(c, i):
    """is path index i (0 = base, j = base.j) written by this operation?"""
    if c["entry"] == "save" and c["ext"] in SINGLE_FRAME and c["frames"] != 1:
        return 1 <= i <= c["frames"]
    return i == 0


def run_cases(ctx, cases):
    writes = [c for c in cases if c.get("kind", "write") == "write"]
    reads = [c for c in cases if c.get("kind") == "read"]
    modes = [c for c in cases if c.get("kind") == "mode"]
    series = [c for c in cases if c.get("kind") == "series"]
    res = ctx.run_impl("overwrite_impl.py", {"cases": writes, "reads": reads, "modes": modes, "series": series})
    run_mode_cases(ctx, modes, res.get("modes", []))
    run_series_cases(ctx, series, res.get("series", []))
    # ---------------- the property itself, on the implementation (oracle)
    for c, o in zip(writes, res["cases"]):
        ctx.count(c, nontrivial=c["pre"] != 0, bucket="%s/%s/force=%s/%s%s" % (
            c["entry"], "pre" if c["pre"] else "fresh", c["force"], c.get("arg", "str"),
            "/traj:" + "+".join(sorted(k if v else "no-" + k for k, v in c["traj"].items())) if c.get("traj") else ""))
        st = o["status"]
        tags = {"ext": c["ext"], "entry": c["entry"], "force": c["force"], "pre": c["pre"], "arg": c.get("arg", "str")}
        if o.get("stray_cwd"):
            ctx.fail("%s: output went to a path that is not the one given (%s)" % (c["ext"], o["stray_cwd"][0][:40]), c,
                     observed=o, expected="the given path", tags=dict(tags, kind="misdirected"))
        if o["stray"]:
            ctx.fail("%s: operation leaves unexpected files next to the target" % c["ext"], c, observed=o,
                     expected="only the target paths", tags=dict(tags, kind="stray"))
        if c["pre"] != 0 and not c["force"]:
            if st[c["pre_at"]] != "Unchanged":
                ctx.fail("%s: force_overwrite=False modified an existing path" % c["ext"], c, observed=o,
                         expected="pre-existing path byte-identical", tags=dict(tags, kind="modified"))
            elif is_target(c, c["pre_at"]) and o["raised"] is None and c.get("arg") != "tilde":
                ctx.fail("%s: force_overwrite=False at an existing target did not raise" % c["ext"], c,
                         observed=o, expected="an error", tags=dict(tags, kind="no_error"))
        if c["force"] and not (c.get("traj") and o["raised"] is not None and o.get("ref_raised") is not None):
            # (a saver that refuses this kind of trajectory after it has opened, i.e. truncated, its target leaves an
            # empty or partial NEW file: overwriting was requested, nothing of the old content is retained)
            for i, s in enumerate(st):
                if s == "Other":
                    ctx.fail("%s: force_overwrite=True left something that is neither the old nor the new content"
                             % c["ext"], c, observed=o, expected="old content fully replaced",
                             tags=dict(tags, kind="remnant"))
                elif s != "Unchanged" and not is_target(c, i):
                    ctx.fail("%s: a path that is not a target was touched" % c["ext"], c, observed=o,
                             expected="only targets change", tags=dict(tags, kind="frame"))
        if c["pre"] == 0 or c["force"]:
            # a fresh / forced write that did not raise must have produced the new content at every target
            if o["raised"] is None and c["entry"] != "open_only" and c.get("arg") != "tilde":
                for i, s in enumerate(st):
                    if is_target(c, i) and s not in ("NewExact", "NewDir"):
                        ctx.fail("%s: write returned normally but the target does not hold exactly the new frames"
                                 % c["ext"], c, observed=o, expected="NewExact",
                                 tags=dict(tags, kind="not_written"))
    for c, o in zip(reads, res["reads"]):
        ctx.count(c, nontrivial=True, bucket="read/%s" % c["op"])
        if o["changed"] or o["new_files"]:
            ctx.fail("%s: read entry point %s altered the file or created files" % (c["ext"], c["op"]), c, observed=o,
                     expected="directory byte-identical", tags={"ext": c["ext"], "op": c["op"], "kind": "read_modifies"})
        elif o.get("touched"):
            ctx.fail("%s: read entry point %s rewrote the file (same bytes, new modification time)" % (c["ext"], c["op"]),
                     c, observed=o, expected="file not written to", tags={"ext": c["ext"], "op": c["op"], "kind": "read_touches"})
        if c["op"] == "write_on_read_handle" and o.get("refused") is False:
            ctx.fail("%s: write() on an object opened for reading did not raise" % c["ext"], c, observed=o,
                     expected="an error", tags={"ext": c["ext"], "op": c["op"], "kind": "read_handle_writes"})
    # ---------------- the tie: translated programs predict exactly what happened
    branches = getattr(ctx, "c20_info", {}).get("md_open_branches") or [("default", None)]

    def open_key(c):
        """key of the md.open branch an argument of this kind reaches (Gen.openers)"""
        kind = c.get("arg", "str")
        for label, kinds in branches:
            if kinds is None or kind in kinds:
                return c["ext"] if label == "default" else "%s@%s" % (c["ext"], label)
        return c["ext"]

    def type_rejected(c, o):
        """an argument type the entry point does not accept: it raised and touched nothing. That satisfies the
        property; the effect programs do not model argument types, so such a case is not compared with them"""
        if (c["ext"], c.get("arg")) in NOT_MODELLED_ARGS:
            return True
        if c.get("arg") == "tilde":
            return True     # mdtraj does not expand "~": the spelling names another (non-existing) path; only the
                            # oracle applies: the file the shell would mean must not be touched without force
        if c.get("traj") and o["raised"] is not None and (c["pre"] == 0 or c["force"]):
            return True     # a saver that does not accept such a trajectory (no unit cell for lammpstrj/dtr/...): what it
                            # leaves behind when it gives up half way is judged by the oracle, the model has no such raise
        if c.get("arg") == "symfile" and c["force"]:
            return True     # unlink+create replaces the link, open('w') writes through it: both replace fully
        return c.get("arg", "str") in ("path", "pathlike", "bytes", "slash", "tilde") and o["raised"] is not None \
            and all(x == "Unchanged" for x in o["status"]) and not o["stray"]

    n_rej = 0
    cc = []
    idx = []
    for i, (c, o) in enumerate(zip(writes, res["cases"])):
        if type_rejected(c, o):
            n_rej += 1
            continue
        if c["entry"] == "open_only":
            continue
        entry = {"save": 0, "open": 1, "class": 2}[c["entry"]]
        frames = c["frames"] if c["entry"] == "save" else 1
        key = open_key(c) if c["entry"] == "open" else c["ext"]
        cc.append(("(%s, %s, %s, %s, %s, %s)" % (cstr(key), cnat(entry), cnat(model_pre(c)), cnat(c["pre_at"]),
                                               cnat(frames), cbool(c["force"])),
                   "Some (%s, %s)" % (cbool(o["raised"] is not None), clist(o["status"]))))
        idx.append(i)
    bad, errs = ctx.coq_mismatches(["MD.Overwrite.Model", "MD.Overwrite.Predict"],
                                   ("string * nat * nat * nat * nat * bool", "option (bool * list status)"),
                                   "res_eqb", "predict_case", cc)
    c1, idx1 = [], []
    for i, (c, o) in enumerate(zip(writes, res["cases"])):
        if c["entry"] != "open_only" or type_rejected(c, o):
            continue
        c1.append(("(%s, %s, %s)" % (cstr(open_key(c)), cnat(model_pre(c)), cbool(c["force"])),
                   "Some (%s, %s)" % (cbool(o["raised"] is not None), o["status"][0])))
        idx1.append(i)
    bad1, errs1 = ctx.coq_mismatches(["MD.Overwrite.Model", "MD.Overwrite.Predict"],
                                     ("string * nat * bool", "option (bool * status)"),
                                     "res1_eqb", "predict_open_case", c1)
    if errs or errs1:
        ctx.break_("correspondence:coqc-evaluation", "\n".join(errs + errs1))
        return
    ctx.notes.setdefault("coverage_extra", {})["argument_type_rejected_cases"] = \
        ctx.notes.get("coverage_extra", {}).get("argument_type_rejected_cases", 0) + n_rej
    wrong = [idx[b] for b in bad] + [idx1[b] for b in bad1]
    by_ext = {}
    for i in wrong:
        by_ext.setdefault(writes[i]["ext"], []).append(i)
    for ext, ii in sorted(by_ext.items()):
        ex = min(ii, key=lambda i: (writes[i]["pre"], writes[i]["frames"]))
        ctx.break_("correspondence:overwrite-model[%s]" % ext,
                   "the effect program translated for .%s does not predict the implementation on %d cases; e.g. %s -> %s"
                   % (ext, len(ii), writes[ex], {k: res["cases"][ex][k] for k in ("raised", "status", "detail")}))
        ctx.notes.setdefault("tie_examples", []).append({"case": writes[ex], "impl": res["cases"][ex]})


def run_mode_cases(ctx, modes, outs):
    """oracle and tie for md.open(path, 'a' | <no mode>, ...) and save_hdf5(mode=...)"""
    if not modes:
        return
    cc, idx = [], []
    for i, (c, o) in enumerate(zip(modes, outs)):
        is_a = c["mode"] == "a"
        ctx.count(c, nontrivial=c["pre"] != 0, bucket="mode/%s/%s/%s" % (
            c["entry"], "a" if is_a else "unknown", "pre" if c["pre"] else "fresh"))
        tags = {"ext": c["ext"], "entry": c["entry"], "mode": c["mode"], "pre": c["pre"], "force": c["force"]}
        if o["stray"]:
            ctx.fail("%s: mode %r leaves unexpected files next to the target" % (c["ext"], c["mode"]), c, observed=o,
                     expected="only the target path", tags=dict(tags, kind="stray"))
        if o["raised"] is not None and o["status"] != 0:
            ctx.fail("%s: opening with mode %s raised but the path was modified" % (c["ext"], "'a'" if is_a else "that is not a mode"),
                     c, observed=o, expected="path unchanged", tags=dict(tags, kind="mode_modified"))
        if o["raised"] is None and c["pre"] != 0:
            if not is_a and o["status"] != 0:
                ctx.fail("%s: an unknown mode string modified an existing path" % c["ext"], c, observed=o,
                         expected="an error, path unchanged", tags=dict(tags, kind="mode_modified"))
            if is_a and c["pre"] in (1, 2) and o["status"] != 1:
                ctx.fail("%s: append mode did not keep the old frames in front of the new ones" % c["ext"], c, observed=o,
                         expected="old frames followed by the new frames", tags=dict(tags, kind="append_loses"))
            if is_a and c["pre"] == 3 and o["status"] != 0 and o.get("prefix_kept") is False:
                ctx.fail("%s: append mode destroyed the old bytes of the file" % c["ext"], c, observed=o,
                         expected="old bytes kept", tags=dict(tags, kind="append_loses"))
        if o["raised"] is None and c["pre"] == 0 and is_a and o["status"] != 2:
            ctx.fail("%s: append mode on a fresh path returned normally but the file does not hold the new frames" % c["ext"],
                     c, observed=o, expected="exactly the new frames", tags=dict(tags, kind="not_written"))
        # tie: the translated constructor / saver under MA / MOther (content validity is not part of the model:
        # 'a' on unrelated bytes is judged by the oracle only; so is a saver's own validation of its mode argument)
        if (is_a and c["pre"] == 3) or (c["entry"] == "save_mode" and not is_a):
            continue
        key = "save_hdf5" if c["entry"] == "save_mode" else c["ext"]
        cc.append(("(%s, %s, %s, %s, %s)" % (cstr(key), cnat(1 if c["entry"] == "save_mode" else 0),
                                             cnat(2 if is_a else 3), cnat(model_pre(c)), cbool(c["force"])),
                   "Some (%s, %s)" % (cbool(o["raised"] is not None), cnat(o["status"]))))
        idx.append(i)
    bad, errs = ctx.coq_mismatches(["MD.Overwrite.Model", "MD.Overwrite.Predict"],
                                   ("string * nat * nat * nat * bool", "option (bool * nat)"),
                                   "resm_eqb", "predict_mode", cc)
    if errs:
        ctx.break_("correspondence:coqc-evaluation", "\n".join(errs))
        return
    by_ext = {}
    for b in bad:
        by_ext.setdefault(modes[idx[b]]["ext"], []).append(idx[b])
    for ext, ii in sorted(by_ext.items()):
        ex = ii[0]
        ctx.break_("correspondence:mode-model[%s]" % ext,
                   "the constructor program translated for .%s does not predict the implementation in mode 'a' / an unknown "
                   "mode on %d cases; e.g. %s -> %s" % (ext, len(ii), modes[ex], outs[ex]))
        ctx.notes.setdefault("tie_examples", []).append({"case": modes[ex], "impl": outs[ex]})


def correspond(ctx):
    cases, reads = build_cases(ctx)
    ctx.log("cases:", len(cases), "reads:", len(reads))
    run_cases(ctx, cases + reads)


def search(ctx, broken):
    """A reflection lemma or the tie broke and the grid of this tier showed no failure: run the sha256 oracle on
    the full (thorough) grid."""
    if ctx.tier == "thorough":
        return
    old = ctx.tier
    ctx.tier = "thorough"
    try:
        cases, reads = build_cases(ctx)
    finally:
        ctx.tier = old
    run_cases(ctx, cases + reads)


def replay(ctx, rec):
    c = rec["case"]
    try:
        _t, info = build_gen(REPO)
        ctx.c20_info = info
    except Exception:  # noqa: BLE001
        pass
    run_cases(ctx, [c])
