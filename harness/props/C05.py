"""C05 — periodic distances/displacements are true minimum-image values.

Model   coq/PBC/Model.v (Z arithmetic in a common dyadic unit), theorems coq/Props/C05.v.
Tie     (a) translate(): the straight-line arithmetic of dist_mic / dist_mic_triclinic(_t) /
            find_closest_contact (C++) and _reduce_box_vectors / _displacement_mic / _distance_mic(_t)
            (python) is re-translated into coq/Gen/PBCFormulas.v on every run; coq/PBC/GenTie.v proves it
            equal to the hand-written model (a changed sign / index / comparison breaks that lemma);
        (b) correspond(): md.compute_displacements / compute_distances / compute_distances_t /
            compute_distances_core / find_closest_contact are run on generated cells x coordinates and
            compared, inside coqc, with the model: integer lattice shifts exactly (outside rounding
            ties), float distances against the exact squared norm under a stated bound.
Search  brute-force lattice search in exact integer arithmetic on the implementation's output
        (congruence, never-below, minimality for orthorhombic cells / below half the smallest width).
"""
import ast
import json
import math
import os
import re
import subprocess
from fractions import Fraction

from common import COQ, REPO

LEVEL = "proof"
THEOREMS = "Props/C05.v"
EXTRA_TARGETS = ("PBC/Check.vo",)
EXTS = ["_geometry"]
RULE = ("[deepening axes: GLUE stream = every API function x invalid / boundary / empty index lists and cell arrays of the wrong "
        "length (error class and shape against coq/PBC/Kernel.v api_call); CALL HISTORIES = chains of 4 steps in one process on one "
        "Trajectory object and one cell ndarray refilled in place, cell kind alternating; MIXED-KIND trajectories (rectangular first "
        "frame then sheared, and the reverse); unit-cell round trip read back on every case] "
        "[cell series: one of the six box components changes per frame, tilt-only stretches with a frozen diagonal, "
        "repeated cells] [cell kinds: 9 named shapes + all 8 zero/non-zero patterns of (b_x, c_x, c_y) + rotated cells for "
        "compute_distances_core; every case contains (i,i), coincident-atom and exact-periodic-image pairs; "
        "compute_distances_t gets every ordered frame pair, find_closest_contact every frame with possibly overlapping "
        "groups; opt=True vs opt=False compared entry by entry over the whole separation range] "
        "a case = (cell kind, reduced/unreduced, per-frame cells, spread of the atoms in cells, API, opt, periodic, "
        "pair list); one evaluation = one pair-frame (one reported distance or displacement); non-trivial = "
        "periodic pair-frame whose plain separation leaves the primary cell (non-zero lattice shift); distinct by "
        "hash of (cell, separation, API, opt)")
TRUSTED = ["harness/impl/pbc_impl.py (builds the Trajectory through the public API, reads back the float32 cell the "
           "kernels see, returns raw float32 bit patterns)",
           "harness/props/C05.py: generator, float->integer scaling, tolerance formulas, the brute-force oracle; "
           "model-vs-implementation comparison is done by vm_compute inside coqc (coq/PBC/Check.v)",
           "translator harness/props/C05.py:translate (regex/ast over the named blocks; unparseable source = degraded)",
           "translator harness/props/C05_loops.py (loop skeletons, offsets, pointer advances, glue control flow by regex / brace "
           "matching / ast: the extracted data is compared with coq/PBC/Kernel.v, the extraction itself is trusted)"]
ASSUMPTIONS = [
    "float32 rounding inside the kernels is not modelled: distances are compared with the exact value under "
    "tol = 2^-20*M + 2^-21*d (M = 2*(max|coordinate| + max|cell entry|)); when all coordinates and cell entries lie "
    "on the 2^-10 nm grid float32 arithmetic up to the dot product is exact and tol = 2^-21*d; lattice shifts are "
    "compared exactly outside a guard band of width tol around rounding ties of the wrap (counted as excluded); a "
    "rounding tie of the box reduction (hexagonal cells, b_x = a_x/2) is compared against both resolutions",
    "cells are in mdtraj's standard orientation (a along x, b in the xy plane, positive diagonal): every "
    "Trajectory-based entry point regenerates unitcell_vectors in that form from lengths/angles (the cell the kernels "
    "see is the float32 read-back of traj.unitcell_vectors); compute_distances_core is the only entry point that can "
    "be handed another orientation: it is probed with cells rotated by the exact 3-4-5 angle (model still exact; "
    "theorem minimal_halfwidth_nonstandard_orientation_refuted; known finding C05-core-nonstandard-orientation)",
    "non-orthorhombic generated cells deviate from 90 degrees by more than 0.05 degrees: the np.allclose(angles, 90) "
    "dispatch (tolerance 9e-4 degrees) is modelled as 'all off-diagonal entries are zero'",
]

GEOM = "mdtraj/geometry/src/geometry.cpp"
KERN = "mdtraj/geometry/src/kernels/distancekernels.h"
DIST = "mdtraj/geometry/distance.py"


# =============================================================================================
# translator
class Untranslatable(Exception):
    pass


def _strip_c_comments(t):
    t = re.sub(r"/\*.*?\*/", "", t, flags=re.S)
    return re.sub(r"//[^\n]*", "", t)


def _c_function(text, name):
    m = re.search(r"^void\s+%s\s*\(" % re.escape(name), text, re.M)
    if not m:
        raise Untranslatable("function %s not found" % name)
    i = text.index("{", m.end())
    depth, j = 0, i
    while True:
        c = text[j]
        if c == "{":
            depth += 1
        elif c == "}":
            depth -= 1
            if depth == 0:
                break
        j += 1
    return text[i:j + 1]


_RND_C = {"roundf": "rn", "round": "rn"}


def _translate_tric(body, tag):
    """dist_mic_triclinic / dist_mic_triclinic_t -> Gallina text (list of Definitions)."""
    out = []
    # box vector loads
    idx = {}
    for m in re.finditer(r"fvec4\s+box_vec(\d)\s*\(\s*box_matrix\[(\d)\]\s*,\s*box_matrix\[(\d)\]\s*,\s*box_matrix\[(\d)\]\s*,\s*0\s*\)\s*;", body):
        idx[m.group(1)] = (int(m.group(2)), int(m.group(3)), int(m.group(4)))
    if sorted(idx) != ["1", "2", "3"]:
        raise Untranslatable("%s: box_vec loads not recognised" % tag)
    out.append("Definition %s_idx := ((%d, %d, %d), (%d, %d, %d), (%d, %d, %d))%%nat." % (
        (tag,) + idx["1"] + idx["2"] + idx["3"]))
    # reduction:  box_vecA -= box_vecB*roundf(box_vecC[i]/box_vecD[j]);
    red = re.findall(r"box_vec(\d)\s*-=\s*box_vec(\d)\s*\*\s*(roundf|round)\s*\(\s*box_vec(\d)\[(\d)\]\s*/\s*box_vec(\d)\[(\d)\]\s*\)\s*;", body)
    n_red_stmt = len(re.findall(r"box_vec\d\s*[-+*/]?=[^=]", body)) - 0
    if len(red) != 3 or len(re.findall(r"box_vec\d\s*-=", body)) != 3 or len(re.findall(r"box_vec\d\s*(\+|\*|/)=", body)) != 0:
        raise Untranslatable("%s: reduction statements not recognised" % tag)
    lines = ["Definition %s_reduce (rn : Z -> Z -> Z) (box_vec1 box_vec2 box_vec3 : vec) : vec * vec * vec :=" % tag]
    for a, b, _f, c, i, d, j in red:
        lines.append("  let box_vec%s := vsub box_vec%s (vscale (rn (vget box_vec%s %s) (vget box_vec%s %s)) box_vec%s) in" % (
            a, a, c, i, d, j, b))
    lines.append("  (box_vec1, box_vec2, box_vec3).")
    out.append("\n".join(lines))
    # reciprocal table
    m = re.search(r"float\s+recip_box_size\[3\]\s*=\s*\{\s*1\.0f\s*/\s*box_vec(\d)\[(\d)\]\s*,\s*1\.0f\s*/\s*box_vec(\d)\[(\d)\]\s*,\s*1\.0f\s*/\s*box_vec(\d)\[(\d)\]\s*\}\s*;", body)
    if not m:
        raise Untranslatable("%s: recip_box_size not recognised" % tag)
    recip = [(m.group(1), m.group(2)), (m.group(3), m.group(4)), (m.group(5), m.group(6))]
    # separation
    m = re.search(r"fvec4\s+r12\s*=\s*(pos[12])\s*-\s*(pos[12])\s*;", body)
    if not m or {m.group(1), m.group(2)} != {"pos1", "pos2"}:
        raise Untranslatable("%s: r12 not recognised" % tag)
    out.append("Definition %s_sep (pos1 pos2 : vec) : vec := vsub %s %s." % (tag, m.group(1), m.group(2)))
    # wrap:  r12 -= box_vecA*round(r12[i]*recip_box_size[k]);
    wr = re.findall(r"r12\s*-=\s*box_vec(\d)\s*\*\s*(roundf|round)\s*\(\s*r12\[(\d)\]\s*\*\s*recip_box_size\[(\d)\]\s*\)\s*;", body)
    if len(wr) != 3 or len(re.findall(r"r12\s*[-+*/]=", body)) != 3:
        raise Untranslatable("%s: wrap statements not recognised" % tag)
    lines = ["Definition %s_wrap (rn : Z -> Z -> Z) (box_vec1 box_vec2 box_vec3 r12 : vec) : vec :=" % tag]
    for a, _f, i, k in wr:
        bv, bi = recip[int(k)]
        lines.append("  let r12 := vsub r12 (vscale (rn (vget r12 %s) (vget box_vec%s %s)) box_vec%s) in" % (i, bv, bi, a))
    lines.append("  r12.")
    out.append("\n".join(lines))
    # the image loops
    loops = re.findall(r"for\s*\(\s*int\s+(\w)\s*=\s*(-?\d+)\s*;\s*\1\s*<\s*(-?\d+)\s*;\s*\1\+\+\s*\)", body)
    loops = [l for l in loops if l[0] in "xyz"]
    if [l[0] for l in loops] != ["x", "y", "z"]:
        raise Untranslatable("%s: image loops not recognised" % tag)
    out.append("Definition %s_loops := ((%s, %s), (%s, %s), (%s, %s))." % (
        tag, loops[0][1], loops[0][2], loops[1][1], loops[1][2], loops[2][1], loops[2][2]))
    cand = re.findall(r"fvec4\s+(r[abc])\s*=\s*(r12|r[ab])\s*\+\s*box_vec(\d)\s*\*\s*([xyz])\s*;", body)
    if [c[0] for c in cand] != ["ra", "rb", "rc"]:
        raise Untranslatable("%s: candidate construction not recognised" % tag)
    lines = ["Definition %s_cand (box_vec1 box_vec2 box_vec3 r12 : vec) (x y z : Z) : vec :=" % tag]
    for name, base, bv, var in cand:
        lines.append("  let %s := vadd %s (vscale %s box_vec%s) in" % (name, base, var, bv))
    lines.append("  rc.")
    out.append("\n".join(lines))
    m = re.search(r"float\s+dist2\s*=\s*dot3\s*\(\s*rc\s*,\s*rc\s*\)\s*;\s*if\s*\(\s*dist2\s*(<=|<)\s*min_dist2\s*\)\s*\{\s*min_dist2\s*=\s*dist2\s*;\s*min_r\s*=\s*rc\s*;", body)
    if not m or not re.search(r"float\s+min_dist2\s*=\s*FLT_MAX\s*;", body):
        raise Untranslatable("%s: arg-min not recognised" % tag)
    out.append("Definition %s_keep_last : bool := %s." % (tag, "true" if m.group(1) == "<=" else "false"))
    if not re.search(r"min_r\.store\s*\(\s*temp\s*\)", body) or not re.search(r"\*distance_out\s*=\s*sqrtf\s*\(\s*min_dist2\s*\)", body):
        raise Untranslatable("%s: result stores not recognised" % tag)
    return out


def _translate_ortho(body, tag):
    out = []
    m = re.search(r"fvec4\s+box_size\s*\(\s*box_matrix\[(\d)\]\s*,\s*box_matrix\[(\d)\]\s*,\s*box_matrix\[(\d)\]\s*,\s*0\s*\)\s*;", body)
    m2 = re.search(r"fvec4\s+inv_box_size\s*\(\s*1\.0f\s*/\s*box_matrix\[(\d)\]\s*,\s*1\.0f\s*/\s*box_matrix\[(\d)\]\s*,\s*1\.0f\s*/\s*box_matrix\[(\d)\]\s*,\s*0\s*\)\s*;", body)
    if not m or not m2:
        raise Untranslatable("%s: box_size not recognised" % tag)
    out.append("Definition %s_idx := ((%s, %s, %s), (%s, %s, %s))%%nat." % ((tag,) + m.groups() + m2.groups()))
    s = re.search(r"fvec4\s+r12\s*=\s*(pos[12])\s*-\s*(pos[12])\s*;", body)
    if not s or {s.group(1), s.group(2)} != {"pos1", "pos2"}:
        raise Untranslatable("%s: r12 not recognised" % tag)
    out.append("Definition %s_sep (pos1 pos2 : vec) : vec := vsub %s %s." % (tag, s.group(1), s.group(2)))
    w = re.findall(r"r12\s*-=\s*round\s*\(\s*r12\s*\*\s*inv_box_size\s*\)\s*\*\s*box_size\s*;", body)
    if len(w) != 1 or len(re.findall(r"r12\s*[-+*/]=", body)) != 1:
        raise Untranslatable("%s: wrap statement not recognised" % tag)
    out.append("Definition %s_wrap (rn : Z -> Z -> Z) (box_size r12 : vec) : vec :=\n"
               "  vsub r12 (vmul (vround rn r12 box_size) box_size)." % tag)
    if not re.search(r"\*distance_out\s*=\s*sqrtf\s*\(\s*dot3\s*\(\s*r12\s*,\s*r12\s*\)\s*\)", body):
        raise Untranslatable("%s: distance store not recognised" % tag)
    return out


def _translate_fcc(body):
    out = []
    vec = re.findall(r"box_vec(\d)\s*=\s*fvec4\s*\(\s*box_vectors_pointer\[(\d)\]\s*,\s*box_vectors_pointer\[(\d)\]\s*,\s*box_vectors_pointer\[(\d)\]\s*,\s*0\s*\)\s*;", body)
    rec = re.findall(r"recip_box_size\[(\d)\]\s*=\s*1\.0f\s*/\s*box_vectors_pointer\[(\d)\]\s*;", body)
    if [v[0] for v in vec] != ["1", "2", "3"] or [r[0] for r in rec] != ["0", "1", "2"]:
        raise Untranslatable("fcc: box loads not recognised")
    out.append("Definition fcc_idx := ((%s, %s, %s), (%s, %s, %s), (%s, %s, %s), (%s, %s, %s))%%nat." % (
        tuple(vec[0][1:]) + tuple(vec[1][1:]) + tuple(vec[2][1:]) + tuple(r[1] for r in rec)))
    s = re.search(r"fvec4\s+delta\s*=\s*(pos[12])\s*-\s*(pos[12])\s*;", body)
    if not s or {s.group(1), s.group(2)} != {"pos1", "pos2"}:
        raise Untranslatable("fcc: delta not recognised")
    out.append("Definition fcc_sep (pos1 pos2 : vec) : vec := vsub %s %s." % (s.group(1), s.group(2)))
    wr = re.findall(r"delta\s*-=\s*box_vec(\d)\s*\*\s*floorf\s*\(\s*delta\[(\d)\]\s*\*\s*recip_box_size\[(\d)\]\s*\+\s*0\.5f\s*\)\s*;", body)
    if len(wr) != 3 or len(re.findall(r"delta\s*[-+*/]=", body)) != 3:
        raise Untranslatable("fcc: wrap statements not recognised")
    # recip_box_size[k] = 1/box_vectors_pointer[q]: q = 4*k means the diagonal entry k of vector k+1
    diag = {"0": ("1", "0"), "4": ("2", "1"), "8": ("3", "2")}
    lines = ["Definition fcc_wrap (rn : Z -> Z -> Z) (box_vec1 box_vec2 box_vec3 delta : vec) : vec :="]
    for a, i, k in wr:
        q = rec[int(k)][1]
        if q not in diag:
            raise Untranslatable("fcc: reciprocal of a non-diagonal entry")
        bv, bi = diag[q]
        lines.append("  let delta := vsub delta (vscale (rn (vget delta %s) (vget box_vec%s %s)) box_vec%s) in" % (i, bv, bi, a))
    lines.append("  delta.")
    out.append("\n".join(lines))
    m = re.search(r"if\s*\(\s*r2\s*(<=|<)\s*distance2\s*\)", body)
    if not m:
        raise Untranslatable("fcc: comparison not recognised")
    out.append("Definition fcc_keep_last : bool := %s." % ("true" if m.group(1) == "<=" else "false"))
    return out


# ---- python side (ast)
def _py_func(tree, name):
    for n in tree.body:
        if isinstance(n, ast.FunctionDef) and n.name == name:
            return n
    raise Untranslatable("python function %s not found" % name)


def _py_sub_stmt(st):
    """X -= Y * round(A[i] / B[j])  ->  (X, Y, A, i, B, j)"""
    if not (isinstance(st, ast.AugAssign) and isinstance(st.op, ast.Sub) and isinstance(st.target, ast.Name)):
        return None
    v = st.value
    if not (isinstance(v, ast.BinOp) and isinstance(v.op, ast.Mult) and isinstance(v.left, ast.Name)
            and isinstance(v.right, ast.Call) and isinstance(v.right.func, ast.Name) and v.right.func.id == "round"
            and len(v.right.args) == 1 and not v.right.keywords):
        return None
    q = v.right.args[0]
    if not (isinstance(q, ast.BinOp) and isinstance(q.op, ast.Div)):
        return None

    def sub(e):
        if (isinstance(e, ast.Subscript) and isinstance(e.value, ast.Name) and isinstance(e.slice, ast.Constant)
                and e.slice.value in (0, 1, 2)):
            return e.value.id, e.slice.value
        return None
    a, b = sub(q.left), sub(q.right)
    if not a or not b:
        return None
    return st.target.id, v.left.id, a[0], a[1], b[0], b[1]


def _py_wrap_block(fn, tag):
    """The three 'r12 -= bvK * round(r12[i] / bvK[i])' statements of the innermost pair loop."""
    stmts = []
    for n in ast.walk(fn):
        if isinstance(n, ast.AugAssign) and isinstance(n.target, ast.Name) and n.target.id == "r12":
            s = _py_sub_stmt(n)
            if s is None:
                raise Untranslatable("%s: wrap statement not recognised" % tag)
            stmts.append((n.lineno, s))
    stmts.sort()
    if len(stmts) != 3:
        raise Untranslatable("%s: expected three wrap statements" % tag)
    lines = []
    for _ln, (x, y, a, i, b, j) in stmts:
        lines.append("  let %s := vsub %s (vscale (rn (vget %s %d) (vget %s %d)) %s) in" % (x, x, a, i, b, j, y))
    return lines


def _translate_py(src):
    tree = ast.parse(src)
    out = []
    fn = _py_func(tree, "_reduce_box_vectors")
    body = [s for s in fn.body if not (isinstance(s, ast.Expr) and isinstance(s.value, ast.Constant))]
    if not (len(body) == 5 and isinstance(body[0], ast.Assign) and isinstance(body[-1], ast.Return)):
        raise Untranslatable("_reduce_box_vectors: shape not recognised")
    names = [e.id for e in body[0].targets[0].elts]
    ret = [e.id for e in body[-1].value.elts]
    if names != ["bv1", "bv2", "bv3"] or ret != names:
        raise Untranslatable("_reduce_box_vectors: names not recognised")
    lines = ["Definition np_reduce (rn : Z -> Z -> Z) (bv1 bv2 bv3 : vec) : vec * vec * vec :="]
    for st in body[1:4]:
        s = _py_sub_stmt(st)
        if s is None:
            raise Untranslatable("_reduce_box_vectors: statement not recognised")
        x, y, a, i, b, j = s
        lines.append("  let %s := vsub %s (vscale (rn (vget %s %d) (vget %s %d)) %s) in" % (x, x, a, i, b, j, y))
    lines.append("  (bv1, bv2, bv3).")
    out.append("\n".join(lines))
    wraps = {}
    for name in ("_distance_mic", "_distance_mic_t", "_displacement_mic"):
        fn = _py_func(tree, name)
        wraps[name] = _py_wrap_block(fn, name)
        # the box of the frame: _reduce_box_vectors(box_vectors[<frame>].T)
        calls = [n for n in ast.walk(fn) if isinstance(n, ast.Call) and isinstance(n.func, ast.Name)
                 and n.func.id == "_reduce_box_vectors"]
        if len(calls) != 1 or ast.unparse(calls[0].args[0]) not in ("box_vectors[i].T", "box_vectors[a].T"):
            raise Untranslatable("%s: box argument not recognised" % name)
        # ranges of the image loops
        rng = [ast.unparse(n.iter) for n in ast.walk(fn) if isinstance(n, ast.For) and isinstance(n.target, ast.Name)
               and n.target.id in ("ii", "jj", "kk")]
        if rng != ["range(-1, 2)"] * 3:
            raise Untranslatable("%s: image loops not recognised" % name)
    if not (wraps["_distance_mic"] == wraps["_distance_mic_t"] == wraps["_displacement_mic"]):
        raise Untranslatable("numpy wrap blocks differ between the three functions")
    out.append("\n".join(["Definition np_wrap (rn : Z -> Z -> Z) (bv1 bv2 bv3 r12 : vec) : vec :="] +
                         wraps["_displacement_mic"] + ["  r12."]))
    out.append("Definition np_loops := ((-1, 2), (-1, 2), (-1, 2)).")
    # separation signs
    fn = _py_func(tree, "_displacement_mic")
    seps = [ast.unparse(n.value) for n in ast.walk(fn) if isinstance(n, ast.Assign) and isinstance(n.targets[0], ast.Name)
            and n.targets[0].id == "r12"]
    if seps != ["xyz[i, b, :] - xyz[i, a, :]"]:
        raise Untranslatable("_displacement_mic: r12 not recognised")
    # candidate: tmp = r12 + v12 + bv3 * kk ; v12 = bv2 * jj + v1 ; v1 = bv1 * ii
    asg = {n.targets[0].id: ast.unparse(n.value) for n in ast.walk(fn) if isinstance(n, ast.Assign)
           and isinstance(n.targets[0], ast.Name)}
    if (asg.get("v1"), asg.get("v12"), asg.get("tmp")) != ("bv1 * ii", "bv2 * jj + v1", "r12 + v12 + bv3 * kk"):
        raise Untranslatable("_displacement_mic: candidate construction not recognised")
    out.append("Definition np_cand (bv1 bv2 bv3 r12 : vec) (ii jj kk : Z) : vec :=\n"
               "  let v1 := vscale ii bv1 in\n  let v12 := vadd (vscale jj bv2) v1 in\n"
               "  vadd (vadd r12 v12) (vscale kk bv3).")
    cmps = [n for n in ast.walk(fn) if isinstance(n, ast.Compare) and ast.unparse(n.left) == "new_dist2"]
    if len(cmps) != 1 or ast.unparse(cmps[0].comparators[0]) != "dist2" or not isinstance(cmps[0].ops[0], (ast.Lt, ast.LtE)):
        raise Untranslatable("_displacement_mic: comparison not recognised")
    out.append("Definition np_keep_last : bool := %s." % ("true" if isinstance(cmps[0].ops[0], ast.LtE) else "false"))
    if asg.get("min_disp") not in ("tmp", "r12") or asg.get("dist2") not in ("(r12 * r12).sum()", "new_dist2"):
        raise Untranslatable("_displacement_mic: start value not recognised")
    # dispatch in the three API functions
    n_transpose = 0
    exact = []
    for name in ("compute_distances_core", "compute_distances_t", "compute_displacements"):
        fn = _py_func(tree, name)
        text = ast.unparse(fn)
        if text.count("box.transpose(0, 2, 1)") != 2:
            raise Untranslatable("%s: transposes not recognised" % name)
        n_transpose += 2
        if "orthogonal = np.allclose(" in text:
            exact.append(False)
        elif "orthogonal = _is_orthorhombic(box)" in text:
            exact.append(True)
        else:
            raise Untranslatable("%s: orthogonality test not recognised" % name)
    out.append("Definition np_api_transposes := %d%%nat." % n_transpose)
    # two-variant: allclose(angles, 90) (as found) or an exact test on the box matrix (repair); informational
    out.append("Definition np_dispatch_exact : list bool := [%s]." % "; ".join("true" if e else "false" for e in exact))
    return out


REFERENCE = os.path.join(COQ, "PBC", "PBCFormulas.reference")


LOOPS_REFERENCE = os.path.join(COQ, "PBC", "PBCLoops.reference")
LOOPS_HEADER = ("(* GENERATED by harness/props/C05_loops.py from %s, %s, %s -- do not edit. *)" % (GEOM, KERN, DIST))


def translate(ctx):
    """Regenerate Gen/PBCFormulas.v (straight-line arithmetic) and Gen/PBCLoops.v (loop skeletons, index arithmetic,
    pointer advances, control flow of the Python glue).  If a block is outside the accepted grammar the hand-kept
    reference copy (= the text generated from the pinned tree) stands in, so that a stale file from another tree
    state can never be what the proofs see; the run is then 'degraded' (correspondence alone ties the model)."""
    err = None
    try:
        _translate(ctx)
    except Exception as e:
        with open(REFERENCE) as fh:
            ctx.write_gen("Gen/PBCFormulas.v", fh.read())
        err = e
    try:
        import props.C05_loops as loops
        text = loops.generate(open(os.path.join(REPO, GEOM)).read(), open(os.path.join(REPO, KERN)).read(),
                              open(os.path.join(REPO, DIST)).read(), LOOPS_HEADER)
        ctx.write_gen("Gen/PBCLoops.v", text)
        ctx.notes["translator_loops"] = "ok"
    except Exception as e:
        with open(LOOPS_REFERENCE) as fh:
            ctx.write_gen("Gen/PBCLoops.v", fh.read())
        ctx.notes["translator_loops"] = "degraded: %s" % e
        err = err or e
    if err is not None:
        raise err


def _translate(ctx):
    geom = _strip_c_comments(open(os.path.join(REPO, GEOM)).read())
    kern = _strip_c_comments(open(os.path.join(REPO, KERN)).read())
    parts = ["(* GENERATED by harness/props/C05.py:translate from %s, %s, %s -- do not edit. *)" % (GEOM, KERN, DIST),
             "From Coq Require Import ZArith List Bool.", "Import ListNotations.", "Require Import MD.PBC.Model.",
             "Open Scope Z_scope.", ""]
    parts += _translate_tric(_c_function(geom, "dist_mic_triclinic"), "tric")
    parts += _translate_tric(_c_function(geom, "dist_mic_triclinic_t"), "tric_t")
    parts += _translate_fcc(_c_function(geom, "find_closest_contact"))
    # distancekernels.h is included twice; the periodic variant is the text between #ifdef ... lines
    def periodic_variant(text):
        res, skip = [], []
        for line in text.splitlines():
            s = line.strip()
            if s.startswith("#ifdef COMPILE_WITH_PERIODIC_BOUNDARY_CONDITIONS"):
                skip.append(False)
            elif s.startswith("#else") and skip:
                skip[-1] = True
            elif s.startswith("#endif") and skip:
                skip.pop()
            elif not any(skip):
                res.append(line)
        return "\n".join(res)
    pk = periodic_variant(kern)
    parts += _translate_ortho(_c_function(pk, "dist_mic"), "ortho")
    parts += _translate_ortho(_c_function(pk, "dist_mic_t"), "ortho_t")
    parts += _translate_py(open(os.path.join(REPO, DIST)).read())
    ctx.write_gen("Gen/PBCFormulas.v", "\n".join(parts) + "\n")
    ctx.notes["translator"] = "ok"


# =============================================================================================
# generator
GRID = 10
U = 1 << GRID          # grid units per nm


def _g(x):
    return int(round(x * U))


def _cell_from_la(a, b, c, al, be, ga):
    """lengths (nm) / angles (deg) -> rows in grid units (own formula, standard orientation)."""
    al, be, ga = (math.radians(v) for v in (al, be, ga))
    bx, by = b * math.cos(ga), b * math.sin(ga)
    cx = c * math.cos(be)
    cy = c * (math.cos(al) - math.cos(be) * math.cos(ga)) / math.sin(ga)
    cz2 = c * c - cx * cx - cy * cy
    if cz2 <= (0.25 * c) ** 2:
        return None
    return [[_g(a), 0, 0], [_g(bx), _g(by), 0], [_g(cx), _g(cy), _g(math.sqrt(cz2))]]


CELL_KINDS = ["cubic", "ortho", "monoclinic", "hex60", "hex120", "truncoct", "rhombdod_sq", "rhombdod_hex", "triclinic"]
# all 8 patterns of (b_x, c_x, c_y) being exactly zero / non-zero (bit 1: b_x != 0, bit 2: c_x != 0, bit 4: c_y != 0)
ZERO_KINDS = ["zeros%d" % k for k in range(8)]


def _angles_ok(cell):
    a, b, c = cell
    def ang(u, v):
        nu, nv = math.sqrt(sum(x * x for x in u)), math.sqrt(sum(x * x for x in v))
        return math.degrees(math.acos(max(-1.0, min(1.0, sum(x * y for x, y in zip(u, v)) / (nu * nv)))))
    return all(45.0 <= ang(u, v) <= 135.0 for u, v in ((b, c), (c, a), (a, b)))


def gen_cell(rng, kind):
    if kind.startswith("zeros"):
        bits = int(kind[5:])
        while True:
            l = [rng.uniform(2.0, 6.0) for _ in range(3)]
            off = lambda scale: rng.choice([-1, 1]) * rng.uniform(0.15, 0.5) * scale
            bx = off(l[0]) if bits & 1 else 0.0
            cx = off(l[0]) if bits & 2 else 0.0
            cy = off(l[1]) if bits & 4 else 0.0
            cell = [[_g(l[0]), 0, 0], [_g(bx), _g(l[1]), 0], [_g(cx), _g(cy), _g(l[2])]]
            if _angles_ok(cell):
                return cell
    L = rng.uniform(2.0, 6.0)
    if kind == "cubic":
        return [[_g(L), 0, 0], [0, _g(L), 0], [0, 0, _g(L)]]
    if kind == "ortho":
        l = [rng.uniform(1.5, 8.0) for _ in range(3)]
        return [[_g(l[0]), 0, 0], [0, _g(l[1]), 0], [0, 0, _g(l[2])]]
    if kind == "monoclinic":
        return _cell_from_la(L, rng.uniform(2, 6), rng.uniform(2, 6), 90, rng.choice([rng.uniform(60, 85), rng.uniform(95, 125)]), 90)
    if kind == "hex60":
        return _cell_from_la(L, L, rng.uniform(2, 7), 90, 90, 60)
    if kind == "hex120":
        return _cell_from_la(L, L, rng.uniform(2, 7), 90, 90, 120)
    if kind == "truncoct":
        t = math.degrees(math.acos(-1.0 / 3.0))
        return _cell_from_la(L, L, L, t, t, t)
    if kind == "rhombdod_sq":
        return [[_g(L), 0, 0], [0, _g(L), 0], [_g(L / 2), _g(L / 2), _g(L * math.sqrt(0.5))]]
    if kind == "rhombdod_hex":
        return _cell_from_la(L, L, L, 60, 60, 60)
    while True:
        l = [rng.uniform(1.5, 8.0) for _ in range(3)]
        if max(l) / min(l) > 6:
            continue
        ang = [rng.uniform(45, 135) for _ in range(3)]
        c = _cell_from_la(l[0], l[1], l[2], *ang)
        if c is None:
            continue
        # keep clear of the np.allclose(angles, 90) dispatch tolerance (see ASSUMPTIONS)
        if any(abs(a - 90) < 0.5 for a in ang):
            continue
        return c


def unreduce(rng, cell, big):
    k = 3 if big else 1
    a, b, c = [list(v) for v in cell]
    m, n, p = (rng.randint(-k, k) for _ in range(3))
    b = [b[i] + m * a[i] for i in range(3)]
    c = [c[i] + n * b[i] + p * a[i] for i in range(3)]
    return [a, b, c]


def gen_positions(rng, cell, n_atoms, spread, special):
    """atoms = fractional point in the primary cell + integer cell offsets up to +-spread, on the grid."""
    pos = []
    for i in range(n_atoms):
        if special and rng.random() < 0.4:
            f = [rng.choice([0.0, 0.5, 0.25, 1.0, 0.75]) for _ in range(3)]      # faces, half cells (rounding ties)
        else:
            f = [rng.random() for _ in range(3)]
        if i > 0 and rng.random() < 0.1:
            f = list(pos[rng.randrange(len(pos))][1])                               # coincident / image of another atom
        n = [rng.randint(-spread, spread) for _ in range(3)] if spread else [0, 0, 0]
        x = [int(round(sum((f[k] + n[k]) * cell[k][j] for k in range(3)))) for j in range(3)]
        pos.append((x, f))
    return [p[0] for p in pos]


def gen_pairs(rng, n_atoms, n_pairs):
    pairs = []
    for _ in range(n_pairs):
        r = rng.random()
        if r < 0.08:
            i = rng.randrange(n_atoms)
            pairs.append([i, i])
        elif r < 0.16 and pairs:
            pairs.append(list(rng.choice(pairs)))
        else:
            pairs.append([rng.randrange(n_atoms), rng.randrange(n_atoms)])
    return pairs


def _near_ortho_but_not(cell):
    """True when some angle is within 0.05 degrees of 90 although the matching off-diagonal entries are not all zero
    (the regime where np.allclose(angles, 90) and the exact test differ; kept out of the generated stream, probed
    separately by the fixed 'near90' case)"""
    a, b, c = cell
    def ang(u, v):
        nu, nv = math.sqrt(sum(x * x for x in u)), math.sqrt(sum(x * x for x in v))
        return math.degrees(math.acos(max(-1.0, min(1.0, sum(x * y for x, y in zip(u, v)) / (nu * nv)))))
    offdiag_zero = (b[0] == 0 and c[0] == 0 and c[1] == 0)
    close = all(abs(ang(u, v) - 90) < 0.05 for u, v in ((b, c), (c, a), (a, b)))
    return close and not offdiag_zero


def gen_case(rng, kind, tier):
    while True:
        c = _gen_case(rng, kind, tier)
        if not any(_near_ortho_but_not(cell) for cell in
                   [[[int(round(v * U)) for v in row] for row in f] for f in (c["box"] + c["raw_box"])]):
            return c


def gen_cell_series(rng):
    """A cell under deformation: from one frame to the next EXACTLY ONE of the six independent components
    (a_x, b_x, b_y, c_x, c_y, c_z) changes, all others stay bit-identical; every component changes once (random
    order), one frame repeats its predecessor, and the three tilt components additionally change on their own while
    the diagonal is frozen (shear at constant a_x, b_y, c_z)."""
    base = gen_cell(rng, rng.choice(["triclinic", "monoclinic", "zeros2", "zeros5", "zeros7", "rhombdod_sq"]))
    comps = [(0, 0), (1, 0), (1, 1), (2, 0), (2, 1), (2, 2)]
    order = comps[:]
    rng.shuffle(order)
    order += [(1, 0), (2, 0), (2, 1)]            # tilt-only tail: diagonal untouched for three consecutive frames
    cells = [[list(v) for v in base]]
    for (i, j) in order:
        c = [list(v) for v in cells[-1]]
        scale = base[j][j]
        d = int(rng.choice([-1, 1]) * rng.uniform(0.04, 0.12) * scale)
        if i == j and c[i][j] + d < U:            # keep the diagonal comfortably positive
            d = abs(d)
        c[i][j] += d if d != 0 else 7
        cells.append(c)
        if rng.random() < 0.25:
            cells.append([list(v) for v in c])   # a repeated cell (constant-volume stretch)
    return cells


def _gen_case(rng, kind, tier):
    frame_kinds = None
    if isinstance(kind, (list, tuple)):
        # the cell KIND changes from frame to frame (e.g. exactly orthorhombic first, sheared later, or the reverse)
        frame_kinds, kind = list(kind), "mixed"
    series = kind == "series"
    n_frames = rng.choice([1, 2, 3])
    n_atoms = rng.randint(2, 7) if not series else rng.randint(2, 4)
    perframe = rng.random() < 0.5 or series
    unred = rng.random() < 0.4 and not series
    spread = rng.choice([0, 1, 3, 20])
    special = rng.random() < 0.3
    cells = []
    if series:
        cells = gen_cell_series(rng)
        n_frames = len(cells)
    elif frame_kinds:
        cells = [gen_cell(rng, k) for k in frame_kinds]
        n_frames, perframe, spread = len(cells), True, rng.choice([1, 3, 20])
    else:
        base = gen_cell(rng, kind)
    for f in range(n_frames if not (series or frame_kinds) else 0):
        if perframe and f > 0:
            k2 = kind if rng.random() < 0.6 else rng.choice(CELL_KINDS + ZERO_KINDS)
            c = gen_cell(rng, k2)
        else:
            c = [list(v) for v in base]
        cells.append(c)
    raw_cells = [unreduce(rng, c, big=True) for c in cells] if unred else cells
    traj_cells = [unreduce(rng, c, big=False) for c in cells] if unred else cells
    xyz = [gen_positions(rng, cells[f], n_atoms, spread, special) for f in range(n_frames)]
    # degenerate separations in EVERY case: the last atom is an exact periodic image of atom 0 (cell of its frame),
    # the one before it coincides with atom 1; pairs (i,i), (0,last), (1,last-1) are always asked for
    n_atoms += 2
    for f in range(n_frames):
        n = [rng.randint(-max(1, spread), max(1, spread)) for _ in range(3)]
        if n == [0, 0, 0]:
            n = [1, 0, -1]
        xyz[f].append(list(xyz[f][1]))
        xyz[f].append([xyz[f][0][j] + sum(n[k] * cells[f][k][j] for k in range(3)) for j in range(3)])
    i0 = rng.randrange(n_atoms)
    pairs = gen_pairs(rng, n_atoms, rng.randint(1, 5)) + [[i0, i0], [0, n_atoms - 1], [1, n_atoms - 2]]
    # every ordered pair of frames (incl. t1 == t2) once, plus a repeated one
    if series:
        # consecutive frames in both directions, same first frame repeated, first frames in file order
        times = [[t, t + 1] for t in range(n_frames - 1)] + [[t + 1, t] for t in range(n_frames - 1)] + \
                [[t, t] for t in range(n_frames)]
    else:
        times = [[t1, t2] for t1 in range(n_frames) for t2 in range(n_frames)]
        rng.shuffle(times)
    times.append(list(times[0]))
    # the two groups may overlap (closest contact of an atom with itself / a coincident atom / its own image)
    g1 = sorted(rng.sample(range(n_atoms), rng.randint(1, max(1, n_atoms // 2))))
    g2 = sorted(rng.sample(range(n_atoms), rng.randint(1, max(1, n_atoms // 2))))
    if rng.random() < 0.3:
        g2 = sorted(set(g2) | {n_atoms - 1})
        g1 = sorted(set(g1) | {0})
    calls = []
    for opt in (True, False):
        calls.append({"api": "disp", "opt": opt, "periodic": True, "pairs": pairs})
        calls.append({"api": "dist", "opt": opt, "periodic": True, "pairs": pairs})
        calls.append({"api": "dist_t", "opt": opt, "periodic": True, "pairs": pairs, "times": times})
        calls.append({"api": "core_raw", "opt": opt, "periodic": True, "pairs": pairs})
    o = rng.random() < 0.5
    calls.append({"api": "disp", "opt": o, "periodic": False, "pairs": pairs})
    calls.append({"api": "dist", "opt": not o, "periodic": False, "pairs": pairs})
    calls.append({"api": "dist_t", "opt": o, "periodic": False, "pairs": pairs, "times": times})
    calls.append({"api": "core", "opt": o, "periodic": True, "pairs": pairs})
    for fr in (range(n_frames) if not series else rng.sample(range(n_frames), 3)):
        calls.append({"api": "fcc", "periodic": True, "g1": g1, "g2": g2, "frame": fr})
    calls.append({"api": "fcc", "periodic": False, "g1": g1, "g2": g2, "frame": rng.randrange(n_frames)})
    return {"kind": kind, "unreduced": unred, "perframe": perframe, "spread": spread, "special": special,
            "grid": GRID, "xyz": xyz, "box": [[[v / U for v in row] for row in c] for c in traj_cells],
            "raw_box": [[[v / U for v in row] for row in c] for c in raw_cells], "calls": calls}


def fixed_cases():
    """Probes that always run: no cell at all, empty pair list, a rounding tie, mixed orthorhombic/triclinic frames."""
    cs = []
    xyz = [[[0, 0, 0], [3 * U, 1 * U, 7 * U // 2], [-40 * U, 11 * U, 5 * U]]]
    pairs = [[0, 1], [1, 2], [2, 2]]
    calls = []
    for opt in (True, False):
        calls += [{"api": "disp", "opt": opt, "periodic": True, "pairs": pairs},
                  {"api": "dist", "opt": opt, "periodic": True, "pairs": pairs},
                  {"api": "dist_t", "opt": opt, "periodic": True, "pairs": pairs, "times": [[0, 0]]},
                  {"api": "disp", "opt": opt, "periodic": True, "pairs": []},
                  {"api": "dist", "opt": opt, "periodic": True, "pairs": []}]
    calls.append({"api": "fcc", "periodic": True, "g1": [0], "g2": [1, 2], "frame": 0})
    cs.append({"kind": "nocell", "unreduced": False, "perframe": False, "spread": 0, "special": False, "grid": GRID,
               "xyz": xyz, "box": None, "raw_box": None, "calls": calls})
    cub = [[2.0, 0, 0], [0, 2.0, 0], [0, 0, 2.0]]
    tri = [[2.0, 0, 0], [1.0, 2.0, 0], [0.5, -0.75, 2.5]]
    cs.append({"kind": "tie", "unreduced": False, "perframe": True, "spread": 3, "special": True, "grid": GRID,
               "xyz": [xyz[0], xyz[0]], "box": [cub, tri], "raw_box": [cub, tri],
               "calls": [dict(c) for c in calls if c["api"] != "dist_t"] +
                        [{"api": "dist_t", "opt": True, "periodic": True, "pairs": pairs, "times": [[0, 1], [1, 0]]},
                         {"api": "dist_t", "opt": False, "periodic": True, "pairs": pairs, "times": [[0, 1], [1, 0]]},
                         {"api": "core_raw", "opt": True, "periodic": True, "pairs": pairs},
                         {"api": "core_raw", "opt": False, "periodic": True, "pairs": pairs}]})
    # compute_distances_t with an empty pair list and #time pairs != #frames (shape of the empty result)
    cs.append({"kind": "nocell", "unreduced": False, "perframe": False, "spread": 0, "special": False, "grid": GRID,
               "xyz": xyz, "box": None, "raw_box": None,
               "calls": [{"api": "dist_t", "opt": True, "periodic": True, "pairs": [], "times": [[0, 0], [0, 0]]}]})
    # a cell 8e-4 degrees away from orthorhombic: np.allclose(angles, 90) sends it to the orthorhombic kernel
    near = [[5.0, 0, 0], [7.0e-5, 5.0, 0], [0, 0, 4.0]]
    xyzn = [[[0, 0, 0], [U, 12 * 5 * U + U // 2, U], [3 * U, -19 * 5 * U + U, 2 * U], [U // 2, 18 * 5 * U, 0]]]
    pn = [[0, 1], [0, 2], [1, 2], [0, 3]]
    cs.append({"kind": "near90", "unreduced": False, "perframe": False, "spread": 19, "special": False, "grid": GRID,
               "xyz": xyzn, "box": [near], "raw_box": None, "force_ortho": True,
               "calls": [{"api": "dist", "opt": True, "periodic": True, "pairs": pn},
                         {"api": "dist", "opt": False, "periodic": True, "pairs": pn},
                         {"api": "disp", "opt": True, "periodic": True, "pairs": pn, "oracle_only": True},
                         {"api": "disp", "opt": False, "periodic": True, "pairs": pn, "oracle_only": True}]})
    # (3) compute_distances_core is the only entry point that can be handed a cell in NON-standard orientation
    # (a not along x / b not in the xy plane).  Cells rotated by the exact (3,4,5) angle about z or x, on the grid.
    for tag, rot in (("z", lambda v: [(3 * v[0] - 4 * v[1]) // 5, (4 * v[0] + 3 * v[1]) // 5, v[2]]),
                     ("x", lambda v: [v[0], (3 * v[1] - 4 * v[2]) // 5, (4 * v[1] + 3 * v[2]) // 5])):
        for base in ([[3000, 0, 0], [0, 3000, 0], [0, 0, 3000]], [[3000, 0, 0], [1000, 3500, 0], [500, -750, 2500]]):
            cell = [rot(v) for v in base]
            pts = [[0, 0, 0], [5892, -5525, 2644], [-2755, 1190, 640], [12000, 9005, -7000], [700, 300, -200]]
            prs = [[0, 1], [0, 2], [1, 2], [3, 4], [0, 4], [2, 2]]
            cs.append({"kind": "rotated", "unreduced": False, "perframe": False, "spread": 3, "special": False, "grid": GRID,
                       "xyz": [pts], "box": None, "raw_box": [[[x / U for x in v] for v in cell]],
                       "calls": [{"api": "core_raw", "opt": True, "periodic": True, "pairs": prs},
                                 {"api": "core_raw", "opt": False, "periodic": True, "pairs": prs}]})
    return cs


def build_cases(ctx):
    rng = ctx.rng
    n = 5 if ctx.tier == "quick" else 110
    cases = fixed_cases()
    for kind in CELL_KINDS:
        for _ in range(n if kind != "triclinic" else 3 * n):
            cases.append(gen_case(rng, kind, ctx.tier))
    for kind in ZERO_KINDS:
        for _ in range(max(2, n // 4)):
            cases.append(gen_case(rng, kind, ctx.tier))
    # cells under deformation: one component changes per frame (see gen_cell_series)
    for _ in range(3 if ctx.tier == "quick" else 40):
        cases.append(gen_case(rng, "series", ctx.tier))
    # the cell KIND changes between frames: exactly orthorhombic first and sheared later, the reverse, and a
    # rectangular frame in the middle (whatever is decided from one frame only, or once per call, shows here)
    for rep in range(1 if ctx.tier == "quick" else 12):
        for kinds in (["ortho", "triclinic"], ["cubic", "zeros%d" % rng.randint(1, 7), "ortho"],
                      ["triclinic", "ortho"], ["monoclinic", "cubic", "triclinic"]):
            cases.append(gen_case(rng, kinds, ctx.tier))
    return cases


def gen_chain(rng, chain_id, tier):
    """A CALL HISTORY: steps of one process that share one Trajectory object and one cell array object; between
    the steps the cell array is refilled in place (same identity, same shape) and the Trajectory's
    unitcell_vectors are re-assigned; the cell kind changes from step to step (sheared <-> rectangular).  Every
    step's answer must be right for the cell of THAT step."""
    first_ortho = rng.random() < 0.5
    seqs = [["ortho", "triclinic", "cubic", "zeros%d" % rng.randint(1, 7)],
            ["triclinic", "ortho", "monoclinic", "triclinic"]]
    kinds = seqs[0] if first_ortho else seqs[1]
    steps = []
    base = None
    while base is None or base["box"] is None or len(base["xyz"]) > 2:
        base = gen_case(rng, kinds[0], tier)
    base["calls"] = [cl for cl in base["calls"] if cl["api"] != "fcc"]
    n_frames = len(base["xyz"])
    for k, kind in enumerate(kinds):
        if k == 0:
            st = base
        else:
            st = json.loads(json.dumps(base))
            cells = [gen_cell(rng, kind) for _ in range(n_frames)]
            if rng.random() < 0.5:
                cells = [cells[0]] * n_frames
            st["box"] = [[[v / U for v in row] for row in c] for c in cells]
            st["raw_box"] = [[[v / U for v in row] for row in unreduce(rng, c, big=False)] for c in cells] \
                if rng.random() < 0.4 else st["box"]
        st["kind"] = "history"
        st["chain"] = chain_id
        st["chain_step"] = k
        st["chain_prefix"] = [{kk: p[kk] for kk in ("kind", "unreduced", "perframe", "spread", "special", "grid", "xyz",
                                                      "box", "raw_box", "calls", "chain", "chain_step")} for p in steps]
        steps.append(st)
    return steps


# =============================================================================================
# exact arithmetic helpers
def frac(x):
    return Fraction(float(x))


def common_unit(values):
    """smallest K = 2^k such that every value * K is an integer"""
    K = 1
    for v in values:
        d = Fraction(float(v)).denominator
        if d > K:
            K = d
    return K


def zv(v):
    return "(%s)" % ", ".join(("(%d)" % x) if x < 0 else str(x) for x in v)


def zbox(b):
    return "(mkbox %s %s %s)" % (zv(b[0]), zv(b[1]), zv(b[2]))


def clist(xs):
    return "[" + "; ".join(xs) + "]"


def cb(b):
    return "true" if b else "false"


def is_lower_tri(b):
    return b[0][1] == 0 and b[0][2] == 0 and b[1][2] == 0


def solve_shift(delta, B):
    """delta = n . B (rows a,b,c; B lower triangular) -> Fractions n"""
    a, b, c = B
    nc = Fraction(delta[2], c[2])
    nb = (delta[1] - nc * c[1]) / b[1]
    na = (delta[0] - nb * b[0] - nc * c[0]) / a[0]
    return [na, nb, nc]


def norm2i(v):
    return v[0] * v[0] + v[1] * v[1] + v[2] * v[2]


def crossi(u, v):
    return [u[1] * v[2] - u[2] * v[1], u[2] * v[0] - u[0] * v[2], u[0] * v[1] - u[1] * v[0]]


def lattice_reduce(B):
    """greedy pair reduction (any basis of the same lattice serves the oracle)"""
    B = [list(v) for v in B]
    for _ in range(60):
        changed = False
        B.sort(key=norm2i)
        for i in range(3):
            for j in range(3):
                if i == j:
                    continue
                d = norm2i(B[j])
                if d == 0:
                    continue
                num = sum(B[i][k] * B[j][k] for k in range(3))
                q = (2 * num + d) // (2 * d)
                if q != 0:
                    cand = [B[i][k] - q * B[j][k] for k in range(3)]
                    if norm2i(cand) < norm2i(B[i]):
                        B[i] = cand
                        changed = True
        if not changed:
            break
    return B


class Oracle:
    """Exact minimum over all images r + lattice(B), integers in the case's unit."""

    def __init__(self, B):
        self.B = B
        self.R = lattice_reduce(B)
        R = self.R
        self.vol = abs(sum(R[0][k] * crossi(R[1], R[2])[k] for k in range(3)))
        self.cr = [crossi(R[1], R[2]), crossi(R[2], R[0]), crossi(R[0], R[1])]
        # squared half-width test uses the cell AS GIVEN
        cg = [crossi(B[1], B[2]), crossi(B[2], B[0]), crossi(B[0], B[1])]
        volg = abs(sum(B[0][k] * cg[0][k] for k in range(3)))
        self.given_cross2 = [norm2i(c) for c in cg]
        self.given_vol2 = volg * volg

    def below_half_width(self, n2, margin_num=1, margin_den=1):
        """4 * n2 * |cross|^2 < vol^2 for all three widths (optionally with n2 scaled up by a safety margin)"""
        return all(4 * n2 * margin_num * c2 < self.given_vol2 * margin_den for c2 in self.given_cross2)

    def images(self, r):
        """all images with norm <= the Babai candidate's norm (guaranteed complete), as (norm2, vec)"""
        R = self.R
        # fractional coordinates f_i = r . cr_i / vol' (sign-aware)
        det = sum(R[0][k] * self.cr[0][k] for k in range(3))
        f = [Fraction(sum(r[k] * self.cr[i][k] for k in range(3)), det) for i in range(3)]
        n0 = [int(math.floor(x + Fraction(1, 2))) for x in f]
        v0 = [r[k] - sum(n0[i] * R[i][k] for i in range(3)) for k in range(3)]
        D2 = norm2i(v0)
        # |f_i - n_i| <= D / w_i = D |cr_i| / vol
        rng = []
        for i in range(3):
            bound = math.sqrt(float(D2) * float(norm2i(self.cr[i]))) / float(self.vol) + 1e-6
            lo = int(math.floor(float(f[i]) - bound - 1e-9))
            hi = int(math.ceil(float(f[i]) + bound + 1e-9))
            rng.append(range(lo, hi + 1))
        out = []
        for i in rng[0]:
            for j in rng[1]:
                for k in rng[2]:
                    v = [r[m] - i * R[0][m] - j * R[1][m] - k * R[2][m] for m in range(3)]
                    out.append((norm2i(v), v))
        return out

    def min2(self, r):
        return min(x[0] for x in self.images(r))


# =============================================================================================
# running cases
def tol_abs(M, d):
    """float32 error bound of a reported length d (nm) computed from operands of magnitude <= M (nm)"""
    return M * 2.0 ** -20 + d * 2.0 ** -21


def run_coq(ctx, defs_by_case, exprs, requires="MD.PBC.Model MD.PBC.Check", shard=60):
    """Evaluate the verdict expressions by vm_compute; returns list (per expr) of flat lists of ints."""
    jobs = []
    for s0 in range(0, len(exprs), shard):
        lines = ["From Coq Require Import ZArith List Bool.", "Import ListNotations.",
                 "Require Import %s." % requires, "Open Scope Z_scope."]
        used = sorted({e[0] for e in exprs[s0:s0 + shard]})
        for ci in used:
            lines += defs_by_case[ci]
        for k, (_ci, text) in enumerate(exprs[s0:s0 + shard]):
            lines.append("Definition v%d : list Z := %s." % (k, text))
        lines.append("Eval vm_compute in %s." % clist(["v%d" % k for k in range(len(exprs[s0:s0 + shard]))]))
        p = os.path.join(ctx.tmp, "pbc_%d_%d.v" % (len(os.listdir(ctx.tmp)), s0))
        with open(p, "w") as fh:
            fh.write("\n".join(lines) + "\n")
        jobs.append((s0, p))
    results = [None] * len(exprs)
    running = []

    def reap(pr, s0):
        out = pr.communicate()[0]
        if pr.returncode != 0:
            raise RuntimeError("coqc failed on correspondence shard: " + out[-2000:])
        m = re.search(r"=\s*(\[.*\])\s*:\s*list \(list Z\)", out, re.S)
        if not m:
            raise RuntimeError("unparsed coqc output: " + out[-1000:])
        val = json.loads(m.group(1).replace(";", ","))
        for k, v in enumerate(val):
            results[s0 + k] = v
    todo = list(jobs)
    while todo or running:
        while todo and len(running) < 4:
            s0, p = todo.pop(0)
            pr = subprocess.Popen(["timeout", "900", "coqc", "-Q", COQ, "MD", p], cwd=ctx.tmp,
                                  stdout=subprocess.PIPE, stderr=subprocess.STDOUT, text=True)
            running.append((pr, s0))
        pr, s0 = running.pop(0)
        reap(pr, s0)
    return results


def unitcell_roundtrip_check(ctx, c, seen, stats):
    """mdtraj/utils/unitcell.py as the distance code uses it: Trajectory.unitcell_vectors (vectors -> lengths/angles ->
    vectors) must hand the kernels a cell in STANDARD ORIENTATION (a along x, b in the xy plane, positive diagonal:
    the hypothesis lower_tri_pos of the theorems) that is congruent to the one assigned (same Gram matrix, float32)."""
    for f, (given, got) in enumerate(zip(c["box"], seen)):
        g = [[got[3 * i + j] for j in range(3)] for i in range(3)]
        stats["unitcell_roundtrips"] = stats.get("unitcell_roundtrips", 0) + 1
        std = g[0][1] == 0 and g[0][2] == 0 and g[1][2] == 0 and g[0][0] > 0 and g[1][1] > 0 and g[2][2] > 0
        scale = max(abs(x) for row in given for x in row) ** 2
        gram_ok = all(abs(sum(g[i][k] * g[j][k] for k in range(3)) - sum(given[i][k] * given[j][k] for k in range(3)))
                      <= 2e-5 * scale for i in range(3) for j in range(3))
        # orthorhombic input must come back EXACTLY orthorhombic (the dispatch tests for exact zeros)
        ortho_in = all(given[i][j] == 0 for i in range(3) for j in range(3) if i != j)
        ortho_out = all(g[i][j] == 0 for i in range(3) for j in range(3) if i != j)
        if not std or not gram_ok or (ortho_in and not ortho_out):
            d = {k: c[k] for k in ("kind", "unreduced", "perframe", "spread", "special", "grid", "xyz", "box", "raw_box")}
            d["calls"] = []
            ctx.fail("Trajectory.unitcell_vectors does not return the assigned cell in standard orientation "
                     "(lower triangular, positive diagonal, same lengths and angles)", d, observed=g, expected=given,
                     tags={"api": "unitcell_vectors", "kind": "unitcell_roundtrip", "frame": f, "standard": std, "gram": gram_ok})
            return


def case_id(c):
    return {k: c[k] for k in ("kind", "unreduced", "perframe", "spread", "special")}


def run_cases(ctx, cases, oracle_only=False):
    res = ctx.run_impl("pbc_impl.py", {"cases": [{"xyz": c["xyz"], "grid": c["grid"], "box": c["box"], "chain": c.get("chain"),
                                                  "calls": [dict(cl, **({"box": None})) for cl in c["calls"]]}
                                                 for c in cases]})["cases"]
    # core_raw needs the raw cell: run those as separate mini-cases (cell handed over directly)
    raw_idx = [i for i, c in enumerate(cases) if c.get("raw_box") is not None and any(cl["api"] == "core_raw" for cl in c["calls"])]
    raw_res = {}
    if raw_idx:
        rr = ctx.run_impl("pbc_impl.py", {"cases": [{"xyz": cases[i]["xyz"], "grid": cases[i]["grid"], "box": cases[i]["raw_box"],
                                                     "chain": cases[i].get("chain"),
                                                     "calls": [cl for cl in cases[i]["calls"] if cl["api"] == "core_raw"]}
                                                    for i in raw_idx]})["cases"]
        for i, r in zip(raw_idx, rr):
            raw_res[i] = r["results"]
    defs_by_case = {}
    exprs = []          # (case index, coq text)
    meta = []           # per expr: dict(case, call, kind, ...)
    stats = ctx.notes.setdefault("coverage_extra", {}).setdefault("c05", {"excluded_tie": 0, "near_tie_accepted": 0,
                                                                         "exact_match": 0, "oracle_checks": 0})
    for ci, (c, r) in enumerate(zip(cases, res)):
        grid_vals = [Fraction(1, 1 << c["grid"])]
        seen = r["box_seen"]
        raw = c.get("raw_box")
        if seen is not None and c["box"] is not None:
            unitcell_roundtrip_check(ctx, c, seen, stats)
        vals = list(grid_vals)
        if seen is not None:
            vals += [x for f in seen for x in f]
        if raw is not None:
            vals += [x for f in raw for row in f for x in row]
        K = common_unit(vals)
        sx = K >> c["grid"]
        xyzK = [[[x * sx for x in a] for a in f] for f in c["xyz"]]
        seenK = None if seen is None else [[[int(Fraction(float(f[3 * i + j])) * K) for j in range(3)] for i in range(3)] for f in seen]
        rawK = None if raw is None else [[[int(Fraction(float(x)) * K) for x in row] for row in f] for f in raw]
        maxpos = max(abs(x) for f in c["xyz"] for a in f for x in a) / float(1 << c["grid"])
        lines = ["Definition xyz_%d : list frame := %s." % (ci, clist([clist([zv(a) for a in f]) for f in xyzK]))]
        lines.append("Definition seen_%d : option (list box) := %s." % (
            ci, "None" if seenK is None else "Some " + clist([zbox(b) for b in seenK])))
        lines.append("Definition raw_%d : option (list box) := %s." % (
            ci, "None" if rawK is None else "Some " + clist([zbox(b) for b in rawK])))
        defs_by_case[ci] = lines
        raw_iter = iter(raw_res.get(ci, []))
        for li, call in enumerate(c["calls"]):
            api = call["api"]
            out = next(raw_iter) if api == "core_raw" else r["results"][li]
            boxK = rawK if api == "core_raw" else seenK
            boxname = ("raw_%d" if api == "core_raw" else "seen_%d") % ci
            periodic = call.get("periodic", True)
            opt = call.get("opt", True)
            maxbox = 0.0 if boxK is None else max(abs(x) for b in boxK for row in b for x in row) / float(K)
            M = 2.0 * (maxpos + maxbox)
            # everything on the 2^-grid lattice and small enough for 24-bit mantissas: float32 arithmetic up to the
            # dot product is exact, so only exact ties are excluded and the distance bound is relative
            exact_class = (K == (1 << c["grid"])) and (M * (1 << c["grid"]) < 2 ** 22)
            info = {"ci": ci, "li": li, "api": api, "opt": opt, "periodic": periodic, "K": K, "M": M,
                    "boxK": boxK if periodic else None, "xyzK": xyzK, "out": out, "exact": exact_class}
            if "err" in out and c["kind"] == "rotated" and out["err"] == "ValueError":
                # repaired variant: a cell in non-standard orientation is refused instead of being mis-handled
                ctx.count({"c": case_id(c), "api": api, "refused": True, "li": li}, nontrivial=True, bucket="rotated/refused")
                continue
            if "err" in out:
                ctx.fail("%s raised %s on valid input" % (api, out["err"]), replay_case(c, li), observed=out,
                         expected="a result", tags={"api": api, "kind": "raises"})
                continue
            # a non-finite number is a property failure of its own (never fed into exact arithmetic)
            nonfinite = [k for k, x in enumerate(out["data"]) if not (isinstance(x, (int, float)) and math.isfinite(x))]
            if nonfinite:
                k = nonfinite[0]
                width = 3 if api == "disp" else 1
                prs = call.get("pairs", [])
                where = None
                if api != "fcc" and prs:
                    e = k // width
                    where = {"row": e // len(prs), "pair": prs[e % len(prs)]}
                ctx.fail("reported distance/displacement is not a finite number", replay_case(c, li),
                         observed={"value": repr(out["data"][k]), "entry": where, "n_nonfinite": len(nonfinite)},
                         expected="a finite minimum-image value",
                         tags={"api": api, "opt": opt, "periodic": periodic, "cell": c["kind"], "kind": "non_finite"})
                ctx.count({"c": case_id(c), "api": api, "nonfinite": True, "x": c["xyz"][0][0]}, nontrivial=True,
                          bucket="%s/non_finite" % api)
                continue
            pairs = call.get("pairs", [])
            if api != "fcc":
                # shape checks (exact)
                nfr = len(call["times"]) if api == "dist_t" else len(c["xyz"])
                want = [nfr, len(pairs)] + ([3] if api == "disp" else [])
                if out["shape"] != want:
                    ctx.fail("%s: result has shape %s, expected %s" % (api, out["shape"], want), replay_case(c, li),
                             observed=out["shape"], expected=want,
                             tags={"api": api, "kind": "shape", "empty_pairs": len(pairs) == 0, "n_times_eq_n_frames": nfr == len(c["xyz"])})
                    continue
                if not pairs:
                    ctx.count({"c": case_id(c), "api": api, "empty": True}, nontrivial=False, bucket="%s/empty" % api)
                    continue
            Gf = 0.0 if exact_class else 4.0 * M * 2.0 ** -20
            G = int(math.ceil(Gf * K))
            info["G"] = G
            pairs_t = clist(["(%d%%nat, %d%%nat)" % (p[0], p[1]) for p in pairs])
            data = out["data"]
            if api == "disp":
                nfr, npr = out["shape"][0], out["shape"][1]
                shifts, obs_rows = [], []
                bad = False
                for f in range(nfr):
                    row = []
                    for j, (p1, p2) in enumerate(pairs):
                        d = [Fraction(data[(f * npr + j) * 3 + k]) * K for k in range(3)]
                        rK = [xyzK[f][p2][k] - xyzK[f][p1][k] for k in range(3)]
                        if periodic and boxK is not None:
                            nfl = solve_shift([d[k] - rK[k] for k in range(3)], boxK[f])
                        else:
                            nfl = [Fraction(0)] * 3
                        n = [int(math.floor(x + Fraction(1, 2))) for x in nfl]
                        row.append(n)
                    shifts.append(row)
                info["shifts"] = shifts
                obs = clist([clist([zv(n) for n in row]) for row in shifts])
                if call.get("oracle_only"):
                    oracle_check(ctx, c, info, stats)
                    continue
                exprs.append((ci, "concat (check_disp %s %s %d xyz_%d %s %s %s)" % (
                    cb(opt), cb(periodic), G, ci, boxname if seenK is not None or api == "core_raw" else "None", pairs_t, obs)))
                meta.append(info)
            elif api in ("dist", "core", "core_raw", "dist_t"):
                nfr, npr = out["shape"]
                rows = []
                for f in range(nfr):
                    row = []
                    for j in range(npr):
                        d = data[f * npr + j]
                        t = tol_abs(0.0 if exact_class else M, d)
                        lo = max(Fraction(0), Fraction(d) - Fraction(t))
                        hi = Fraction(d) + Fraction(t)
                        row.append((int(math.floor(lo * lo * K * K)), int(math.ceil(hi * hi * K * K))))
                    rows.append(row)
                obs = clist([clist(["(%d, %d)" % lh for lh in row]) for row in rows])
                if api == "dist_t":
                    times_t = clist(["(%d%%nat, %d%%nat)" % (a, b) for a, b in call["times"]])
                    exprs.append((ci, "concat (check_dist_t %s %s %d xyz_%d %s %s %s %s)" % (
                        cb(opt), cb(periodic), G, ci, boxname, pairs_t, times_t, obs)))
                elif c.get("force_ortho"):
                    # two-variant rule: as-found dispatch (allclose) and exact dispatch, evaluated side by side
                    exprs.append((ci, "concat (check_dist_p (dispatch_cur_near_ortho %s) %d xyz_%d %s %s %s) ++ [9] ++ "
                                      "concat (check_dist %s %s %d xyz_%d %s %s %s)" % (
                        cb(opt), G, ci, boxname, pairs_t, obs, cb(opt), cb(periodic), G, ci, boxname, pairs_t, obs)))
                    info["two_variant"] = True
                else:
                    exprs.append((ci, "concat (check_dist %s %s %d xyz_%d %s %s %s)" % (
                        cb(opt), cb(periodic), G, ci, boxname, pairs_t, obs)))
                meta.append(info)
            elif api == "fcc":
                a1, a2, d = int(data[0]), int(data[1]), data[2]
                t = tol_abs(M, d)
                lo = max(Fraction(0), Fraction(d) - Fraction(t))
                hi = Fraction(d) + Fraction(t)
                fr = call["frame"]
                bt = "None"
                if periodic and seenK is not None:
                    bt = "(Some %s)" % zbox(seenK[fr])
                exprs.append((ci, "[check_fcc %d %s (nth %d xyz_%d []) %s %s %d%%nat %d%%nat (%d, %d)]" % (
                    G, bt, fr, ci, clist(["%d%%nat" % i for i in call["g1"]]), clist(["%d%%nat" % i for i in call["g2"]]),
                    a1, a2, int(math.floor(lo * lo * K * K)), int(math.ceil(hi * hi * K * K)))))
                meta.append(info)
    # ---- the property oracle on the implementation's output (always)
    for info in meta:
        oracle_check(ctx, cases[info["ci"]], info, stats)
    # ---- cross-path oracle: optimised vs reference path over the whole separation range
    try:
        cross_path_check(ctx, cases, meta, defs_by_case, stats)
    except RuntimeError as e:
        ctx.break_("correspondence:coqc-evaluation", str(e))
    if oracle_only:
        return
    # ---- model vs implementation inside coqc
    try:
        verdicts = run_coq(ctx, defs_by_case, exprs)
    except RuntimeError as e:
        ctx.break_("correspondence:coqc-evaluation", str(e))
        return
    for info, v in zip(meta, verdicts):
        c = cases[info["ci"]]
        call = c["calls"][info["li"]]
        if info.get("two_variant"):
            cur, fix = v[:v.index(9)], v[v.index(9) + 1:]
            if all(x in (0, 1) for x in fix):
                v = fix                                   # the defect is gone
            elif all(x in (0, 1) for x in cur):
                v = cur
                for f in ctx.failures:                    # the as-found variant explains this case's failures
                    if f["case"].get("kind") == "near90":
                        f["tags"]["explained_by"] = "dispatch_allclose_cur"
            else:
                v = fix
        pathname = "plain" if not (info["periodic"] and info["boxK"] is not None) else "pbc"
        bucket = "%s/%s/opt=%s/%s" % (c["kind"], info["api"], info["opt"] if info["api"] != "fcc" else "-", pathname)
        for k, code in enumerate(v):
            nontriv = pathname == "pbc" and (c["spread"] > 0)
            ctx.count({"c": info["ci"], "l": info["li"], "k": k, "seed": ctx.seed, "x": c["xyz"][0][0]}, nontrivial=nontriv, bucket=bucket)
            if code == 0:
                stats["exact_match"] += 1
            elif code == 1:
                stats["excluded_tie"] += 1
            elif code == 2:
                stats["near_tie_accepted"] += 1
            else:
                name = "correspondence:pbc-model[%s,opt=%s]" % (info["api"], info["opt"])
                if any(b["name"] == name for b in ctx.broken):
                    break
                ctx.break_(name,
                           "model verdict %d at entry %d of call %s; case kind=%s implementation output %s" % (
                               code, k, json.dumps(call), c["kind"], info["out"]["data"][:12]))
                ctx.notes.setdefault("tie_examples", []).append(replay_case(c, info["li"]))
                break


def cross_path_check(ctx, cases, meta, defs_by_case, stats):
    """'The optimised and reference code paths agree': for every call made with opt=True and opt=False on the same
    input, distances (within the float bound) and displacement lattice shifts (exactly) must coincide on EVERY
    separation, also beyond the half-width range, except where coq/PBC/Check.v:cross_tie reports a rounding tie of
    the reduction / wrap (within the guard) or an arg-min near-tie, where the two paths may legitimately differ."""
    groups = {}
    for info in meta:
        if info["api"] not in ("disp", "dist", "dist_t", "core_raw", "core") or cases[info["ci"]].get("force_ortho"):
            continue
        call = cases[info["ci"]]["calls"][info["li"]]
        key = (info["ci"], info["api"], info["periodic"], json.dumps(call.get("pairs")), json.dumps(call.get("times")))
        groups.setdefault(key, {})[bool(info["opt"])] = info
    # pass 1 (python only): entries where the two paths disagree; pass 2 (coqc): are those entries ties?
    suspects = []
    for key, g in groups.items():
        if True not in g or False not in g:
            continue
        a, b = g[True], g[False]
        c = cases[a["ci"]]
        da, db = a["out"]["data"], b["out"]["data"]
        width = 3 if a["api"] == "disp" else 1
        n_entries = len(da) // width
        if len(db) != len(da):
            continue
        ortho_all = a["boxK"] is not None and all(
            is_lower_tri(bx) and bx[1][0] == 0 and bx[2][0] == 0 and bx[2][1] == 0 for bx in a["boxK"])
        bads = []
        for k in range(n_entries):
            stats["cross_path_checks"] = stats.get("cross_path_checks", 0) + 1
            if a["api"] == "disp":
                va, vb = da[3 * k:3 * k + 3], db[3 * k:3 * k + 3]
                na = math.sqrt(sum(x * x for x in va))
                nb = math.sqrt(sum(x * x for x in vb))
            else:
                na, nb = da[k], db[k]
            tol = tol_abs(0.0 if a["exact"] else a["M"], na) + tol_abs(0.0 if b["exact"] else b["M"], nb)
            if abs(na - nb) > tol:
                bads.append((k, "distance", na, nb, ortho_all))      # orthorhombic: no tie excuses a distance
            elif a["api"] == "disp":
                f, j = divmod(k, len(a["shifts"][0]))
                if a["shifts"][f][j] != b["shifts"][f][j]:
                    bads.append((k, "lattice shift", a["shifts"][f][j], b["shifts"][f][j], False))
        if bads:
            suspects.append((a, b, bads))
    exprs = []
    for a, b, bads in suspects:
        ci = a["ci"]
        call = cases[ci]["calls"][a["li"]]
        pairs = call.get("pairs", [])
        if a["boxK"] is None:
            a["_flags"] = None
            continue
        G = max(a["G"], b["G"])
        boxname = ("raw_%d" if a["api"] == "core_raw" else "seen_%d") % ci
        pairs_t = clist(["(%d%%nat, %d%%nat)" % (p[0], p[1]) for p in pairs])
        if a["api"] == "dist_t":
            times_t = clist(["(%d%%nat, %d%%nat)" % (x, y) for x, y in call["times"]])
            exprs.append((ci, "concat (check_ties_t %d xyz_%d %s %s %s)" % (G, ci, boxname, pairs_t, times_t)))
        else:
            exprs.append((ci, "concat (check_ties %d xyz_%d %s %s)" % (G, ci, boxname, pairs_t)))
        a["_flags"] = len(exprs) - 1
    res = run_coq(ctx, defs_by_case, exprs) if exprs else []
    for a, b, bads in suspects:
        c = cases[a["ci"]]
        flags = res[a["_flags"]] if a.get("_flags") is not None else None
        for k, what, x, y, no_excuse in bads:
            tie = flags is not None and k < len(flags) and flags[k] != 0
            if tie and not no_excuse:
                stats["cross_path_ties_excluded"] = stats.get("cross_path_ties_excluded", 0) + 1
                continue
            ctx.fail("optimised (opt=True) and reference (opt=False) code paths disagree outside rounding ties",
                     replay_case(c, [a["li"], b["li"]]), observed={"what": what, "opt_true": x, "entry": k},
                     expected={"opt_false": y},
                     tags={"api": a["api"], "periodic": a["periodic"], "cell": c["kind"], "kind": "paths_disagree"})
            break


def replay_case(c, li):
    d = {k: c[k] for k in ("kind", "unreduced", "perframe", "spread", "special", "grid", "xyz", "box", "raw_box")}
    if c.get("force_ortho"):
        d["force_ortho"] = True
    d["calls"] = [c["calls"][i] for i in (li if isinstance(li, (list, tuple)) else [li])]
    if c.get("chain") is not None:
        # a step of a call history: the replay re-runs the earlier steps (with all their calls) in the same process
        d["chain"], d["chain_step"], d["chain_prefix"] = c["chain"], c.get("chain_step"), c.get("chain_prefix", [])
    return d


def oracle_check(ctx, c, info, stats):
    """Property C05 checked directly on the implementation's numbers with exact integer arithmetic."""
    api, K, out = info["api"], info["K"], info["out"]
    call = c["calls"][info["li"]]
    xyzK, boxK = info["xyzK"], info["boxK"]
    data = out["data"]
    tags0 = {"api": api, "opt": info["opt"], "periodic": info["periodic"], "cell": c["kind"]}

    def fail(desc, observed, expected, **tags):
        t = dict(tags0)
        t.update(tags)
        ctx.fail(desc, replay_case(c, info["li"]), observed=observed, expected=expected, tags=t)

    oracles = {}

    def orc(f):
        if f not in oracles:
            oracles[f] = Oracle(boxK[f])
        return oracles[f]

    def is_ortho(b):
        return is_lower_tri(b) and b[1][0] == 0 and b[2][0] == 0 and b[2][1] == 0

    def check_len(d, rK, f, what):
        """reported length d (float, nm) for separation rK under cell of frame f"""
        stats["oracle_checks"] += 1
        t = tol_abs(0.0 if info["exact"] else info["M"], d) * K
        dK = d * K
        if boxK is None:
            ex = math.sqrt(norm2i(rK))
            if abs(dK - ex) > t + 1e-9 * ex:
                fail("without a periodic cell (or periodic=False) the result is not the plain Euclidean value", d, ex / K, kind="plain")
            return
        o = orc(f)
        ims = o.images(rK)
        m2 = min(x[0] for x in ims)
        mn = math.sqrt(m2)
        if dK < mn - t - 1e-9 * mn:
            fail("reported distance is BELOW the smallest image distance", d, mn / K, kind="below_min")
            return
        if is_ortho(boxK[f]) or o.below_half_width(m2, 1000001, 1000000):
            if dK > mn + t + 1e-9 * mn:
                fail("reported distance/displacement is not the minimum image (%s)" % (
                    "orthorhombic cell" if is_ortho(boxK[f]) else "minimum below half the smallest cell width"),
                    d, mn / K, kind="not_minimal", ortho=is_ortho(boxK[f]))
            return
        # beyond the half-width range: must still be the length of SOME image
        if not any(abs(dK - math.sqrt(x[0])) <= t + 1e-9 * dK for x in ims):
            # images() is complete only up to the Babai norm; a longer reported length needs a wider look
            big = o.images([rK[k] + 0 for k in range(3)])
            lim = (dK + t) ** 2
            R = o.R
            found = False
            for i in range(-4, 5):
                for j in range(-4, 5):
                    for k2 in range(-4, 5):
                        for (n2, v) in big[:1]:
                            w = [v[m] + i * R[0][m] + j * R[1][m] + k2 * R[2][m] for m in range(3)]
                            if abs(dK - math.sqrt(norm2i(w))) <= t + 1e-9 * dK:
                                found = True
            if not found:
                fail("reported distance/displacement is not that of any periodic image", d, mn / K, kind="not_congruent")

    pairs = call.get("pairs", [])
    if api == "disp":
        nfr, npr = out["shape"][0], out["shape"][1]
        for f in range(nfr):
            for j, (p1, p2) in enumerate(pairs):
                stats["oracle_checks"] += 1
                d = [data[(f * npr + j) * 3 + k] for k in range(3)]
                rK = [xyzK[f][p2][k] - xyzK[f][p1][k] for k in range(3)]
                n = info["shifts"][f][j]
                t = tol_abs(0.0 if info["exact"] else info["M"], math.sqrt(sum(x * x for x in d))) * K
                if boxK is None:
                    v = rK
                else:
                    B = boxK[f]
                    v = [rK[k] + sum(n[i] * B[i][k] for i in range(3)) for k in range(3)]
                if max(abs(d[k] * K - v[k]) for k in range(3)) > t + 1e-9:
                    if boxK is not None:
                        fail("reported distance/displacement is not that of any periodic image", d, [x / K for x in v], kind="not_congruent")
                    else:
                        fail("without a periodic cell (or periodic=False) the result is not the plain Euclidean value", d,
                             [x / K for x in v], kind="plain")
                    continue
                if boxK is None:
                    continue
                o = orc(f)
                m2 = o.min2(rK)
                n2 = norm2i(v)
                band = 2 * math.sqrt(n2) * t + t * t + n2 * 2.0 ** -20
                if is_ortho(B) or o.below_half_width(m2, 1000001, 1000000):
                    if n2 - m2 > band:
                        fail("reported distance/displacement is not the minimum image (%s)" % (
                            "orthorhombic cell" if is_ortho(B) else "minimum below half the smallest cell width"),
                            d, math.sqrt(m2) / K, kind="not_minimal", ortho=is_ortho(B))
    elif api in ("dist", "core", "core_raw"):
        nfr, npr = out["shape"]
        for f in range(nfr):
            for j, (p1, p2) in enumerate(pairs):
                rK = [xyzK[f][p2][k] - xyzK[f][p1][k] for k in range(3)]
                check_len(data[f * npr + j], rK, f, api)
    elif api == "dist_t":
        nfr, npr = out["shape"]
        for i, (t1, t2) in enumerate(call["times"]):
            for j, (p1, p2) in enumerate(pairs):
                rK = [xyzK[t2][p2][k] - xyzK[t1][p1][k] for k in range(3)]
                check_len(data[i * npr + j], rK, t1, api)
    elif api == "fcc":
        stats["oracle_checks"] += 1
        a1, a2, d = int(data[0]), int(data[1]), data[2]
        f = call["frame"]
        if a1 not in call["g1"] or a2 not in call["g2"]:
            fail("find_closest_contact: reported atoms are not members of the groups", [a1, a2], [call["g1"], call["g2"]],
                 kind="fcc_members")
            return
        t = tol_abs(info["M"], d) * K
        best = None
        for i in call["g1"]:
            for j in call["g2"]:
                rK = [xyzK[f][i][k] - xyzK[f][j][k] for k in range(3)]
                m2 = norm2i(rK) if boxK is None else orc(f).min2(rK)
                if best is None or m2 < best:
                    best = m2
        mn = math.sqrt(best)
        if d * K < mn - t - 1e-9 * mn:
            fail("find_closest_contact: reported distance is below the true closest minimum-image distance", d, mn / K,
                 kind="below_min")
        elif boxK is None or orc(f).below_half_width(best, 1000001, 1000000):
            if d * K > mn + t + 1e-9 * mn:
                fail("find_closest_contact: reported distance is not the closest minimum-image distance although it is "
                     "below half the smallest cell width", d, mn / K, kind="not_minimal")




# =============================================================================================
# the Python glue: validation, empty lists, cell-array shape  (model: coq/PBC/Kernel.v api_call)
GLUE_FN = {"core": "ApiDistancesCore", "dist": "ApiDistancesCore", "disp": "ApiDisplacements", "dist_t": "ApiDistancesT"}


def glue_cases(rng, tier):
    n_atoms, n_frames = 4, 3
    cases = []
    configs = [None, "ortho", "mixed"]
    for cfg in configs:
        if cfg is None:
            cells = None
        elif cfg == "ortho":
            cells = [gen_cell(rng, "ortho")] * n_frames
        else:
            cells = [gen_cell(rng, k) for k in ("triclinic", "ortho", "monoclinic")]
        ref = cells[0] if cells else gen_cell(rng, "cubic")
        xyz = [gen_positions(rng, ref, n_atoms, 2, False) for _ in range(n_frames)]
        box = None if cells is None else [[[v / U for v in row] for row in c] for c in cells]
        bad_pairs = [[[0, n_atoms]], [[n_atoms, 0]], [[-1, 1]], [[1, -1]], [[0, 1], [2, n_atoms + 1]], [[0, 1], [-3, 2]],
                     [[n_atoms - 1, n_atoms - 1], [0, -n_atoms]]]
        ok_pairs = [[[0, 1], [n_atoms - 1, n_atoms - 1]], [[n_atoms - 1, 0]], []]
        ok_times = [[[0, n_frames - 1], [1, 1]], [[n_frames - 1, 0]], []]
        bad_times = [[[0, n_frames]], [[-1, 0]], [[n_frames, 0], [0, 0]], [[1, 1], [1, -2]]]
        calls = []

        def add(fn, pairs, times=None, cbox="same", opt=None, periodic=None):
            a = {"fn": fn, "pairs": pairs}
            if times is not None:
                a["times"] = times
            if fn == "core":
                a["box"] = box if cbox == "same" else cbox
            calls.append({"api": "glue", "opt": rng.random() < 0.5 if opt is None else opt,
                          "periodic": rng.random() < 0.7 if periodic is None else periodic, "call_args": a})
        for fn in ("core", "dist", "disp"):
            for ps in bad_pairs + ok_pairs:
                add(fn, ps)
        for ps in bad_pairs + ok_pairs:
            add("dist_t", ps, times=rng.choice(ok_times[:2]))
        for ts in bad_times + ok_times:
            for ps in (ok_pairs[0], [], bad_pairs[2]):
                add("dist_t", ps, times=ts)
        if box is not None:
            # compute_distances_core handed a cell array whose length is not the number of frames
            for wrong in (box + [box[0]], box[:-1], box[:1]):
                for ps in (ok_pairs[0], [], bad_pairs[0]):
                    for periodic in (True, False):
                        add("core", ps, cbox=wrong, periodic=periodic)
        cases.append({"glue": True, "kind": "glue", "unreduced": False, "perframe": cfg == "mixed", "spread": 2,
                      "special": False, "grid": GRID, "xyz": xyz, "box": box, "raw_box": None, "calls": calls})
    return cases


def zpairs(ps):
    return clist(["(%s, %s)" % (("(%d)" % a) if a < 0 else a, ("(%d)" % b) if b < 0 else b) for a, b in ps])


def run_glue(ctx, cases=None):
    cases = cases if cases is not None else glue_cases(ctx.rng, ctx.tier)
    res = ctx.run_impl("pbc_impl.py", {"cases": [{"xyz": c["xyz"], "grid": c["grid"], "box": c["box"], "calls": c["calls"]}
                                                 for c in cases]})["cases"]
    defs, exprs, meta = {}, [], []
    for ci, (c, r) in enumerate(zip(cases, res)):
        seen = r["box_seen"]
        vals = [Fraction(1, 1 << c["grid"])] + ([x for f in seen for x in f] if seen is not None else [])
        K = common_unit(vals)
        sx = K >> c["grid"]
        xyzK = [[[x * sx for x in a] for a in f] for f in c["xyz"]]
        defs[ci] = ["Definition gxyz_%d : list frame := %s." % (ci, clist([clist([zv(a) for a in f]) for f in xyzK]))]
        n_atoms = len(c["xyz"][0])
        for li, (call, out) in enumerate(zip(c["calls"], r["results"])):
            a = call["call_args"]
            if a["fn"] == "core":
                bx = a.get("box")
                boxes = None if bx is None else [[[int(Fraction(float(x)) * K) for x in row] for row in f] for f in bx]
            else:
                boxes = None if seen is None else [[[int(Fraction(float(f[3 * i + j])) * K) for j in range(3)] for i in range(3)] for f in seen]
            bt = "None" if boxes is None else "(Some %s)" % clist([zbox(b) for b in boxes])
            exprs.append((ci, "match api_call %s %s %s %d gxyz_%d %s %s %s with Err _ => [-1] | Ok sh _ => sh end" % (
                GLUE_FN[a["fn"]], cb(call["opt"]), cb(call["periodic"]), n_atoms, ci, bt, zpairs(a["pairs"]),
                zpairs(a.get("times", [])))))
            meta.append((ci, li, call, out))
    try:
        verdicts = run_coq(ctx, defs, exprs, requires="MD.PBC.Model MD.PBC.Kernel", shard=120)
    except RuntimeError as e:
        ctx.break_("correspondence:coqc-evaluation", str(e))
        return
    for (ci, li, call, out), model in zip(meta, verdicts):
        c = cases[ci]
        a = call["call_args"]
        rc = {k: c[k] for k in ("glue", "kind", "unreduced", "perframe", "spread", "special", "grid", "xyz", "box", "raw_box")}
        rc["calls"] = [call]
        tags = {"api": "glue:" + a["fn"], "opt": call["opt"], "periodic": call["periodic"]}
        model_err = model == [-1]
        ctx.count({"glue": a, "opt": call["opt"], "periodic": call["periodic"], "cell": c["box"] is not None and c["perframe"],
                   "x": c["xyz"][0][0]}, nontrivial=True,
                  bucket="glue/%s/%s" % (a["fn"], "refused" if model_err else ("empty" if not a["pairs"] else "accepted")))
        if "err" in out:
            if not model_err:
                ctx.fail("%s raised %s on valid input" % (a["fn"], out["err"]), rc, observed=out, expected={"shape": model},
                         tags=dict(tags, kind="raises"))
            elif out["err"] != "ValueError":
                ctx.break_("correspondence:glue-error-class", "%s raised %s where the model has ValueError: %s" % (
                    a["fn"], out["err"], json.dumps(call)))
        elif model_err:
            ctx.fail("an index outside the valid range, or a cell array whose length is not the number of frames, is accepted: "
                     "the value returned belongs to no atom pair of the system", rc, observed={"shape": out["shape"], "data": out["data"][:6]},
                     expected="ValueError", tags=dict(tags, kind="invalid_accepted"))
        elif out["shape"] != model:
            ctx.fail("%s: result has shape %s, expected %s" % (a["fn"], out["shape"], model), rc, observed=out["shape"], expected=model,
                     tags=dict(tags, kind="shape", empty_pairs=len(a["pairs"]) == 0))


def correspond(ctx):
    cases = build_cases(ctx)
    ctx.log("cases:", len(cases))
    B = 40
    for i in range(0, len(cases), B):
        run_cases(ctx, cases[i:i + B])
    ctx.log("stream done")
    # call histories (one process, shared Trajectory and cell array objects)
    chains = []
    for k in range(3 if ctx.tier == "quick" else 30):
        chains += gen_chain(ctx.rng, k, ctx.tier)
    run_cases(ctx, chains)
    ctx.log("histories done")
    ctx.notes.setdefault("coverage_extra", {}).setdefault("c05", {})["history_steps"] = len(chains)
    # argument validation, empty lists, cell-array shape: the Python glue against PBC/Kernel.v:api_call
    run_glue(ctx)
    ctx.log("stats:", ctx.notes.get("coverage_extra", {}).get("c05"))


def search(ctx, broken):
    """A proof or the tie broke and the correspondence run found no property failure: widen the oracle run."""
    rng = ctx.rng
    for rnd in range(6 if ctx.tier == "quick" else 30):
        cases = [gen_case(rng, rng.choice(CELL_KINDS + ZERO_KINDS + ["series"]), ctx.tier) for _ in range(40)]
        run_cases(ctx, cases, oracle_only=True)
        if ctx.failures:
            return


def replay(ctx, rec):
    c = rec["case"]
    if c.get("glue"):
        run_glue(ctx, [c])
        return
    run_cases(ctx, list(c.get("chain_prefix", [])) + [c])
