"""Implementation side of C11: Trajectory.make_molecules_whole / Trajectory.image_molecules.

stdin : {"cases":[case..]} with
   case = {"frames":[{"xyz":[[ix,iy,iz]..] (unit 2^-10 nm), "cell":{"lengths":[..] (unit 2^-10 nm), "angles":[..]},
                      "time": float}..],
           "bonds": [[a,b]..]        order and orientation of the Topology.add_bond calls,
           "mol_of": [m0, m1, ..]    molecule (= residue) index of every atom,
           "api": "whole"|"image", "inplace": bool, "make_whole": bool,
           "anchors": null|[[atom..]..], "others": null|[[atom..]..]   explicit molecules (lists of Atom objects),
           "sorted_bonds": null|[[a,b]..]}
stdout: last line JSON {"out":[{...}]}; per case
   "err": null | exception class name
   "frames": per frame {"box": 3x3 exact integers, "K": exponent (unit 2^-K nm), "new": [[x,y,z]..] float64 of the
             returned float32 coordinates, "dist_before"/"dist_after": max |difference| of all-pairs
             compute_distances(periodic=True) before/after, "bond_plain_minus_mic": max over bonds of
             (plain distance - minimum-image distance) after the call}
   "anchors_used"/"others_used": atom index order of every molecule as image_molecules sees it
   "returned_is_self", "orig_xyz_same", "orig_cell_same", "orig_time_same"  (receiver after the call vs before, bitwise)
   "res_cell_same", "res_time_same" (returned trajectory vs receiver before, bitwise)
"""
import itertools
import json
import sys
import warnings
from fractions import Fraction

import numpy as np

warnings.filterwarnings("ignore")
import mdtraj as md  # noqa: E402

G = 1024.0


class _Spy:
    """records what Trajectory.image_molecules / make_molecules_whole hand to the kernels (mdtraj.core.trajectory._geometry):
    the atom-index arrays of the anchor / other molecules exactly as passed, and the bond walk"""

    def __init__(self, real):
        self._real = real
        self.calls = []

    def __getattr__(self, name):
        f = getattr(self._real, name)
        if name in ("image_molecules", "whole_molecules"):
            def g(*a, **k):
                self.calls.append((name, a))
                return f(*a, **k)
            return g
        return f


try:
    import mdtraj.core.trajectory as _tj
    SPY = _Spy(_tj._geometry) if hasattr(_tj, "_geometry") else None
    if SPY is not None:
        _tj._geometry = SPY
except Exception:  # noqa: BLE001
    SPY = None


def build(case):
    frames = case["frames"]
    n = len(frames[0]["xyz"])
    top = md.Topology()
    ch = top.add_chain()
    res_of = {}
    atoms = []
    for a in range(n):
        m = case["mol_of"][a]
        if m not in res_of:
            res_of[m] = top.add_residue("M%d" % m, ch)
        atoms.append(top.add_atom("C%d" % a, md.element.carbon, res_of[m]))
    for a, b in case["bonds"]:
        top.add_bond(atoms[a], atoms[b])
    xyz = np.array([f["xyz"] for f in frames], dtype=np.float64).reshape(len(frames), n, 3) / G
    times = np.array([f["time"] for f in frames], dtype=np.float32)
    tm = case.get("time_mode") or "ctor"
    if tm == "ctor":
        t = md.Trajectory(xyz.astype(np.float32), top, time=times)
    else:
        # built WITHOUT time= (the constructor fills in 0,1,2..); "late*": the real times are assigned afterwards
        t = md.Trajectory(xyz.astype(np.float32), top)
        if tm == "late32":
            t.time = times.copy()
        elif tm == "late64":
            t.time = times.astype(np.float64)
        elif tm == "latelist":
            t.time = [float(x) for x in times] if len(times) > 1 else float(times[0])
    ul = np.array([[v / G for v in f["cell"]["lengths"]] for f in frames], dtype=np.float64)
    ua = np.array([f["cell"]["angles"] for f in frames], dtype=np.float64)
    if (case.get("cell_mode") or "lengths32") == "vectors64":
        # the cell assigned through unitcell_vectors in double precision: mdtraj then holds float64 lengths/angles
        from mdtraj.utils.unitcell import lengths_and_angles_to_box_vectors
        v = lengths_and_angles_to_box_vectors(ul[:, 0], ul[:, 1], ul[:, 2], ua[:, 0], ua[:, 1], ua[:, 2])
        t.unitcell_vectors = np.swapaxes(np.dstack(v), 1, 2).astype(np.float64)
    else:
        t.unitcell_lengths = ul.astype(np.float32)
        t.unitcell_angles = ua.astype(np.float32)
    return t, atoms


def snap(t):
    """bit-exact picture of the arrays of a trajectory: dtype, shape and bytes of xyz / time / unit-cell lengths / angles"""
    out = {}
    for k in ("xyz", "time", "unitcell_lengths", "unitcell_angles"):
        a = getattr(t, k)
        out[k] = None if a is None else (str(a.dtype), tuple(a.shape), np.ascontiguousarray(a).tobytes())
    return out


def snap_diff(a, b, keys=("xyz", "time", "unitcell_lengths", "unitcell_angles")):
    """names of the arrays that differ between two snapshots, with what differs (dtype / shape / values)"""
    bad = []
    for k in keys:
        x, y = a[k], b[k]
        if x == y:
            continue
        if x is None or y is None:
            bad.append(k + ":None")
        elif x[0] != y[0]:
            bad.append("%s:dtype %s->%s" % (k, x[0], y[0]))
        elif x[1] != y[1]:
            bad.append("%s:shape" % k)
        else:
            bad.append("%s:values" % k)
    return bad


def kernel_boxes(t, inplace=False):
    """the float32 cell matrices the kernels receive for t.  A cell held in double precision reaches them either through
    the copy (inplace=False: the constructor of the copy casts lengths/angles to single precision, unitcell_vectors converts
    those) or, with inplace=True, as the single-precision cast of the double-precision vectors"""
    if (str(t.unitcell_lengths.dtype) == "float32" and str(t.unitcell_angles.dtype) == "float32") or inplace:
        return np.asarray(t.unitcell_vectors, dtype=np.float32).copy()
    return np.asarray(t.slice(slice(None), copy=True).unitcell_vectors, dtype=np.float32).copy()


def same_values32(a, b):
    """a (result) against b (input) up to the single-precision normalisation of a copy"""
    return bool(a is not None and b is not None and a.shape == b.shape and np.array_equal(np.asarray(a, dtype=np.float32), np.asarray(b, dtype=np.float32)))


def exact_box(m):
    fr = [[Fraction(float(x)) for x in row] for row in m]
    K = 10
    for row in fr:
        for x in row:
            K = max(K, x.denominator.bit_length() - 1)
    return [[int(x * (1 << K)) for x in row] for row in fr], K


def run_case(case):
    out = {"err": None}
    t = before_bits = None
    try:
        t, atoms = build(case)
        n = t.n_atoms
        before = {"xyz": t.xyz.copy(), "ul": t.unitcell_lengths.copy(), "ua": t.unitcell_angles.copy(), "time": t.time.copy()}
        boxes = kernel_boxes(t, bool(case["inplace"]))
        out["cell_dtype"] = str(t.unitcell_lengths.dtype)
        out["time_dtype"] = str(t.time.dtype)
        before_bits = snap(t)
        pairs = np.array(list(itertools.combinations(range(n), 2)), dtype=int).reshape(-1, 2)
        d_before = md.compute_distances(t, pairs, periodic=True) if len(pairs) else None
        kw = {"inplace": bool(case["inplace"])}
        if case.get("sorted_bonds") is not None:
            kw["sorted_bonds"] = np.array(case["sorted_bonds"], dtype=np.int32).reshape(-1, 2)
        if case["api"] == "whole":
            res = t.make_molecules_whole(**kw)
        else:
            kw["make_whole"] = bool(case["make_whole"])
            if case.get("anchors") is not None:
                kw["anchor_molecules"] = [[atoms[a] for a in mol] for mol in case["anchors"]]
                out["anchors_used"] = [list(mol) for mol in case["anchors"]]
            else:
                # same calls, same insertion order => same set iteration order as inside image_molecules
                out["anchors_used"] = [[a.index for a in mol] for mol in t.topology.guess_anchor_molecules()]
            if case.get("others") is not None:
                kw["other_molecules"] = [[atoms[a] for a in mol] for mol in case["others"]]
                out["others_used"] = [list(mol) for mol in case["others"]]
            else:
                anc = kw.get("anchor_molecules")
                if anc is None:
                    anc = t.topology.guess_anchor_molecules()
                mols = t.topology.find_molecules()
                out["others_used"] = [[a.index for a in mol] for mol in mols if mol not in anc]
            if SPY is not None:
                SPY.calls.clear()
            res = t.image_molecules(**kw)
            call = next((a for nm, a in (SPY.calls if SPY is not None else []) if nm == "image_molecules" and len(a) >= 5), None)
            if call is not None:
                # what the kernel really received (atom order included), instead of the replica of the expressions above
                try:
                    out["anchors_used"] = [[int(x) for x in m] for m in call[2]]
                    out["others_used"] = [[int(x) for x in m] for m in call[3]]
                    out["kernel_args_observed"] = True
                    out["kernel_walk_len"] = None if call[4] is None else int(len(call[4]))
                except Exception:  # noqa: BLE001
                    pass
        try:      # Topology.find_molecules as a partition: atom lists ascending, molecules in their own order
            out["molecules"] = [sorted(a.index for a in mol) for mol in t.topology.find_molecules()]
        except ValueError:
            out["molecules"] = None
        # Topology.guess_anchor_molecules: molecules in its order (atom lists ascending), "refused" when it finds none
        try:
            out["guessed"] = [sorted(a.index for a in mol) for mol in t.topology.guess_anchor_molecules()]
        except ValueError as e:
            out["guessed"] = "refused" if "Could not find any anchor molecules" in str(e) else "error"
        except Exception:  # noqa: BLE001
            out["guessed"] = "error"
        out["returned_is_self"] = res is t
        after_bits = snap(t)
        out["input_changed"] = snap_diff(before_bits, after_bits)          # bit-exact, dtype included
        out["orig_xyz_same"] = not any(x.startswith("xyz") for x in out["input_changed"])
        out["orig_cell_same"] = not any(x.startswith("unitcell") for x in out["input_changed"])
        out["orig_time_same"] = not any(x.startswith("time") for x in out["input_changed"])
        out["res_cell_same"] = same_values32(res.unitcell_lengths, before["ul"]) and same_values32(res.unitcell_angles, before["ua"])
        out["res_time_same"] = same_values32(res.time, before["time"])
        out["shares_memory"] = bool(np.shares_memory(res.xyz, t.xyz))
        d_after = md.compute_distances(res, pairs, periodic=True) if len(pairs) else None
        bonds = np.array([[a.index, b.index] for a, b in t.topology.bonds], dtype=int).reshape(-1, 2)
        frames = []
        for f in range(t.n_frames):
            box, K = exact_box(boxes[f])
            fr = {"box": box, "K": K, "new": res.xyz[f].astype(np.float64).tolist()}
            if d_before is not None:
                fr["dist_change"] = float(np.max(np.abs(d_after[f] - d_before[f])))
            if len(bonds):
                dp = md.compute_distances(res[f], bonds, periodic=False)[0]
                dm = md.compute_distances(res[f], bonds, periodic=True)[0]
                k = int(np.argmax(dp - dm))
                fr["bond_plain_minus_mic"] = float(dp[k] - dm[k])
                fr["worst_bond"] = bonds[k].tolist()
            frames.append(fr)
        out["frames"] = frames
    except Exception as e:  # noqa: BLE001
        out["err"] = type(e).__name__
        out["msg"] = str(e)[:300]
        if t is not None and before_bits is not None:
            try:      # a call that refuses must leave its input alone as well
                out["input_changed"] = snap_diff(before_bits, snap(t))
            except Exception:  # noqa: BLE001
                pass
    return out


def rebuild_topology(top, skip_bond=None):
    """a new Topology with the same chains/residues/atoms and all bonds but one, through the public API only"""
    new = md.Topology()
    amap = {}
    for ch in top.chains:
        nch = new.add_chain()
        for r in ch.residues:
            nr = new.add_residue(r.name, nch, r.resSeq)
            for a in r.atoms:
                amap[a.index] = new.add_atom(a.name, a.element, nr)
    for k, (a, b) in enumerate(top.bonds):
        if k != skip_bond:
            new.add_bond(amap[a.index], amap[b.index])
    return new


def reimage_step(t, op):
    """one re-imaging call on the trajectory as it is now (all its frames); returns (step record, trajectory to
    continue with).  The state AFTER the call is read from the object that was supposed to change: the receiver
    itself for inplace=True, the returned trajectory otherwise."""
    n = t.n_atoms
    nf = t.n_frames
    top = t.topology
    st = {"op": op["op"], "inplace": bool(op["inplace"]), "make_whole": bool(op.get("make_whole", True)), "n_atoms": n,
          "bonds_now": [[a.index, b.index] for a, b in top.bonds],
          "before": [t.xyz[f].astype(np.float64).tolist() for f in range(nf)],
          "xyz_flags": {"c_contiguous": bool(t.xyz.flags["C_CONTIGUOUS"]), "owndata": bool(t.xyz.flags["OWNDATA"])}}
    before = {"xyz": np.array(t.xyz, copy=True), "ul": t.unitcell_lengths.copy(), "ua": t.unitcell_angles.copy(), "time": t.time.copy()}
    boxes = kernel_boxes(t, bool(op["inplace"]))
    before_bits = snap(t)
    pairs = np.array(list(itertools.combinations(range(n), 2)), dtype=int).reshape(-1, 2)
    d_before = md.compute_distances(t, pairs, periodic=True) if len(pairs) else None
    mols = [sorted(a.index for a in mol) for mol in top.find_molecules()]
    st["molecules"] = mols
    kw = {"inplace": st["inplace"]}
    if op["op"] == "whole":
        res = t.make_molecules_whole(**kw)
    else:
        order = sorted(range(len(mols)), key=lambda m: (-len(mols[m]), mols[m][0]))
        st["anchors_used"] = [mols[order[0]]]
        st["others_used"] = [mols[m] for m in order[1:]]
        kw["anchor_molecules"] = [[top.atom(a) for a in m] for m in st["anchors_used"]]
        kw["other_molecules"] = [[top.atom(a) for a in m] for m in st["others_used"]]
        kw["make_whole"] = st["make_whole"]
        res = t.image_molecules(**kw)
    target = t if st["inplace"] else res
    st["returned_is_self"] = res is t
    st["input_changed"] = snap_diff(before_bits, snap(t))              # bit-exact, dtype included
    st["orig_xyz_same"] = not any(x.startswith("xyz") for x in st["input_changed"])
    st["orig_cell_same"] = not any(x.startswith("unitcell") for x in st["input_changed"])
    st["orig_time_same"] = not any(x.startswith("time") for x in st["input_changed"])
    st["res_cell_same"] = same_values32(res.unitcell_lengths, before["ul"]) and same_values32(res.unitcell_angles, before["ua"])
    st["res_time_same"] = same_values32(res.time, before["time"])
    st["shares_memory"] = bool(np.shares_memory(res.xyz, t.xyz))
    d_after = md.compute_distances(target, pairs, periodic=True) if len(pairs) else None
    bonds = np.array(st["bonds_now"], dtype=int).reshape(-1, 2)
    frames = []
    for f in range(nf):
        box, K = exact_box(boxes[f])
        fr = {"box": box, "K": K, "new": np.asarray(target.xyz[f], dtype=np.float64).tolist()}
        if d_before is not None:
            fr["dist_change"] = float(np.max(np.abs(d_after[f] - d_before[f])))
        if len(bonds):
            dp = md.compute_distances(target[f], bonds, periodic=False)[0]
            dm = md.compute_distances(target[f], bonds, periodic=True)[0]
            k = int(np.argmax(dp - dm))
            fr["bond_plain_minus_mic"] = float(dp[k] - dm[k])
            fr["worst_bond"] = bonds[k].tolist()
        frames.append(fr)
    st["frames"] = frames
    return st, (res if (op.get("adopt") or st["inplace"]) else t)


def run_history(case):
    """a sequence of re-imaging calls and topology/trajectory edits on ONE trajectory object"""
    out = {"err": None, "steps": []}
    try:
        t, atoms = build(case)
        for op in case["ops"]:
            kind = op["op"]
            if kind in ("whole", "image"):
                st, t = reimage_step(t, op)
                out["steps"].append(st)
            elif kind == "add_bond":
                t.topology.add_bond(t.topology.atom(op["bond"][0]), t.topology.atom(op["bond"][1]))
            elif kind == "del_bond":
                t.topology = rebuild_topology(t.topology, skip_bond=op["k"])
            elif kind == "copy_top":
                t.topology = t.topology.copy()
            elif kind == "atom_slice":
                r = t.atom_slice(np.array(op["keep"], dtype=int), inplace=bool(op.get("inplace", False)))
                t = t if op.get("inplace", False) else r
            elif kind == "stack":
                top2 = md.Topology()
                ch = top2.add_chain()
                a2 = [top2.add_atom("X%d" % k, md.element.carbon, top2.add_residue("S", ch)) for k in range(len(op["xyz"]))]
                for a, b in op["bonds"]:
                    top2.add_bond(a2[a], a2[b])
                t2 = md.Trajectory(np.repeat((np.array([op["xyz"]], dtype=np.float64) / G).astype(np.float32), t.n_frames, axis=0),
                                   top2, time=t.time.copy())
                t2.unitcell_lengths = t.unitcell_lengths.copy()
                t2.unitcell_angles = t.unitcell_angles.copy()
                t = t.stack(t2)
            elif kind == "slice":          # frames; copy=False hands out views of the coordinate array
                t = t.slice(slice(op["start"], op["stop"], op["step"]), copy=bool(op["copy"]))
            elif kind == "set_xyz":        # coordinates assigned by the user in another memory layout / dtype
                if op["how"] == "fortran":
                    t.xyz = np.asfortranarray(t.xyz)
                elif op["how"] == "float64":
                    t.xyz = t.xyz.astype(np.float64)
                else:
                    t.xyz = np.repeat(t.xyz, 2, axis=0)[::2]
            else:
                raise KeyError(kind)
    except Exception as e:  # noqa: BLE001
        out["err"] = type(e).__name__
        out["msg"] = str(e)[:300]
    return out


def main():
    import resource
    try:  # a runaway allocation inside a kernel must fail fast, not exhaust the machine
        resource.setrlimit(resource.RLIMIT_AS, (6 << 30, 6 << 30))
    except (ValueError, OSError):
        pass
    payload = json.load(sys.stdin)
    print(json.dumps({"out": [run_history(c) if c.get("ops") is not None else run_case(c) for c in payload["cases"]]}))


if __name__ == "__main__":
    main()
