"""Implementation side of C16: run mdtraj's public descriptor functions on generated inputs.

stdin : {"cases": [case, ...]}                       stdout (last line): {"results": [result, ...]}

Every case carries a topology description  top = [[resname, chain_no, [[atom name, element symbol], ...]], ...],
integer coordinates  xyz[frame][atom] = [i, j, k]  meaning (i, j, k) / unit nm (unit a power of two, so the
float32 coordinates are exact), an optional orthorhombic cell  box = [a, b, c]  in the same unit, and the
arguments of the function named by "kind".  Results are returned as exact quantities: integers, or floats as
[numerator, denominator] of float.as_integer_ratio() so that nothing is rounded on the way to the comparison.
"""
import json
import sys
import warnings

import numpy as np

warnings.filterwarnings("ignore")
import mdtraj as md  # noqa: E402
from mdtraj.core import element as elem  # noqa: E402


def build_traj(case):
    top = md.Topology()
    chains = {}
    for rname, ch, atoms in case["top"]:
        if ch not in chains:
            chains[ch] = top.add_chain()
        r = top.add_residue(rname, chains[ch])
        for aname, sym in atoms:
            top.add_atom(aname, elem.get_by_symbol(sym), r)
    for a, b in case.get("bonds", []):
        top.add_bond(top.atom(a), top.atom(b))
    unit = float(case["unit"])
    xyz = (np.array(case["xyz"], dtype=np.float64) / unit).astype(np.float32)
    assert np.array_equal(xyz.astype(np.float64) * unit, np.array(case["xyz"], dtype=np.float64)), "inexact coordinates"
    t = md.Trajectory(xyz, top)
    if isinstance(case.get("box"), dict) and "tri_frames" in case["box"]:
        t.unitcell_vectors = np.array(case["box"]["tri_frames"], dtype=np.float64) / unit
    elif isinstance(case.get("box"), dict):
        v = np.array(case["box"]["tri"], dtype=np.float64) / unit
        t.unitcell_vectors = np.tile(v, (len(xyz), 1, 1))
    elif case.get("box") is not None:
        bx = np.array(case["box"], dtype=np.float64) / unit
        if bx.ndim == 1:
            bx = np.tile(bx, (len(xyz), 1))
        t.unitcell_lengths = bx
        t.unitcell_angles = np.full((len(xyz), 3), 90.0)
    return t


def ratio(x):
    x = float(x)
    if not np.isfinite(x):
        return ["nan" if x != x else ("inf" if x > 0 else "-inf"), 1]
    n, d = x.as_integer_ratio()
    return [n, d]


def ratios(a):
    a = np.asarray(a, dtype=np.float64)
    if a.ndim == 0:
        return ratio(a)
    return [ratios(x) for x in a]


def err(e):
    return {"err": type(e).__name__, "msg": str(e)[:200]}


def d2_units(d, unit, absolute=False):
    """float32 distances -> exact squared distance in units of unit^-2 (rounded), with the residual."""
    v = (np.asarray(d, dtype=np.float64) * unit) ** 2
    r = np.rint(v)
    if absolute:
        return r.astype(np.int64), float(np.max(np.abs(v - r))) if v.size else 0.0
    return r.astype(np.int64), float(np.max(np.abs(v - r) / np.maximum(1.0, r))) if v.size else 0.0


def k_contacts(case, t=None):
    t = build_traj(case) if t is None else t
    contacts = case["contacts"]
    if contacts != "all" and case.get("as_array"):
        contacts = np.array(contacts, dtype=int).reshape(-1, 2)
    kw = dict(scheme=case["scheme"], periodic=case["periodic"], soft_min=case["soft_min"])
    if "ignore_nonprotein" in case:
        kw["ignore_nonprotein"] = case["ignore_nonprotein"]
    if case.get("beta") is not None:
        kw["soft_min_beta"] = case["beta"]
    try:
        d, pairs = md.compute_contacts(t, contacts, **kw)
    except Exception as e:  # noqa: BLE001
        return err(e)
    out = {"pairs": np.asarray(pairs).reshape(-1, 2).tolist(), "shape": list(d.shape), "dtype": str(d.dtype),
           "pairs_dtype_kind": np.asarray(pairs).dtype.kind}
    soft = case["soft_min"] and case["scheme"].lower() != "ca"
    if soft:
        out["values"] = ratios(d)
        out["signbit"] = np.signbit(d).tolist()
    else:
        q, resid = d2_units(d, case["unit"])
        out["d2"] = q.tolist()
        out["resid"] = resid
        out["resid_abs"] = d2_units(d, case["unit"], absolute=True)[1]
    if case.get("squareform"):
        try:
            m = md.geometry.squareform(d, pairs)
            out["sq_shape"] = list(m.shape)
            if soft:
                out["sq"] = None
            else:
                out["sq"] = d2_units(m, case["unit"])[0].tolist()
        except Exception as e:  # noqa: BLE001
            out["sq_err"] = err(e)
    return out


def k_squareform(case):
    d = np.array(case["d"], dtype=np.float32)
    pairs = np.array(case["pairs"], dtype=int).reshape(-1, 2)
    try:
        m = md.geometry.squareform(d, pairs)
    except Exception as e:  # noqa: BLE001
        return err(e)
    return {"shape": list(m.shape), "m": np.rint(m).astype(np.int64).tolist(),
            "exact": bool(np.all(m == np.rint(m))), "dtype": str(m.dtype)}


def _ok(f):
    try:
        return f()
    except Exception as e:  # noqa: BLE001
        return err(e)


def k_centres(case, t=None):
    t = build_traj(case) if t is None else t
    out = {}
    out["com"] = _ok(lambda: ratios(md.compute_center_of_mass(t)))
    out["cog"] = _ok(lambda: ratios(md.compute_center_of_geometry(t)))
    if case.get("select") is not None:
        out["com_sel"] = _ok(lambda: ratios(md.compute_center_of_mass(t, select=case["select"])))
        out["sel_idx"] = _ok(lambda: [int(i) for i in t.topology.select(case["select"])])
    return out


def k_rg(case, t=None):
    t = build_traj(case) if t is None else t
    masses = None
    if case.get("masses") is not None:
        masses = np.array([n / d for n, d in case["masses"]], dtype=np.float64)
    return {"rg": _ok(lambda: ratios(md.compute_rg(t, masses=masses)))}


def k_shape(case, t=None):
    t = build_traj(case) if t is None else t
    return {"tensor": _ok(lambda: ratios(md.compute_gyration_tensor(t))),
            "pm": _ok(lambda: ratios(md.principal_moments(t))),
            "b": _ok(lambda: ratios(md.asphericity(t))),
            "c": _ok(lambda: ratios(md.acylindricity(t))),
            "k": _ok(lambda: ratios(md.relative_shape_antisotropy(t))),
            "alias": md.relative_shape_antisotropy is md.geometry.shape.relative_shape_anisotropy}


def k_density(case, t=None):
    t = build_traj(case) if t is None else t
    masses = None
    if case.get("masses") is not None:
        masses = np.array([n / d for n, d in case["masses"]], dtype=np.float64)
    return {"density": _ok(lambda: ratios(md.density(t, masses=masses))),
            "volumes": _ok(lambda: ratios(t.unitcell_volumes))}


def k_rdf(case, t=None):
    t = build_traj(case) if t is None else t
    kw = {"periodic": case["periodic"]}
    if case.get("r_range") is not None:
        kw["r_range"] = [n / d for n, d in case["r_range"]]
    if case.get("n_bins") is not None:
        kw["n_bins"] = case["n_bins"]
    if case.get("bin_width") is not None:
        kw["bin_width"] = case["bin_width"][0] / case["bin_width"][1]
    if case.get("opt") is not None:
        kw["opt"] = case["opt"]
    try:
        r, g = md.compute_rdf(t, np.array(case["pairs"], dtype=int).reshape(-1, 2), **kw)
    except Exception as e:  # noqa: BLE001
        return err(e)
    return {"r": ratios(r), "g": ratios(g), "n": int(len(r)), "same_len": len(r) == len(g)}


def k_drid(case, t=None):
    t = build_traj(case) if t is None else t
    ai = case.get("atom_indices")
    try:
        x = md.compute_drid(t, atom_indices=None if ai is None else np.array(ai, dtype=int))
    except Exception as e:  # noqa: BLE001
        return err(e)
    return {"shape": list(x.shape), "x": ratios(x)}


def k_karplus(case, t=None):
    t = build_traj(case) if t is None else t
    fn = {"HA": md.compute_J3_HN_HA, "C": md.compute_J3_HN_C, "CB": md.compute_J3_HN_CB}[case["which"]]
    try:
        idx, j = fn(t, model=case["model"]) if case.get("model") else fn(t)
        pidx, phi = md.compute_phi(t)
    except Exception as e:  # noqa: BLE001
        return err(e)
    return {"indices": np.asarray(idx).tolist(), "J": ratios(j), "phi_indices": np.asarray(pidx).tolist(),
            "phi": ratios(phi), "shape": list(np.asarray(j).shape)}


def k_dipole(case, t=None):
    t = build_traj(case) if t is None else t
    q = np.array([n / d for n, d in case["charges"]], dtype=np.float64)
    return {"mu": _ok(lambda: ratios(md.geometry.dipole_moments(t, q)))}


# ---- option handling (arguments handed over the way a caller would: omitted, keyword strings, lists, arrays) -----
def _arr_arg(spec):
    """{"list": nested} -> the nested Python list itself; {"array": nested, "shape": [...]} -> integer ndarray;
    {"tuple": nested} -> tuple of tuples; {"str": s} -> s"""
    if "str" in spec:
        return spec["str"]
    if "list" in spec:
        return spec["list"]
    if "tuple" in spec:
        return tuple(tuple(r) if isinstance(r, list) else r for r in spec["tuple"])
    return np.array(spec["array"], dtype=int).reshape(spec["shape"])


def k_contacts_opt(case):
    t = build_traj(case)
    if not case.get("has_top", True):
        t = md.Trajectory(t.xyz, None)
    kw = {}
    for k_case, k_arg in (("scheme", "scheme"), ("ignore_nonprotein", "ignore_nonprotein"), ("periodic", "periodic"),
                          ("soft_min", "soft_min")):
        if case.get(k_case) is not None:
            kw[k_arg] = case[k_case]
    args = []
    if case.get("contacts") is not None:
        args.append(_arr_arg(case["contacts"]))
    try:
        d, pairs = md.compute_contacts(t, *args, **kw)
    except Exception as e:  # noqa: BLE001
        return err(e)
    q, resid = d2_units(d, case["unit"])
    return {"pairs": np.asarray(pairs).reshape(-1, 2).tolist(), "d2": q.tolist(), "resid": resid,
            "shape": list(d.shape)}


def k_squareform_opt(case):
    d = np.array(case["d"], dtype=np.float32).reshape(case["d_shape"])
    try:
        m = md.geometry.squareform(d, _arr_arg(case["pairs"]))
    except Exception as e:  # noqa: BLE001
        return err(e)
    return {"shape": list(m.shape), "m": np.rint(m).astype(np.int64).tolist(), "exact": bool(np.all(m == np.rint(m)))}


def k_rdf_opt(case):
    t = build_traj(case)
    kw = {}
    if case.get("r_range") is not None:
        kw["r_range"] = [n / d for n, d in case["r_range"]]
    if case.get("n_bins") is not None:
        kw["n_bins"] = case["n_bins"]
    if case.get("bin_width") is not None:
        kw["bin_width"] = case["bin_width"][0] / case["bin_width"][1]
    pairs = np.array(case["pairs"], dtype=int).reshape(-1, 2)
    out = {}
    for name, f in (("rdf", lambda: md.compute_rdf(t, pairs, **kw)),
                    ("rdf_t", lambda: md.compute_rdf_t(t, pairs, np.array([[0, 0]]), **kw))):
        try:
            r, g = f()
            out[name] = {"n": int(len(r)), "g_shape": list(np.asarray(g).shape), "r": ratios(r)}
        except Exception as e:  # noqa: BLE001
            out[name] = err(e)
    return out


def _pyv(v):
    if "int" in v:
        return int(v["int"])
    if "float" in v:
        return float(v["float"])
    if "npint" in v:
        return np.int64(v["npint"])
    if "s" in v:
        return v["s"]
    if "none" in v:
        return None
    if "ndarray" in v:
        return np.array(v["ndarray"], dtype=int)
    if "list" in v:
        return [_pyv(x) for x in v["list"]]
    if "tuple" in v:
        return tuple(_pyv(x) for x in v["tuple"])
    raise KeyError(str(v))


def k_order_opt(case):
    t = build_traj(case)
    spec = case["indices"]
    kw = {}
    if "omit" not in spec:
        kw["indices"] = spec["str"] if "str" in spec else _pyv(spec["val"])
    out = {}
    try:
        d = md.compute_directors(t, **kw)
        out["directors_shape"] = list(np.asarray(d).shape)
    except Exception as e:  # noqa: BLE001
        out["directors_err"] = err(e)
    try:
        s2 = md.compute_nematic_order(t, **kw)
        out["s2_shape"] = list(np.asarray(s2).shape)
    except Exception as e:  # noqa: BLE001
        out["s2_err"] = err(e)
    try:
        from mdtraj.geometry.order import _get_indices
        g = _get_indices(t, kw["indices"]) if kw else None
        out["groups"] = None if g is None else [[int(x) for x in grp] for grp in g]
    except Exception as e:  # noqa: BLE001
        out["groups_err"] = err(e)
    return out


def _real(a):
    a = np.asarray(a)
    if np.iscomplexobj(a):
        if np.max(np.abs(a.imag)) > 0:
            raise ValueError("complex result with non-zero imaginary part")
        a = a.real
    return a


def _indices(case):
    g = case["indices"]
    return g if isinstance(g, str) else [list(x) for x in g]


def k_inertia(case, t=None):
    t = build_traj(case) if t is None else t
    return {"I": _ok(lambda: ratios(md.compute_inertia_tensor(t)))}


def k_order(case, t=None):
    t = build_traj(case) if t is None else t
    out = {}
    try:
        d = md.compute_directors(t, indices=_indices(case))
        out["directors"] = ratios(_real(d))
        out["shape"] = list(np.asarray(d).shape)
    except Exception as e:  # noqa: BLE001
        out["directors"] = err(e)
    out["S2"] = _ok(lambda: ratios(_real(md.compute_nematic_order(t, indices=_indices(case)))))
    return out


def k_rdf_t(case, t=None):
    t = build_traj(case) if t is None else t
    kw = {"periodic": case["periodic"], "self_correlation": case["self_correlation"]}
    if case.get("r_range") is not None:
        kw["r_range"] = [n / d for n, d in case["r_range"]]
    if case.get("n_bins") is not None:
        kw["n_bins"] = case["n_bins"]
    if case.get("bin_width") is not None:
        kw["bin_width"] = case["bin_width"][0] / case["bin_width"][1]
    for k in ("period_length", "n_concurrent_pairs", "opt"):
        if case.get(k) is not None:
            kw[k] = case[k]
    try:
        r, g = md.compute_rdf_t(t, np.array(case["pairs"], dtype=int).reshape(-1, 2),
                                np.array(case["times"], dtype=int).reshape(-1, 2), **kw)
    except Exception as e:  # noqa: BLE001
        return err(e)
    return {"r": ratios(r), "g": ratios(g), "n": int(len(r)), "shape": list(np.asarray(g).shape)}


def snapshot(t):
    """the object's CURRENT state as exact data: topology rows, bonds, coordinates as integers in a power-of-two
    unit (64 when still on the 1/64 nm grid, else 2^60), orthorhombic cell lengths in the same unit"""
    from fractions import Fraction
    top = t.topology
    rows = [[r.name, r.chain.index, [[a.name, a.element.symbol] for a in r.atoms]] for r in top.residues]
    bonds = [[b[0].index, b[1].index] for b in top.bonds]
    x = np.asarray(t.xyz, dtype=np.float64)
    unit = 64
    if not np.array_equal(np.rint(x * 64), x * 64):
        unit = 2 ** 60
    xi = [[[int(Fraction(float(v)) * unit) for v in a] for a in f] for f in x]
    exact = all(Fraction(xi[f][a][k], unit) == Fraction(float(x[f, a, k])) for f in range(x.shape[0])
                for a in range(x.shape[1]) for k in range(3))
    box = None
    if t.unitcell_lengths is not None and np.all(np.abs(np.asarray(t.unitcell_angles) - 90.0) < 1e-6):
        bl = np.asarray(t.unitcell_lengths, dtype=np.float64)
        bi = [[int(Fraction(float(v)) * unit) for v in f] for f in bl]
        if all(Fraction(bi[f][k], unit) == Fraction(float(bl[f, k])) for f in range(bl.shape[0]) for k in range(3)):
            box = bi
    return {"top": rows, "bonds": bonds, "unit": unit, "xyz": xi, "exact": bool(exact), "box": box,
            "has_cell": t.unitcell_lengths is not None, "traces": t._rmsd_traces is not None}


def apply_state_op(t, op):
    """state-changing operations of a call history; returns the (possibly new) trajectory object"""
    k = op["op"]
    top = t.topology
    if k == "center":
        t.center_coordinates(mass_weighted=bool(op.get("mass_weighted", False)))
    elif k == "superpose":
        t.superpose(t, frame=op.get("frame", 0))
    elif k == "scale_axis":            # in place through the array: bypasses the xyz setter
        t.xyz[:, :, op["axis"]] *= op["factor"]
    elif k == "shift_atoms":
        t.xyz[:, op["atoms"]] += np.array(op["delta"], dtype=np.float32) / 64.0
    elif k == "swap_frames_view":
        v = t.xyz[::2]
        v[...] = v[:, ::-1]
    elif k == "set_xyz":               # through the setter
        t.xyz = (np.array(op["xyz"], dtype=np.float64) / 64.0).astype(np.float32)
    elif k == "slice":
        t = t[op["frames"]]
    elif k == "atom_slice":
        t.atom_slice(op["atoms"], inplace=True)
    elif k == "make_whole":
        t.make_molecules_whole(inplace=True)
    elif k == "image":
        t.image_molecules(inplace=True)
    elif k == "set_unitcell":
        n = t.n_frames
        t.unitcell_lengths = np.tile(np.array(op["lengths"], dtype=np.float64) / 64.0, (n, 1))
        t.unitcell_angles = np.full((n, 3), 90.0)
    elif k == "set_element":
        for a in op["atoms"]:
            top.atom(a).element = elem.get_by_symbol(op["symbol"])
    elif k == "rename_atom":
        top.atom(op["atom"]).name = op["name"]
    elif k == "rename_residue":
        top.residue(op["residue"]).name = op["name"]
    elif k == "add_bond":
        top.add_bond(top.atom(op["a"]), top.atom(op["b"]))
    else:
        raise KeyError(k)
    return t


CALLS = {}


def k_history(case):
    """one Trajectory/Topology object, a sequence of state changes and descriptor calls; every call is returned
    together with a snapshot of the state the object had when it was made"""
    t = build_traj(case)
    out = []
    for i, op in enumerate(case["ops"]):
        if op["op"] == "call":
            c = dict(op["args"])
            snap = snapshot(t)
            c["unit"] = snap["unit"]
            if c["kind"] == "contacts" and snap["unit"] != 64:
                out.append({"i": i, "skip": "offgrid", "snap": None})
                continue
            res = KINDS[c["kind"]](c, t)
            snap2 = snapshot(t)
            out.append({"i": i, "res": res, "snap": snap,
                        "mutated_by_call": snap2["xyz"] != snap["xyz"] or snap2["top"] != snap["top"]})
        else:
            try:
                t = apply_state_op(t, op)
                out.append({"i": i, "state": "ok"})
            except Exception as e:  # noqa: BLE001  (a refused state change leaves the object as it is)
                out.append({"i": i, "state": "refused", "err": type(e).__name__})
    return {"steps": out}


KINDS = {"contacts_opt": k_contacts_opt, "squareform_opt": k_squareform_opt, "rdf_opt": k_rdf_opt,
         "order_opt": k_order_opt, "dipole_pbc": k_dipole, "history": k_history, "inertia": k_inertia, "order": k_order, "rdf_t": k_rdf_t, "contacts": k_contacts, "squareform": k_squareform, "centres": k_centres, "rg": k_rg, "shape": k_shape,
         "density": k_density, "rdf": k_rdf, "drid": k_drid, "karplus": k_karplus, "dipole": k_dipole}


def main():
    payload = json.load(sys.stdin)
    res = []
    for c in payload["cases"]:
        try:
            res.append(KINDS[c["kind"]](c))
        except Exception as e:  # noqa: BLE001  (harness-side problem, reported as such)
            res.append({"harness_err": type(e).__name__, "msg": str(e)[:300]})
    print(json.dumps({"results": res}))


if __name__ == "__main__":
    main()
