(* C04: line driver around the OCaml extraction of coq/Topo/Run.v (run_case).
   One case per input line:   <11 flag bits as T/F> '|' op ';' op ';' ...
   One line of output per case: the canonical rendering of the model's observation (the same
   rendering harness/props/C04.py applies to the implementation's observation).
   Field syntax: ints decimal, ~ = None, T/F booleans, s:<text> strings, l:<i,j,...> nat lists. *)
open Topo_model

let rec nat_of_int n = if n <= 0 then O else S (nat_of_int (n - 1))
let rec pos_of_int n = if n = 1 then XH else if n land 1 = 1 then XI (pos_of_int (n lsr 1)) else XO (pos_of_int (n lsr 1))
let z_of_int n = if n = 0 then Z0 else if n > 0 then Zpos (pos_of_int n) else Zneg (pos_of_int (-n))
let rec int_of_pos = function XH -> 1 | XO p -> 2 * int_of_pos p | XI p -> 2 * int_of_pos p + 1
let int_of_z = function Z0 -> 0 | Zpos p -> int_of_pos p | Zneg p -> - (int_of_pos p)
let chars s = List.init (String.length s) (String.get s)
let str cl = String.init (List.length cl) (List.nth cl)

let opt f s = if s = "~" then None else Some (f s)
let pstr s = if String.length s >= 2 && String.sub s 0 2 = "s:" then chars (String.sub s 2 (String.length s - 2))
             else failwith ("string field expected: " ^ s)
let pnat s = nat_of_int (int_of_string s)
let pz s = z_of_int (int_of_string s)
let pbool s = (s = "T")
let plist s =
  let body = String.sub s 2 (String.length s - 2) in
  if body = "" then [] else List.map pnat (String.split_on_char ',' body)
let ptype = function
  | "Single" -> Single | "Double" -> Double | "Triple" -> Triple | "Aromatic" -> Aromatic | "Amide" -> Amide
  | s -> failwith ("bond type: " ^ s)

let parse_op (s : string) : op =
  match List.filter (fun x -> x <> "") (String.split_on_char ' ' s) with
  | ["new"] -> ONew
  | ["add_chain"; a; c] -> OAddChain (pnat a, opt pstr c)
  | ["add_residue"; a; c; n; r; g] -> OAddResidue (pnat a, pnat c, pstr n, opt pz r, pstr g)
  | ["add_atom"; a; r; n; e; z] -> OAddAtom (pnat a, pnat r, pstr n, pstr e, opt pz z)
  | ["add_bond"; a; i; j; t; o] -> OAddBond (pnat a, pnat i, pnat j, opt ptype t, opt pnat o)
  | ["insert_atom"; a; r; n; e; i; ri; z] -> OInsertAtom (pnat a, pnat r, pstr n, pstr e, opt pnat i, opt pnat ri, opt pz z)
  | ["delete"; a; i] -> ODelete (pnat a, pnat i)
  | ["copy"; a] -> OCopy (pnat a)
  | ["subset"; a; l] -> OSubset (pnat a, plist l)
  | ["join"; a; b; k] -> OJoin (pnat a, pnat b, pbool k)
  | ["pickle"; a] -> OPickle (pnat a)
  | ["df"; a] -> ODataFrame (pnat a)
  | ["h5"; a] -> OH5 (pnat a)
  | ["pdb"; a; t] -> OPdb (pnat a, pbool t)
  | _ -> failwith ("op: " ^ s)

let rec show b = function
  | JN z -> Buffer.add_string b (string_of_int (int_of_z z))
  | JS s -> Buffer.add_char b '\''; Buffer.add_string b (str s); Buffer.add_char b '\''
  | JNone -> Buffer.add_char b '~'
  | JB true -> Buffer.add_char b 'T'
  | JB false -> Buffer.add_char b 'F'
  | JL l -> Buffer.add_char b '[';
            List.iteri (fun i x -> if i > 0 then Buffer.add_char b ','; show b x) l;
            Buffer.add_char b ']'

let () =
  try
    while true do
      let line = input_line stdin in
      match String.index_opt line '|' with
      | None -> print_endline "ERR no flags"
      | Some k ->
        let fl = flags_of (List.map (fun c -> c = 'T') (chars (String.sub line 0 k))) in
        let rest = String.sub line (k + 1) (String.length line - k - 1) in
        let ops = List.map parse_op (List.filter (fun x -> String.trim x <> "") (String.split_on_char ';' rest)) in
        let b = Buffer.create 4096 in
        show b (run_case (fl, ops));
        print_endline (Buffer.contents b)
    done
  with End_of_file -> ()
