"""Implementation side of C20: run save / md.open on paths with pre-existing content and hash everything.

stdin : {"cases":[{"ext","entry":"save"|"open"|"open_only","pre":0..4,"pre_at":0..3,"frames":1|3,"force":bool}],
         "reads":[{"ext","op"}]}
stdout: last line JSON {"cases":[{"raised":cls|null,"status":[s0..s3],"stray":[..],"loaded":..,"detail":..}],
                        "reads":[{"changed":bool,"new_files":[..],"err":..}]}

status of the paths  t.<ext>, t.<ext>.1, t.<ext>.2, t.<ext>.3  after the operation:
  Unchanged  same kind and sha256 as before (or absent before and after)
  Absent     existed before, gone now
  NewExact   a regular file that equals what the same operation produces at a fresh path (byte-identical; for
             containers that embed timestamps: same size and it loads to exactly the new frames), and loads to
             exactly the frames written
  NewDir     same for a directory (dtr)
  Other      anything else (e.g. old and new content mixed)
pre: 0 absent, 1 valid file of the same format (2 frames), 2 longer valid file (12 frames / more atoms),
     3 unrelated bytes (64 KiB), 4 a directory with a file inside.
"""
import gzip
import hashlib
import json
import os
import shutil
import sys
import warnings

import numpy as np

warnings.filterwarnings("ignore")
import mdtraj as md  # noqa: E402

NEEDS_TOP = {"xtc", "trr", "dcd", "nc", "netcdf", "ncdf", "ncrst", "crd", "mdcrd", "lammpstrj", "xyz", "xyz.gz",
             "rst7", "dtr"}
SINGLE_FRAME = {"rst7", "ncrst"}
# containers whose bytes embed creation times or names: compared by size + reload instead of sha256
NONDETERMINISTIC = {"h5", "pdb.gz", "xyz.gz", "dtr", "dcd", "nc", "netcdf", "ncdf", "ncrst"}


def make_top(n_atoms, bonds=False):
    top = md.Topology()
    ch = top.add_chain()
    atoms = []
    for a in range(n_atoms):
        res = top.add_residue("ALA", ch, resSeq=a + 1)
        atoms.append(top.add_atom("CA", md.element.carbon, res))
    if bonds:
        for a, b in zip(atoms, atoms[1:]):
            top.add_bond(a, b)
    return top


def make_traj(ids, n_atoms=4, variant=None):
    """variant (the branches inside Trajectory.save_* depend on what the trajectory carries):
    {"cell": False} no unit cell, {"time": False} default time, {"bonds": True} a bonded topology"""
    v = variant or {}
    T = len(ids)
    xyz = np.zeros((T, n_atoms, 3), dtype=np.float32)
    for k, i in enumerate(ids):
        for a in range(n_atoms):
            xyz[k, a] = ((i + 1) * 0.1, (a + 1) * 0.1, 0.05)
    top = make_top(n_atoms, bonds=bool(v.get("bonds")))
    if v.get("time", True):
        t = md.Trajectory(xyz, top, time=np.array(ids, dtype=np.float32))
    else:
        t = md.Trajectory(xyz, top)
    if v.get("cell", True):
        t.unitcell_lengths = np.full((T, 3), 20.0, dtype=np.float32)
        t.unitcell_angles = np.full((T, 3), 90.0, dtype=np.float32)
    return t


def frame_ids(t):
    out = []
    for fr in t.xyz:
        v = float(fr[0, 0]) * 10.0 - 1.0
        r = int(round(v))
        out.append(r if abs(v - r) < 0.05 else -1)
    return out


def load_any(path, ext, n_atoms=4):
    if path[-1].isdigit() and ext == "rst7":
        return md.load_restrt(path, top=make_top(n_atoms))
    if path[-1].isdigit() and ext == "ncrst":
        return md.load_ncrestrt(path, top=make_top(n_atoms))
    if ext in NEEDS_TOP:
        return md.load(path, top=make_top(n_atoms))
    return md.load(path)


def sha_file(p):
    h = hashlib.sha256()
    with open(p, "rb") as fh:
        for b in iter(lambda: fh.read(1 << 20), b""):
            h.update(b)
    return h.hexdigest()


def snap(p):
    """(kind, digest, size)"""
    if os.path.islink(p):
        return ("link", os.readlink(p), 0)
    if os.path.isdir(p):
        h = hashlib.sha256()
        tot = 0
        for root, ds, fs in sorted(os.walk(p)):
            ds.sort()
            for fn in sorted(fs):
                q = os.path.join(root, fn)
                h.update(os.path.relpath(q, p).encode() + b"\0" + sha_file(q).encode() + b"\n")
                tot += os.path.getsize(q)
            for dn in ds:
                h.update(os.path.relpath(os.path.join(root, dn), p).encode() + b"/\n")
        return ("dir", h.hexdigest(), tot)
    if os.path.exists(p):
        return ("file", sha_file(p), os.path.getsize(p))
    return None


def content_digest(p, ext):
    """digest of the payload with container noise removed (gzip header carries mtime and name)"""
    if ext.endswith(".gz") and os.path.isfile(p):
        try:
            with gzip.open(p, "rb") as fh:
                return hashlib.sha256(fh.read()).hexdigest()
        except Exception:
            return None
    return None


def writer_call(f, ext, t):
    """md.open(...,'w') handle: write the frames of t with the format's own argument names"""
    A = 10.0
    if ext in ("xtc", "trr"):
        f.write(xyz=t.xyz, time=t.time, box=t.unitcell_vectors)
    elif ext == "dcd":
        f.write(xyz=t.xyz * A, cell_lengths=t.unitcell_lengths * A, cell_angles=t.unitcell_angles)
    elif ext == "dtr":
        f.write(xyz=t.xyz * A, cell_lengths=t.unitcell_lengths * A, cell_angles=t.unitcell_angles, times=t.time)
    elif ext == "h5":
        f.write(coordinates=t.xyz, time=t.time, cell_lengths=t.unitcell_lengths, cell_angles=t.unitcell_angles)
        f.topology = t.topology
    elif ext in ("nc", "netcdf", "ncdf"):
        f.write(coordinates=t.xyz * A, time=t.time, cell_lengths=t.unitcell_lengths * A, cell_angles=t.unitcell_angles)
    elif ext in ("ncrst", "rst7"):
        f.write(coordinates=t.xyz[0] * A, time=float(t.time[0]), cell_lengths=t.unitcell_lengths[0] * A,
                cell_angles=t.unitcell_angles[0])
    elif ext in ("crd", "mdcrd"):
        f.write(xyz=t.xyz * A, cell_lengths=t.unitcell_lengths * A)
    elif ext == "lammpstrj":
        f.write(xyz=t.xyz * A, cell_lengths=t.unitcell_lengths * A, cell_angles=t.unitcell_angles)
    elif ext in ("xyz", "xyz.gz"):
        f.write(xyz=t.xyz * A, types=[a.name for a in t.topology.atoms])
    elif ext == "gro":
        f.write(t.xyz, t.topology, t.time, t.unitcell_vectors)
    elif ext in ("pdb", "pdb.gz"):
        for i in range(t.n_frames):
            f.write(t.xyz[i] * A, t.topology, modelIndex=i, unitcell_lengths=t.unitcell_lengths[i] * A,
                    unitcell_angles=t.unitcell_angles[i])
    else:
        raise RuntimeError("no writer for " + ext)


class PathLikeWrapper(os.PathLike):
    """an os.PathLike that is neither str nor pathlib.Path"""

    def __init__(self, p):
        self._p = p

    def __fspath__(self):
        return self._p


def path_arg(base, kind):
    """the object handed to mdtraj for the path `base` (a str)"""
    import pathlib
    if kind in ("str", "weird"):
        return base
    if kind == "path":
        return pathlib.Path(base)
    if kind == "pathlike":
        return PathLikeWrapper(base)
    if kind == "bytes":
        return os.fsencode(base)
    if kind == "rel":
        return os.path.basename(base)          # the caller has chdir'ed into the directory
    if kind == "slash":
        return base + "/"
    # spellings that differ from their resolved form (the caller prepares HOME / cwd / links)
    d, name = os.path.dirname(base), os.path.basename(base)
    if kind == "tilde":
        return "~/" + name                     # HOME is the directory of base
    if kind == "dot":
        return "./" + name                     # cwd is the directory of base
    if kind == "dotdot":
        return os.path.join(d, "sub", "..", name)
    if kind == "dirdot":
        return d + "/./" + name
    if kind == "symdir":
        return os.path.join(d + "_lnk", name)  # d_lnk -> d
    if kind == "symfile":
        return os.path.join(d, "l." + name.split(".", 1)[1])   # l.<ext> -> t.<ext>
    raise RuntimeError("kind " + kind)


def prepare_spelling(base, kind):
    d = os.path.dirname(base)
    if kind == "dotdot":
        os.makedirs(os.path.join(d, "sub"), exist_ok=True)
    elif kind == "symdir":
        if not os.path.islink(d + "_lnk"):
            os.symlink(d, d + "_lnk")
    elif kind == "symfile":
        l = path_arg(base, kind)
        if not os.path.islink(l):
            os.symlink(base, l)


def do_action(case, base, kind="str"):
    ext, entry, frames, force = case["ext"], case["entry"], case["frames"], case["force"]
    new = make_traj(list(range(frames)), variant=case.get("traj"))
    cwd = os.getcwd()
    home = os.environ.get("HOME")
    try:
        if kind in ("rel", "dot"):
            os.chdir(os.path.dirname(base))
        if kind == "tilde":
            os.environ["HOME"] = os.path.dirname(base)
        prepare_spelling(base, kind)
        arg = path_arg(base, kind)
        if entry == "save":
            new.save(arg, force_overwrite=force)
        elif entry == "open":
            f = md.open(arg, "w", force_overwrite=force)
            try:
                writer_call(f, ext, new)
            finally:
                f.close()
        elif entry == "open_only":
            f = md.open(arg, "w", force_overwrite=force)
            f.close()
        elif entry == "class":
            from mdtraj.formats.registry import FormatRegistry
            cls = FormatRegistry.fileobjects["." + ext]
            f = cls(arg, mode="w", force_overwrite=force)
            try:
                writer_call(f, ext, new)
            finally:
                f.close()
        else:
            raise RuntimeError("entry " + entry)
        return None, None
    except BaseException as e:  # noqa: BLE001
        if isinstance(e, (KeyboardInterrupt, SystemExit)):
            raise
        return type(e).__name__, str(e)[:200]
    finally:
        os.chdir(cwd)
        if home is not None:
            os.environ["HOME"] = home


def place_pre(case, d, path):
    ext, pre = case["ext"], case["pre"]
    if pre == 0:
        return
    if pre in (1, 2):
        scratch = os.path.join(d, "_old")
        os.makedirs(scratch)
        if ext in SINGLE_FRAME:
            old = make_traj([50], n_atoms=4 if pre == 1 else 40)
        else:
            old = make_traj([50, 51] if pre == 1 else list(range(50, 62)))
        q = os.path.join(scratch, "o." + ext)
        old.save(q)
        os.rename(q, path)
        shutil.rmtree(scratch)
    elif pre == 3:
        with open(path, "wb") as fh:
            fh.write(b"unrelated bytes, not a trajectory\n" * 2048)
    elif pre == 4:
        os.makedirs(path)
        with open(os.path.join(path, "inner.txt"), "w") as fh:
            fh.write("keep me\n")


def observed_paths(base):
    return [base] + ["%s.%d" % (base, i) for i in (1, 2, 3)]


def run_case(case, root, idx):
    ext = case["ext"]
    kind = case.get("arg", "str")
    top = os.path.join(root, "c%d" % idx)
    d = os.path.join(top, "My Dir.v1.2", "Sub dir") if kind == "weird" else top
    r = os.path.join(root, "r%d" % idx)
    os.makedirs(d)
    os.makedirs(r)
    base = os.path.join(d, "t." + ext)
    rbase = os.path.join(r, "t." + ext)
    pre_path = base if case["pre_at"] == 0 else "%s.%d" % (base, case["pre_at"])
    place_pre(case, d, pre_path)
    before = [snap(p) for p in observed_paths(base)]
    cwd_before = set(os.listdir(os.getcwd()))
    raised, msg = do_action(case, base, kind)
    after = [snap(p) for p in observed_paths(base)]
    link_state, load0 = None, None
    if kind == "symfile":
        l = path_arg(base, kind)
        link_state = "link" if os.path.islink(l) else ("file" if os.path.lexists(l) else "gone")
        if link_state == "file" and after[0] == before[0]:
            # the link was replaced by a regular file holding the new content (unlink + create): report the
            # spelled path in place of the resolved one, whose content is untouched
            after[0] = snap(l)
            load0 = l
    stray_cwd = sorted(set(os.listdir(os.getcwd())) - cwd_before)
    for x in stray_cwd:
        q = os.path.join(os.getcwd(), x)
        if os.path.isdir(q):
            shutil.rmtree(q, ignore_errors=True)
        else:
            os.unlink(q)
    # reference: the same operation at a fresh path
    rraised, _ = do_action(case, rbase)
    ref = [snap(p) for p in observed_paths(rbase)]
    status, detail = [], []
    plain = False
    frames = case["frames"]
    for i, p in enumerate(observed_paths(base)):
        if i == 0 and load0:
            p = load0
        b, a, rf = before[i], after[i], ref[i]
        if a == b:
            status.append("Unchanged")
            continue
        if a is None:
            status.append("Absent")
            continue
        st = "Other"
        why = ""
        if rf is not None and a[0] == rf[0]:
            same = a[1] == rf[1]
            if not same and ext in NONDETERMINISTIC:
                same = a[2] == rf[2]
                if ext.endswith(".gz"):
                    mine = content_digest(p, ext)
                    if mine is None and os.path.isfile(p):
                        # not gzip at all (open_maybe_zipped does not recognise the suffix of a bytes path):
                        # the payload is then the file itself
                        mine = sha_file(p)
                    same = mine == content_digest(observed_paths(rbase)[i], ext) and mine is not None
                    plain = content_digest(p, ext) is None
            if same and case["entry"] != "open_only":
                # must also load to exactly the frames written into this path
                want = list(range(frames)) if i == 0 else [i - 1]
                if case["entry"] in ("open", "class") and ext in SINGLE_FRAME:
                    want = [0]
                try:
                    if plain:
                        # load the uncompressed payload under its real format
                        q = p + ".plain." + ext[:-3]
                        shutil.copy(p, q)
                        try:
                            got = frame_ids(load_any(q, ext[:-3]))
                        finally:
                            os.unlink(q)
                    else:
                        got = frame_ids(load_any(p, ext))
                except Exception as e:  # noqa: BLE001
                    got = "load failed: %s" % type(e).__name__
                if got != want:
                    same = False
                    why = "loads to %s, wanted %s" % (got, want)
            elif not same:
                why = "differs from a fresh write (size %d vs %d)" % (a[2], rf[2])
            if same:
                st = "NewDir" if a[0] == "dir" else "NewExact"
        else:
            why = "kind %s, fresh write gives %s" % (a[0], rf[0] if rf else None)
        status.append(st)
        if why:
            detail.append("path %d: %s" % (i, why))
    known = set(os.path.basename(p) for p in observed_paths(base)) | {"sub"}
    if kind == "symfile":
        known.add(os.path.basename(path_arg(base, kind)))
    if os.path.islink(d + "_lnk"):
        os.unlink(d + "_lnk")
    stray = sorted(x for x in os.listdir(d) if x not in known)
    shutil.rmtree(top, ignore_errors=True)
    shutil.rmtree(r, ignore_errors=True)
    return {"raised": raised, "msg": msg, "status": status, "stray": stray, "detail": detail,
            "ref_raised": rraised, "stray_cwd": [x[:60] for x in stray_cwd], "link_state": link_state}


# ------------------------------------------------------------------ numbered restart series
def run_series(case, root, idx):
    """Trajectory.save of an N-frame trajectory as .rst7 / .ncrst (N numbered files, numbers zero-padded to the width of
    N) into a directory that already holds some files: at padded target names, at unpadded or differently padded names
    (NOT targets) and at the base name (not a target either).  Every file of the directory is hashed before/after."""
    ext, N, force = case["ext"], case["frames"], case["force"]
    d = os.path.join(root, "s%d" % idx)
    os.makedirs(d)
    base = os.path.join(d, "t." + ext)
    width = len(str(N))
    targets = {"t.%s.%0*d" % (ext, width, k): k for k in range(1, N + 1)} if N > 1 else {"t." + ext: 1}
    scratch = os.path.join(root, "s%d_old" % idx)
    os.makedirs(scratch)
    for j, (suffix, kind) in enumerate(case["pre"]):
        q = base + suffix
        if kind == "valid":
            tmp = os.path.join(scratch, "o%d.%s" % (j, ext))
            make_traj([50 + j]).save(tmp)
            os.rename(tmp, q)
        else:
            with open(q, "wb") as fh:
                fh.write(b"unrelated bytes %d\n" % j * 64)
    shutil.rmtree(scratch)
    before = {x: sha_file(os.path.join(d, x)) for x in os.listdir(d)}
    raised = msg = None
    try:
        make_traj(list(range(N))).save(base, force_overwrite=force)
    except BaseException as e:  # noqa: BLE001
        if isinstance(e, (KeyboardInterrupt, SystemExit)):
            raise
        raised, msg = type(e).__name__, str(e)[:160]
    after = {x: sha_file(os.path.join(d, x)) for x in os.listdir(d)}
    changed = sorted(x for x in before if after.get(x) != before[x])
    stray = sorted(x for x in after if x not in before and x not in targets)
    created = sorted(x for x in after if x not in before and x in targets)
    # which targets hold exactly their frame now (all of them for short series, a sample + the pre-existing ones else)
    check = sorted(targets) if N <= 12 else sorted({n for n, k in targets.items() if k in (1, 2, N // 2, N - 1, N)} |
                                                   {x for x in before if x in targets})
    bad_targets = []
    for name in check:
        k = targets[name]
        q = os.path.join(d, name)
        if not os.path.exists(q):
            bad_targets.append([name, "missing"])
            continue
        try:
            got = frame_ids(md.load_restrt(q, top=make_top(4)) if ext == "rst7" else md.load_ncrestrt(q, top=make_top(4)))
        except Exception as e:  # noqa: BLE001
            got = "load failed: %s" % type(e).__name__
        if got != [k - 1]:
            bad_targets.append([name, got])
    shutil.rmtree(d, ignore_errors=True)
    return {"raised": raised, "msg": msg, "changed": changed, "stray": stray, "n_created": len(created),
            "pre_targets": sorted(x for x in before if x in targets), "pre_other": sorted(x for x in before if x not in targets),
            "bad_targets": bad_targets, "n_targets": len(targets)}


# ------------------------------------------------------------------ modes other than 'w'
def run_mode(case, root, idx):
    """md.open(path, mode, force_overwrite) + write + close, or Trajectory.save_hdf5(path, mode=..), on a path with
    pre-existing content.  status: 0 unchanged, 1 old frames followed by the new ones, 2 created with exactly the
    new frames, 3 anything else"""
    ext, mode, pre, force = case["ext"], case["mode"], case["pre"], case["force"]
    d = os.path.join(root, "m%d" % idx)
    os.makedirs(d)
    base = os.path.join(d, "t." + ext)
    place_pre({"ext": ext, "pre": pre}, d, base)
    before = snap(base)
    old_ids = {1: [50] if ext in SINGLE_FRAME else [50, 51], 2: [50] if ext in SINGLE_FRAME else list(range(50, 62))}.get(pre)
    head = None
    if pre == 3:
        with open(base, "rb") as fh:
            head = fh.read()
    new = make_traj([0] if ext in SINGLE_FRAME else [0, 1])
    raised = msg = None
    try:
        if case["entry"] == "save_mode":
            new.save_hdf5(base, mode=mode, force_overwrite=force)
        else:
            f = md.open(base, mode, force_overwrite=force)
            try:
                writer_call(f, ext, new)
            finally:
                f.close()
    except BaseException as e:  # noqa: BLE001
        if isinstance(e, (KeyboardInterrupt, SystemExit)):
            raise
        raised, msg = type(e).__name__, str(e)[:160]
    after = snap(base)
    detail = ""
    if after == before:
        status = 0
    else:
        status = 3
        try:
            got = frame_ids(load_any(base, ext))
        except Exception as e:  # noqa: BLE001
            got = "load failed: %s" % type(e).__name__
        want_new = frame_ids(new)
        if before is None and got == want_new:
            status = 2
        elif old_ids is not None and got == old_ids + want_new:
            status = 1
        detail = "loads to %s" % (got,)
    prefix_kept = None
    if head is not None and os.path.isfile(base):
        with open(base, "rb") as fh:
            prefix_kept = fh.read(len(head)) == head
    stray = sorted(x for x in os.listdir(d) if x != os.path.basename(base))
    shutil.rmtree(d, ignore_errors=True)
    return {"raised": raised, "msg": msg, "status": status, "detail": detail, "prefix_kept": prefix_kept, "stray": stray}


# ------------------------------------------------------------------ read entry points
def dir_snapshot(d):
    out = {}
    for root, ds, fs in os.walk(d):
        for fn in fs:
            q = os.path.join(root, fn)
            out[os.path.relpath(q, d)] = (sha_file(q), os.stat(q).st_mtime_ns)
        for dn in ds:
            out[os.path.relpath(os.path.join(root, dn), d) + "/"] = "dir"
    return out


def run_read(case, root, idx):
    ext, op = case["ext"], case["op"]
    d = os.path.join(root, "rd%d" % idx)
    os.makedirs(d)
    p = os.path.join(d, "t." + ext)
    T = 1 if ext in SINGLE_FRAME else 5
    make_traj(list(range(T))).save(p)
    top = make_top(4)
    before = dir_snapshot(d)
    err = None
    refused = None
    kw = {"top": top} if ext in NEEDS_TOP else {}
    okw = {"n_atoms": 4} if ext in ("crd", "mdcrd") else {}
    try:
        if op == "fmt_loader":
            # the registered load function of the format, called directly
            from mdtraj.formats.registry import FormatRegistry
            FormatRegistry.loaders["." + ext](p, **kw)
        elif op == "write_on_read_handle":
            # an object opened for reading must refuse write() and leave the file alone
            f = md.open(p, **okw)
            try:
                try:
                    writer_call(f, ext, make_traj([7, 8]))
                    refused = False
                except BaseException as e:  # noqa: BLE001
                    if isinstance(e, (KeyboardInterrupt, SystemExit)):
                        raise
                    refused = True
            finally:
                f.close()
        elif op == "with_read_partial":
            with md.open(p, **okw) as f:
                f.read(1)
            with md.open(p, "r", **okw) as f:
                pass
        elif op == "seek_back":
            # read forward, then seek backwards (the text formats re-open the file to do that), relative seeks, len()
            f = md.open(p, **okw)
            try:
                for step in (lambda: f.read(2), lambda: f.seek(0), lambda: f.read(1), lambda: f.seek(1, 0),
                             lambda: f.seek(-1, 1), lambda: len(f), lambda: f.read(), lambda: f.seek(0), lambda: f.read(1)):
                    try:
                        step()
                    except Exception:  # noqa: BLE001
                        pass
            finally:
                f.close()
        elif op == "load_list":
            md.load([p, p], **kw)
        elif op == "iterload_opts":
            # (skip>0 with stride>1 never terminates for xtc, stride>1 with atom_indices overruns a buffer in
            # trr.pyx: both recorded by C02, not used here)
            for _ in md.iterload(p, chunk=2, stride=2, **kw):
                pass
            for _ in md.iterload(p, chunk=2, atom_indices=[0, 1], **kw):
                pass
            for _ in md.iterload(p, chunk=3, skip=1, **kw):
                pass
            for _ in md.iterload(p, chunk=0, **kw):
                pass
        elif op == "load":
            md.load(p, **kw)
        elif op == "load_stride":
            md.load(p, stride=2, **kw)
        elif op == "load_atoms":
            # (stride>1 together with atom_indices overruns a buffer in trr.pyx:_read; reported to C02, not used here)
            md.load(p, atom_indices=[0, 2], **kw)
        elif op == "load_frame":
            md.load_frame(p, 0, **kw)
        elif op == "iterload":
            for _ in md.iterload(p, chunk=2, **kw):
                pass
        elif op == "open_read":
            if ext in ("crd", "mdcrd"):
                f = md.open(p, n_atoms=4)
            else:
                f = md.open(p)
            try:
                f.read()
            finally:
                f.close()
        elif op == "open_force_true":
            # mode 'r' with force_overwrite=True must still be read-only
            if ext in ("crd", "mdcrd"):
                f = md.open(p, "r", force_overwrite=True, n_atoms=4)
            else:
                f = md.open(p, "r", force_overwrite=True)
            f.close()
        elif op == "len_seek":
            f = md.open(p, n_atoms=4) if ext in ("crd", "mdcrd") else md.open(p)
            try:
                try:
                    len(f)
                except Exception:  # noqa: BLE001
                    pass
                try:
                    f.seek(0)
                    f.tell()
                except Exception:  # noqa: BLE001
                    pass
            finally:
                f.close()
        elif op == "load_topology":
            if ext in ("pdb", "pdb.gz", "h5", "gro"):
                md.load_topology(p)
        else:
            raise RuntimeError("op " + op)
    except BaseException as e:  # noqa: BLE001
        if isinstance(e, (KeyboardInterrupt, SystemExit)):
            raise
        err = "%s: %s" % (type(e).__name__, str(e)[:120])
    after = dir_snapshot(d)
    changed = sorted(k for k in before if k not in after or after[k][0] != before[k][0])
    touched = sorted(k for k in before if k in after and after[k][0] == before[k][0] and after[k] != before[k])
    new_files = sorted(k for k in after if k not in before)
    shutil.rmtree(d, ignore_errors=True)
    return {"changed": changed, "touched": touched, "new_files": new_files, "err": err, "refused": refused}


def main():
    payload = json.load(sys.stdin)
    root = os.path.join(os.getcwd(), "ow_%d" % os.getpid())
    os.makedirs(root)
    out = {"cases": [], "reads": [], "modes": [], "series": []}
    try:
        for i, c in enumerate(payload.get("series", [])):
            out["series"].append(run_series(c, root, i))
        for i, c in enumerate(payload.get("modes", [])):
            out["modes"].append(run_mode(c, root, i))
        for i, c in enumerate(payload.get("cases", [])):
            out["cases"].append(run_case(c, root, i))
        for i, c in enumerate(payload.get("reads", [])):
            out["reads"].append(run_read(c, root, i))
    finally:
        shutil.rmtree(root, ignore_errors=True)
    print(json.dumps(out))


if __name__ == "__main__":
    main()
