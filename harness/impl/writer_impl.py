"""Implementation side of C19: run write histories through md.open(path, 'w'|'a') and load the result.

stdin : {"cases":[{"fmt":..,"mode":"w"|"a","pre":[ids],"ops":[op..]}]}
   op = ["write", [frame ids], cell?, time?, n_atoms] | ["flush"] | ["close"] | ["crash", "exit"|"kill"]
stdout: last line JSON {"cases":[{"ops":[{"ok":true}|{"err":cls}..], "load":{...}|{"load_err":cls}, "crashed":bool}]}

Frame i has xyz[i,a,:] = ((i+1)*0.1, (a+1)*0.1, 0.05) nm, time i ps, cubic cell of length i+2 nm, so that a frame
read back *is* its identifier in every field.  A case that contains a crash op is executed in a child process
(this same script with --child) which terminates abruptly at that point; the parent then loads the file.
mode "a" (h5 only): the file first receives the frames `pre` (with cell and time) in a separate open/close.
"""
import json
import os
import signal
import subprocess
import sys
import warnings

import numpy as np

warnings.filterwarnings("ignore")
import mdtraj as md  # noqa: E402

A = 10.0
NEEDS_TOP = {"xtc", "trr", "dcd", "nc", "mdcrd", "lammpstrj", "xyz", "dtr"}
HAS_TIME = {"h5", "nc", "xtc", "trr", "gro", "dtr"}
SQUEEZABLE = {"h5", "nc", "xtc", "trr", "dcd", "mdcrd", "lammpstrj", "dtr"}   # write() documents add_newaxis_on_deficient_ndim
HAS_CELL = {"h5", "nc", "xtc", "trr", "gro", "dtr", "dcd", "mdcrd", "lammpstrj", "pdb"}


def make_top(n_atoms):
    top = md.Topology()
    ch = top.add_chain()
    for a in range(n_atoms):
        res = top.add_residue("ALA", ch, resSeq=a + 1)
        top.add_atom("CA", md.element.carbon, res)
    return top


def arrays(ids, n_atoms):
    T = len(ids)
    xyz = np.zeros((T, n_atoms, 3), dtype=np.float32)
    for k, i in enumerate(ids):
        for a in range(n_atoms):
            xyz[k, a] = ((i + 1) * 0.1, (a + 1) * 0.1, 0.05)
    time = np.array(ids, dtype=np.float32)
    lengths = np.array([[i + 2.0] * 3 for i in ids], dtype=np.float32).reshape(T, 3)
    angles = np.full((T, 3), 90.0, dtype=np.float32)
    for k, i in enumerate(ids):
        if is_sheared(i):
            angles[k] = SHEAR_ANGLES
    return xyz, time, lengths, angles


# per-frame cell KIND: with case["shear"] = "odd" / "even" the frames whose id is odd / even have a triclinic cell, the
# others an orthogonal one, so that the kind of cell changes inside one write call and between calls
SHEAR = None
SHEAR_ANGLES = (85.0, 80.0, 75.0)


def is_sheared(i):
    return (SHEAR == "odd" and i % 2 == 1) or (SHEAR == "even" and i % 2 == 0)


def boxes(L, ang):
    """box vectors of each frame from lengths and angles"""
    from mdtraj.utils.unitcell import lengths_and_angles_to_box_vectors
    L, ang = np.atleast_2d(L), np.atleast_2d(ang)
    out = np.zeros((len(L), 3, 3), dtype=np.float32)
    for k in range(len(L)):
        if np.allclose(ang[k], 90.0):
            out[k] = np.diag(L[k])
        else:
            v = lengths_and_angles_to_box_vectors(*[float(x) for x in L[k]], *[float(x) for x in ang[k]])
            out[k] = np.array(v, dtype=np.float32)
    return out


def do_write(f, fmt, ids, cell, time, n_atoms, squeeze=False):
    """squeeze: a single frame handed over without the leading frame axis (xyz (n_atoms, 3), scalar time, cell (3,)),
    the shape in which mdtraj's reporters call write() once per report"""
    xyz, t, L, ang = arrays(ids, n_atoms)
    if squeeze and len(ids) == 1 and fmt in SQUEEZABLE:
        xyz, t, L, ang = xyz[0], t[0], L[0], ang[0]
        if fmt in ("xtc", "trr"):
            f.write(xyz=xyz, time=t if time else None, box=boxes(L, ang)[0] if cell else None)
            return
    if fmt in ("xtc", "trr"):
        box = boxes(L, ang) if cell else None
        f.write(xyz=xyz, time=t if time else None, box=box)
    elif fmt == "dcd":
        f.write(xyz=xyz * A, cell_lengths=L * A if cell else None, cell_angles=ang if cell else None)
    elif fmt == "dtr":
        f.write(xyz=xyz * A, cell_lengths=L * A if cell else None, cell_angles=ang if cell else None,
                times=t if time else None)
    elif fmt == "h5":
        f.write(coordinates=xyz, time=t if time else None, cell_lengths=L if cell else None,
                cell_angles=ang if cell else None)
    elif fmt == "nc":
        f.write(coordinates=xyz * A, time=t if time else None, cell_lengths=L * A if cell else None,
                cell_angles=ang if cell else None)
    elif fmt == "mdcrd":
        f.write(xyz=xyz * A, cell_lengths=L * A if cell else None)
    elif fmt == "lammpstrj":
        f.write(xyz=xyz * A, cell_lengths=L * A if cell else None, cell_angles=ang if cell else None)
    elif fmt == "xyz":
        f.write(xyz=xyz * A)
    elif fmt == "gro":
        vec = boxes(L, ang) if cell else None
        f.write(xyz, make_top(n_atoms), t if time else None, vec)
    elif fmt == "pdb":
        top = make_top(n_atoms)
        for k, i in enumerate(ids):
            f.write(xyz[k] * A, top, modelIndex=i, unitcell_lengths=L[k] * A if cell else None,
                    unitcell_angles=ang[k] if cell else None)
    else:
        raise RuntimeError("fmt " + fmt)


# ------------------------------------------------------------------ the live-output path (mdtraj/reporters)
class _Quantity:
    """stand-in for openmm.unit.Quantity: the numbers are already in the unit the file object asks for"""

    def __init__(self, v):
        self._v = np.asarray(v)

    def __getitem__(self, k):
        return _Quantity(self._v[k])

    def value_in_unit(self, _unit):
        return self._v


class _Time(float):
    unit = "picoseconds"

    def value_in_unit(self, _unit):
        return float(self)


class _Units:
    def __getattr__(self, name):
        return name


class _State:
    def __init__(self, i, n_atoms, scale):
        xyz, t, L, _ang = arrays([i], n_atoms)
        self._xyz, self._t, self._box = xyz[0] * scale, float(t[0]), np.diag(L[0]) * scale

    def getPositions(self, asNumpy=True):
        return _Quantity(self._xyz)

    def getTime(self):
        return _Time(self._t)

    def getPeriodicBoxVectors(self, asNumpy=True):
        return _Quantity(self._box)


class _System:
    def __init__(self, n):
        self._n = n

    def getNumParticles(self):
        return self._n


class _Simulation:
    def __init__(self, n_atoms):
        self.currentStep = 0
        self.system = _System(n_atoms)
        self.topology = None


def make_reporter(fmt, path, cell, time, append=False):
    """DCDReporter / NetCDFReporter / XTCReporter on `path`, with OpenMM's unit module replaced by a stand-in (OpenMM is
    not installed; the reporters only use it to strip units).  HDF5Reporter needs an OpenMM topology: not driven."""
    import mdtraj.reporters.basereporter as br
    import mdtraj.reporters.xtcreporter as xr
    br.OPENMM_IMPORTED = True
    br.units = _Units()
    xr.OPENMM_IMPORTED = True
    xr.units = _Units()
    import mdtraj.reporters.netcdfreporter as nr
    if hasattr(nr, "OPENMM_IMPORTED"):
        nr.OPENMM_IMPORTED = True
    from mdtraj.reporters import DCDReporter, NetCDFReporter, XTCReporter
    if fmt == "dcd":
        return DCDReporter(path, 1)
    if fmt == "nc":
        return NetCDFReporter(path, 1, time=time, cell=cell)
    if fmt == "xtc":
        return XTCReporter(path, 1, append=True) if append else XTCReporter(path, 1)
    raise RuntimeError("no reporter for " + fmt)


def run_reporter_ops(case, path):
    """the same op list, driven through a reporter: every single-frame write op is one report() (which writes one
    frame without the frame axis and flushes), flush ops are the reporter's own business, close closes the reporter"""
    fmt = case["fmt"]
    out = []
    first = [op for op in case["ops"] if op[0] == "write"]
    cell, time = (first[0][2], first[0][3]) if first else (True, True)
    append = case.get("mode", "w") == "a"
    if append:
        # an earlier run wrote and closed these frames; XTCReporter(append=True) is to continue the file
        with md.open(path, "w") as f0:
            do_write(f0, fmt, case["pre"], True, True, 4)
    rep = make_reporter(fmt, path, cell, time, append=append)
    sim = _Simulation(4)
    scale = A if rep._traj_file.distance_unit == "angstroms" else 1.0
    closed = False
    for op in case["ops"]:
        k = op[0]
        try:
            if k == "write":
                for i in op[1]:
                    sim.currentStep += 1
                    rep.report(sim, _State(i, op[4], scale))
            elif k == "close":
                rep.close()
                closed = True
            elif k == "crash":
                sys.stdout.flush()
                if op[1] == "exit":
                    os._exit(9)
                os.kill(os.getpid(), signal.SIGKILL)
            out.append({"ok": True})
        except BaseException as e:  # noqa: BLE001
            if isinstance(e, (KeyboardInterrupt, SystemExit)):
                raise
            out.append({"err": type(e).__name__, "msg": str(e)[:120]})
    if not closed:
        try:
            rep.close()
        except Exception as e:  # noqa: BLE001
            out.append({"err": type(e).__name__, "msg": "close: " + str(e)[:100]})
    return out


def run_ops(case, path):
    global SHEAR
    SHEAR = case.get("shear")
    if case.get("via") == "reporter":
        return run_reporter_ops(case, path)
    fmt = case["fmt"]
    out = []
    if case.get("mode", "w") == "a":
        with md.open(path, "w") as f0:
            do_write(f0, fmt, case["pre"], True, True, 4)
        f = md.open(path, "a")
    else:
        f = md.open(path, "w")
    closed = False
    for op in case["ops"]:
        k = op[0]
        try:
            if k == "write":
                do_write(f, fmt, op[1], op[2], op[3], op[4], squeeze=len(op) > 5 and bool(op[5]))
            elif k == "flush":
                if hasattr(f, "flush"):
                    f.flush()
            elif k == "close":
                f.close()
                closed = True
            elif k == "crash":
                sys.stdout.flush()
                if op[1] == "exit":
                    os._exit(9)
                os.kill(os.getpid(), signal.SIGKILL)
            out.append({"ok": True})
        except BaseException as e:  # noqa: BLE001
            if isinstance(e, (KeyboardInterrupt, SystemExit)):
                raise
            out.append({"err": type(e).__name__, "msg": str(e)[:120]})
    if not closed:
        try:
            f.close()
        except Exception as e:  # noqa: BLE001
            out.append({"err": type(e).__name__, "msg": "close: " + str(e)[:100]})
    return out


def observe(path, fmt, shear=None):
    global SHEAR
    SHEAR = shear
    try:
        if not os.path.exists(path):
            return {"load_err": "NoFile"}
        if fmt == "mdcrd":
            t = md.load(path, top=make_top(4))
        elif fmt in NEEDS_TOP:
            t = md.load(path, top=make_top(4))
        else:
            t = md.load(path)
        ids = []
        for fr in t.xyz:
            v = float(fr[0, 0]) * 10.0 - 1.0
            r = int(round(v))
            ok = r >= 0 and abs(v - r) < 0.03 and abs(float(fr[0, 2]) - 0.05) < 0.003 \
                and abs(float(fr[-1, 1]) - 0.1 * t.n_atoms) < 0.003
            ids.append(r if ok else -1)
        tm = []
        for x in t.time:
            x = float(x)
            r = int(round(x)) if np.isfinite(x) and abs(x) < 1e6 else -1
            tm.append(r if (r >= 0 and abs(x - r) < 0.01) else -1)
        cell = None
        if fmt != "pdb" and t.unitcell_lengths is not None:
            cell = []
            for x, an in zip(t.unitcell_lengths, t.unitcell_angles):
                v = float(x[0]) - 2.0
                r = int(round(v)) if np.isfinite(v) and abs(v) < 1e6 else -1
                ok = r >= 0 and abs(v - r) < 0.01
                if ok and shear:
                    # lengths AND angles of the frame handed in: all three lengths, the angles of its kind of cell
                    want = SHEAR_ANGLES if is_sheared(r) else (90.0, 90.0, 90.0)
                    ok = all(abs(float(x[j]) - (r + 2.0)) < 0.01 for j in range(3)) and \
                        all(abs(float(an[j]) - want[j]) < 0.05 for j in range(3))
                cell.append(r if ok else -1)
        return {"frames": ids, "time": tm, "cell": cell, "n_atoms": int(t.n_atoms)}
    except BaseException as e:  # noqa: BLE001
        if isinstance(e, (KeyboardInterrupt, SystemExit)):
            raise
        return {"load_err": type(e).__name__, "msg": str(e)[:160]}


def ext_of(fmt):
    return fmt


def main():
    if len(sys.argv) > 1 and sys.argv[1] == "--child":
        case = json.load(sys.stdin)
        out = run_ops(case, case["path"])
        print(json.dumps(out))
        return
    payload = json.load(sys.stdin)
    root = os.path.join(os.getcwd(), "wr_%d" % os.getpid())
    os.makedirs(root)
    res = []
    import shutil
    try:
        from concurrent.futures import ThreadPoolExecutor

        def crash_child(arg):
            i, case = arg
            path = os.path.join(root, "c%d.%s" % (i, ext_of(case["fmt"])))
            c2 = dict(case, path=path)
            r = subprocess.run([sys.executable, os.path.abspath(__file__), "--child"], input=json.dumps(c2),
                               stdout=subprocess.PIPE, stderr=subprocess.PIPE, text=True, timeout=300)
            return i, r.returncode

        crashing = [(i, c) for i, c in enumerate(payload["cases"]) if any(op[0] == "crash" for op in c["ops"])]
        with ThreadPoolExecutor(max_workers=4) as ex:          # the children are independent processes
            child_rc = dict(ex.map(crash_child, crashing))
        for i, case in enumerate(payload["cases"]):
            path = os.path.join(root, "c%d.%s" % (i, ext_of(case["fmt"])))
            crashed = i in child_rc
            if crashed:
                ops = [{"child_rc": child_rc[i]}]
            else:
                ops = run_ops(case, path)
            res.append({"ops": ops, "load": observe(path, case["fmt"], case.get("shear")), "crashed": crashed})
            if os.path.isdir(path):
                shutil.rmtree(path, ignore_errors=True)
            elif os.path.exists(path):
                os.unlink(path)
    finally:
        shutil.rmtree(root, ignore_errors=True)
    print(json.dumps({"cases": res}))


if __name__ == "__main__":
    main()
