"""Implementation-side runner for C05 (and the lattice-shift part of C09).

stdin : {"cases": [{"xyz": [[[ix,iy,iz],...],...] (integers, unit 2^-grid), "grid": 10,
                    "box": [[[9 floats as 3x3]],...] | null,
                    "calls": [{"api": "disp"|"dist"|"dist_t"|"core"|"core_raw"|"fcc", "opt": bool, "periodic": bool,
                               "pairs": [[i,j],...], "times": [[t1,t2],...], "g1": [...], "g2": [...], "frame": k}]}]}
stdout: last line = {"cases": [{"box_seen": [[9 floats]] | null, "results": [ {"shape": [...], "data": [floats]} |
                                                                            {"err": "ValueError"} ]}]}
All floats in the answer are float32 values widened to Python floats (exact).  The Trajectory is built through
the public API (md.Trajectory + unitcell_vectors setter), so the cell the kernels see is whatever
traj.unitcell_vectors returns (lengths/angles round trip); it is reported back as box_seen (float32).
"core_raw" hands the given cell array directly to compute_distances_core (no round trip).

HISTORY ("chain": id on a case): consecutive cases with the same chain id are steps of ONE call history in this
process: they share one Trajectory object (xyz and unitcell_vectors are re-assigned for every step) and one cell
array object for core_raw, which is REFILLED IN PLACE before every call (same ndarray identity, new contents).
"call_args" on a call ("glue" api): the arguments are passed to the named function as given (possibly invalid index
lists, a cell array of the wrong length, empty lists); the answer is {"err": class} or {"shape", "data"}.
"""
import json
import sys

import numpy as np


def build_traj(md, xyz, box):
    n_atoms = xyz.shape[1]
    top = md.Topology()
    ch = top.add_chain()
    for i in range(n_atoms):
        res = top.add_residue("X", ch)
        top.add_atom("C", md.element.carbon, res)
    t = md.Trajectory(xyz, top)
    if box is not None:
        t.unitcell_vectors = box
    return t


def pack(a):
    a = np.asarray(a)
    return {"shape": list(a.shape), "data": [float(x) for x in a.astype(np.float64).ravel()],
            "dtype": str(a.dtype)}


def main():
    payload = json.load(sys.stdin)
    import mdtraj as md
    from mdtraj.geometry.distance import compute_distances_core
    out = []
    chains = {}
    for c in payload["cases"]:
        scale = 2.0 ** (-c.get("grid", 10))
        xyz = (np.array(c["xyz"], dtype=np.float64) * scale).astype(np.float32)
        box = None if c["box"] is None else np.array(c["box"], dtype=np.float32)
        chain = chains.get(c.get("chain")) if c.get("chain") is not None else None
        hist_buf = None
        if chain is not None and chain["traj"].xyz.shape == xyz.shape and box is not None and chain["buf"].shape == box.shape:
            t = chain["traj"]
            t.xyz = xyz
            t.unitcell_vectors = box
            hist_buf = chain["buf"]
        else:
            t = build_traj(md, xyz, box)
            if c.get("chain") is not None and box is not None:
                hist_buf = np.empty_like(box)
                chains[c["chain"]] = {"traj": t, "buf": hist_buf}
        seen = None
        if t.unitcell_vectors is not None:
            seen = np.asarray(t.unitcell_vectors).astype(np.float32)
        results = []
        for call in c["calls"]:
            api = call["api"]
            pairs = np.array(call.get("pairs", []), dtype=np.int64).reshape(-1, 2)
            kw = dict(periodic=call.get("periodic", True))
            try:
                if api == "disp":
                    r = md.compute_displacements(t, pairs, opt=call["opt"], **kw)
                elif api == "dist":
                    r = md.compute_distances(t, pairs, opt=call["opt"], **kw)
                elif api == "dist_t":
                    times = np.array(call["times"], dtype=np.int64).reshape(-1, 2)
                    r = md.compute_distances_t(t, pairs, times, opt=call["opt"], **kw)
                elif api == "core":
                    r = compute_distances_core(t.xyz, pairs, unitcell_vectors=t.unitcell_vectors, opt=call["opt"], **kw)
                elif api == "core_raw":
                    if hist_buf is not None:
                        hist_buf[...] = box              # same array object, new contents
                        b = hist_buf
                    else:
                        b = None if box is None else box.copy()
                    r = compute_distances_core(xyz.copy(), pairs, unitcell_vectors=b, opt=call["opt"], **kw)
                elif api == "glue":
                    a = call["call_args"]
                    gp = np.array(a["pairs"], dtype=np.int64).reshape(-1, 2)
                    if a["fn"] == "core":
                        gb = None if a.get("box") is None else np.array(a["box"], dtype=np.float32)
                        r = compute_distances_core(xyz.copy(), gp, unitcell_vectors=gb, opt=call["opt"], **kw)
                    elif a["fn"] == "dist":
                        r = md.compute_distances(t, gp, opt=call["opt"], **kw)
                    elif a["fn"] == "disp":
                        r = md.compute_displacements(t, gp, opt=call["opt"], **kw)
                    elif a["fn"] == "dist_t":
                        gt = np.array(a["times"], dtype=np.int64).reshape(-1, 2)
                        r = md.compute_distances_t(t, gp, gt, opt=call["opt"], **kw)
                    else:
                        raise RuntimeError("unknown glue fn " + a["fn"])
                elif api == "fcc":
                    a1, a2, d = md.find_closest_contact(t, np.array(call["g1"], dtype=np.int64),
                                                        np.array(call["g2"], dtype=np.int64),
                                                        frame=call.get("frame", 0), **kw)
                    r = np.array([float(a1), float(a2), float(np.float32(d))])
                else:
                    raise RuntimeError("unknown api " + api)
                results.append(pack(r))
            except Exception as e:  # any exception on valid input is reported, not fatal
                results.append({"err": type(e).__name__, "msg": str(e)[:200]})
        out.append({"box_seen": None if seen is None else [[float(x) for x in f.ravel()] for f in seen],
                    "results": results})
    print(json.dumps({"cases": out}))


if __name__ == "__main__":
    main()
