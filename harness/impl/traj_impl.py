"""Implementation side of C03 (and the history half of C17): run operation histories on real
md.Trajectory objects through the public API and dump everything observable.

stdin : {"cases": [{"seed": int, "specs": [[n_frames, [[kind..]..], has_cell, explicit_time]..], "ops": [op..]}],
         "observers": bool}
stdout: last line JSON {"cases": [result..]}

Data.  Every array handed to mdtraj comes from a numbered *data source* s (numbered exactly like the
Coq model numbers them: initial trajectories first, then one per successful assignment):
  xyz[s][f, a, :]  random multiples of 1/4 nm in [-4, 4)   (float32-exact; a wrong frame/atom is off by >= 0.25)
  time[s][f]       1000 (s + 1) + f                          (default times are 0, 1, 2, ...)
  lengths[s][f]    (10, 40, 70) + s + f / 32                 angles[s][f] = (60, 75, 90) + s / 4 + f / 32
so a value that was only copied/indexed is bit-identical to its source entry.  The sources are
snapshotted before mdtraj sees them (mdtraj centres user arrays in place) and returned to the caller.

Atom kind k: atom name "A<k>", element C/N/O by k % 3, its own residue named ALA (k < 100) or HOH
(k >= 100, what remove_solvent removes); no bonds, so Topology.__eq__ depends on the chains of kinds only.
"""
import copy as _copy
import json
import sys
import warnings

import numpy as np

warnings.filterwarnings("ignore")

ELEMS = ["carbon", "nitrogen", "oxygen"]


def rs(seed, s, salt):
    return np.random.RandomState((seed * 7919 + s * 104729 + salt * 1299709) % (2 ** 31 - 1))


def gen_xyz(seed, s, m, natoms):
    return (rs(seed, s, 1).randint(-16, 16, size=(m, natoms, 3)) / 4.0).astype(np.float32)


def gen_time(seed, s, m, kind=True):
    """kind True / "f8i": float64 holding whole numbers (the historical default); "i8": int64 frame numbers offset by
    the source; "f4": float32 with fractional values (k / 8, exact); "f8": float64 with fractional values that float32
    cannot hold (k / 4 + 2^-20).  Any cast, truncation or rounding of a time value on its way through an operation
    changes it, and values are compared exactly."""
    f = np.arange(m, dtype=np.float64)
    if kind == "i8":
        return (1000 * (s + 1) + np.arange(m)).astype(np.int64)
    if kind == "f4":
        return (1000.0 * (s + 1) + f * 0.25 + 0.125).astype(np.float32)
    if kind == "f8":
        return 1000.0 * (s + 1) + f * 0.25 + 2.0 ** -20
    return 1000.0 * (s + 1) + f


def relayout(a, seed, s):
    """the same float32 VALUES handed over as another kind of array: float64, Fortran-ordered, or a non-contiguous
    view; ensure_type has to bring each of them to C-contiguous float32 without changing a value"""
    k = (seed * 31 + s * 7) % 5
    if k == 1:
        return a.astype(np.float64)
    if k == 2:
        return np.asfortranarray(a)
    if k == 3:
        big = np.zeros((a.shape[0] * 2,) + a.shape[1:], dtype=a.dtype)
        big[::2] = a
        return big[::2]
    if k == 4:
        return np.asfortranarray(a.astype(np.float64))
    return a


def gen_lengths(seed, s, m):
    f = np.arange(m, dtype=np.float64)[:, None] / 32.0
    return (np.array([[10.0, 40.0, 70.0]]) + s + f).astype(np.float32)


def gen_angles(seed, s, m):
    f = np.arange(m, dtype=np.float64)[:, None] / 32.0
    return (np.array([[60.0, 75.0, 90.0]]) + s / 4.0 + f).astype(np.float32)


def gen_vectors(seed, s, m):
    """lower-triangular box matrices with distinct entries (rows are a, b, c)"""
    v = np.zeros((m, 3, 3), dtype=np.float32)
    for f in range(m):
        v[f] = [[3.0 + s / 4.0 + f / 16.0, 0, 0], [0.5 + f / 32.0, 4.0 + s / 4.0, 0], [-0.75, 1.0 + f / 16.0, 5.0 + s / 8.0]]
    return v


def errclass(e):
    if isinstance(e, IndexError):
        return "IndexError"
    if isinstance(e, ValueError):
        return "ValueError"
    if isinstance(e, TypeError):
        return "TypeError"
    return "Other:" + type(e).__name__


def make_top(md, chains, bonded=False):
    """bonded=False: one atom per residue, no bonds (Topology.__eq__ is then equality of the chains of kinds).
    bonded=True: runs of up to two consecutive atoms of the same sort (solvent / not) share a residue and consecutive
    atoms of a chain are bonded, so deepcopy / subset / Topology.join have residue, atom and bond objects to keep apart
    (the object-identity oracle below looks at all of them)."""
    top = md.Topology()
    for ch in chains:
        c = top.add_chain()
        prev, res, count = None, None, 0
        for k in ch:
            solv = k >= 100
            if not bonded or res is None or count >= 2 or solv != (res.name == "HOH"):
                res = top.add_residue("HOH" if solv else "ALA", c)
                count = 0
            a = top.add_atom("A%d" % k, getattr(md.element, ELEMS[k % 3]), res)
            count += 1
            if bonded and prev is not None:
                top.add_bond(prev, a)
            prev = a
    return top


def mk_key(spec):
    kind, val = spec[0], spec[1]
    if kind == "int":
        return int(val)
    if kind == "npint":
        return np.int64(val)
    if kind == "slice":
        return slice(*val)
    if kind == "list":
        return [int(x) for x in val]
    if kind == "array":
        return np.array(val, dtype=np.int64)
    if kind == "mask":
        return np.array(val, dtype=bool)
    if kind == "masklist":
        return [bool(x) for x in val]
    # further spellings of the same four kinds of key (an integer; an index list)
    if kind == "npint32":
        return np.int32(val)
    if kind == "npuint":
        return np.uint8(val)
    if kind == "arr0d":
        return np.array(int(val))                  # 0-d integer array: numpy treats it as an integer
    if kind == "tuple1":
        return (int(val),)                         # a[(i,)] is a[i]
    if kind == "range":
        return range(*val)                         # a sequence of integers: fancy indexing, like the list of its elements
    if kind == "listnp":
        return [np.int64(x) for x in val]
    if kind == "array32":
        return np.array(val, dtype=np.int32)
    if kind == "tuplearr":
        return (np.array(val, dtype=np.int64),)    # a[(idx,)] is a[idx]
    raise ValueError(kind)


def op_regs(op):
    n = op[0]
    if n == "join":
        return [op[1]] + list(op[2])
    if n == "mdjoin":
        return list(op[1])
    if n in ("stack", "set_xyz_share", "set_time_share"):
        return [op[1], op[2]]
    if n == "superpose":
        return [op[1], op[2]]
    return [op[1]]


def arrays_of(t):
    """the five arrays of a trajectory object in the model's numbering"""
    return [t._xyz, t._time, t._unitcell_lengths, t._unitcell_angles, t._rmsd_traces]


def top_objects(top):
    if top is None:
        return set()
    ids = {id(top)}
    for c in top.chains:
        ids.add(id(c))
    for r in top.residues:
        ids.add(id(r))
    for a in top.atoms:
        ids.add(id(a))
    for b in top.bonds:
        ids.add(id(b[0]))
        ids.add(id(b[1]))
    return ids


def tolist(a):
    return None if a is None else np.asarray(a, dtype=np.float64).tolist()


def cache_state(t):
    """model-free oracle for 'the cache is consistent with the coordinates'"""
    tr = t._rmsd_traces
    if tr is None:
        return "none"
    tr = np.asarray(tr)
    if tr.ndim != 1 or tr.shape[0] != t.n_frames:
        return "wrong-length"
    x = np.asarray(t._xyz, dtype=np.float64)
    if x.shape[1] == 0 or x.shape[0] == 0:
        return "ok"
    if np.abs(x.mean(axis=1)).max() > 2e-3:
        return "uncentred"
    g = (x ** 2).sum(axis=(1, 2))
    if np.abs(g - tr).max() > 1e-3 * max(1.0, np.abs(g).max()):
        return "wrong-values"
    return "ok"


def cell_obs(t):
    """what the public getters say about the unit cell (C17)"""
    o = {"have": bool(t._have_unitcell)}
    try:
        o["vectors_none"] = t.unitcell_vectors is None
    except Exception as e:  # noqa: BLE001
        o["vectors_none"] = errclass(e)
    try:
        v = t.unitcell_volumes
        o["volumes"] = "none" if v is None else ["array", int(len(v)), bool(np.all(np.isfinite(v)))]
    except Exception as e:  # noqa: BLE001
        o["volumes"] = errclass(e)
    try:
        t._check_valid_unitcell()
        o["check_valid"] = "ok"
    except Exception as e:  # noqa: BLE001
        o["check_valid"] = type(e).__name__
    return o


def std_vectors(L, A):
    """float64 construction of the standard-orientation box vectors from lengths and angles (rows a, b, c)"""
    la, lb, lc = [float(x) for x in L]
    al, be, ga = [np.radians(float(x)) for x in A]
    b = np.array([lb * np.cos(ga), lb * np.sin(ga), 0.0])
    cx = lc * np.cos(be)
    cy = (lb * lc * np.cos(al) - b[0] * cx) / b[1]
    cz = np.sqrt(max(lc * lc - cx * cx - cy * cy, 0.0))
    return np.array([[la, 0.0, 0.0], b, [cx, cy, cz]])


def cell_getters_consistent(md, t, which=("vectors", "volumes", "lengths", "angles", "distances")):
    """model-free oracle: whatever was read or assigned before, every getter describes the lengths and angles stored
    NOW.  -> None or a description of the first inconsistency"""
    L, A = t._unitcell_lengths, t._unitcell_angles
    if "lengths" in which and t.unitcell_lengths is not L:
        return "unitcell_lengths getter does not return the stored array"
    if "angles" in which and t.unitcell_angles is not A:
        return "unitcell_angles getter does not return the stored array"
    if L is None or A is None:
        if "vectors" in which and t.unitcell_vectors is not None:
            return "unitcell_vectors of a trajectory without complete cell is not None"
        if "volumes" in which and L is None and t.unitcell_volumes is not None:
            return "unitcell_volumes of a trajectory without lengths is not None"
        return None
    if len(L) != len(A) or len(L) == 0:
        return None
    want = np.array([std_vectors(l, a) for l, a in zip(L, A)])
    scale = np.asarray(L, dtype=np.float64).max(axis=1)
    if "vectors" in which:
        V = np.asarray(t.unitcell_vectors, dtype=np.float64)
        if V.shape != want.shape or np.abs(V - want).max(axis=(1, 2)).max() > 1e-4 * scale.max() + 3e-6:
            return "unitcell_vectors do not describe the stored lengths/angles"
    if "volumes" in which:
        vol = np.asarray(t.unitcell_volumes, dtype=np.float64)
        wv = np.array([np.linalg.det(w) for w in want])
        if vol.shape != wv.shape or np.abs(vol - wv).max() > 2e-4 * np.prod(np.asarray(L, dtype=np.float64), axis=1).max():
            return "unitcell_volumes do not describe the stored lengths/angles"
    if "distances" in which and t.n_atoms >= 2 and t.n_frames == len(L) and len(L) == t.n_frames:
        pairs = np.array([[0, t.n_atoms - 1]])
        try:
            got = md.compute_distances(t, pairs, periodic=True)
            fresh = md.Trajectory(np.array(t._xyz, copy=True), t._topology, unitcell_lengths=np.array(L, copy=True),
                                  unitcell_angles=np.array(A, copy=True))
            ref = md.compute_distances(fresh, pairs, periodic=True)
            if got.shape != ref.shape or np.abs(got - ref).max() > 1e-4:
                return "periodic compute_distances differs from the same call on a freshly built trajectory with the same cell"
        except Exception:  # noqa: BLE001   (cells the kernels refuse are not this property's business)
            pass
    return None


def rmsd_probe(md, t):
    """max |rmsd(precentered=True) - rmsd(precentered=False)| over reference frames of t itself, on deep copies"""
    tr = t._rmsd_traces
    if tr is None or np.asarray(tr).ndim != 1 or len(tr) < t.n_frames or t.n_frames == 0 or t.n_atoms == 0:
        return None
    worst = 0.0
    n = t.n_frames
    for k in sorted({0, n // 2, n - 1}):
        a = _copy.deepcopy(t)
        b = _copy.deepcopy(t)
        try:
            r1 = md.rmsd(a, a, k, precentered=True)
            r2 = md.rmsd(b, b, k, precentered=False)
        except Exception as e:  # noqa: BLE001
            return "error:" + errclass(e)
        # float32 noise of the kernels: RMSD^2 = (Ga + Gb - 2 lambda) / N carries an absolute error of a few 1e-4 nm^2 on
        # this data (traces ~ 25 nm^2, 3-5 atoms), which the square root turns into up to 0.03 nm when the true RMSD is 0
        # (a frame against itself: 0.0289 observed from scratch, 0 with the shortcut).  A pair only counts when the SQUARED
        # values differ by more than 2e-3 nm^2; a stale cache is off by the square of a centroid shift or of a wrong frame,
        # >= (0.25 nm)^2 on the generated data
        d = np.where(np.abs(r1.astype(np.float64) ** 2 - r2.astype(np.float64) ** 2) > 2e-3, np.abs(r1 - r2), 0.0)
        worst = max(worst, float(d.max()))
    return worst


def expected_join(alls, dis):
    """model-free statement of join: concatenation of the operand fields, operand i without its last frame when
    discard_overlapping_frames is set and that frame equals (all |dx| < 2e-3) the first frame of operand i+1"""
    keep = [x.n_frames for x in alls]
    trim, margin = [False] * len(alls), []
    if dis:
        for i in range(len(alls) - 1):
            x0, x1 = np.asarray(alls[i]._xyz)[-1], np.asarray(alls[i + 1]._xyz)[0]
            margin.append(float(np.abs(x1 - x0).max()) if x0.size else 0.0)
            if np.all(np.abs(x1 - x0) < 2e-3):
                keep[i] -= 1
                trim[i] = True
    out = {"trim": trim, "margin": margin}
    for nm in ("_xyz", "_time", "_unitcell_lengths", "_unitcell_angles"):
        if all(getattr(x, nm) is not None for x in alls):
            out[nm] = np.concatenate([np.asarray(getattr(x, nm))[:k] for x, k in zip(alls, keep)])
    return out


def check_join(prop, si, new, want, first):
    if want is None:
        return
    for nm in ("_xyz", "_time"):
        if not np.array_equal(np.asarray(getattr(new, nm)), want[nm]):
            prop.append({"step": si, "kind": "field-not-numpy-concatenate", "field": nm})
    if first._have_unitcell:
        for nm in ("_unitcell_lengths", "_unitcell_angles"):
            if getattr(new, nm) is None or nm not in want or not np.array_equal(np.asarray(getattr(new, nm)), want[nm]):
                prop.append({"step": si, "kind": "field-not-numpy-concatenate", "field": nm})


def run_case(md, case):
    seed = case["seed"]
    nsrc = 0
    sources = {}
    regs = []
    masses = {}

    def note_kinds(chains):
        for ch in chains:
            for k in ch:
                masses[str(k)] = float(getattr(md.element, ELEMS[k % 3]).mass)

    for (n, chains, cell, etime) in case["specs"]:
        s = nsrc
        nsrc += 1
        natoms = sum(len(c) for c in chains)
        note_kinds(chains)
        xyz = gen_xyz(seed, s, n, natoms)
        src = {"xyz": xyz.copy()}
        xyz = relayout(xyz, seed, s) if case.get("layouts", True) else xyz
        kw = {}
        if etime:
            tm = gen_time(seed, s, n, etime)
            src["time"] = tm.copy()
            kw["time"] = tm
        if cell:
            ln, an = gen_lengths(seed, s, n), gen_angles(seed, s, n)
            src["len"], src["ang"] = ln.copy(), an.copy()
            if case.get("layouts", True):
                ln, an = relayout(ln, seed, s + 1), relayout(an, seed, s + 2)
            kw["unitcell_lengths"], kw["unitcell_angles"] = ln, an
        sources[s] = src
        regs.append(md.Trajectory(xyz, make_top(md, chains, bool(case.get("bonded"))), **kw))

    steps = []
    overlap = []       # numeric overlap decisions of every join(discard_overlapping_frames=True)
    prop = []          # model-free property oracle failures
    observed = []      # [step, observer, status] of every observer call inside the history
    for si, op in enumerate(case["ops"]):
        name = op[0]
        before_arrays = [a for t in regs for a in arrays_of(t) if a is not None]
        before_tops = set()
        for t in regs:
            before_tops |= top_objects(t._topology)
        n_before = len(regs)
        try:
            new = None
            if not all(0 <= r < len(regs) for r in op_regs(op)):
                steps.append("NoReg")
                continue
            structural = name in ("slice", "join", "mdjoin", "stack", "atom_slice", "remove_solvent", "restrict_atoms")
            src_reg = regs[op[1][0]] if name == "mdjoin" else regs[op[1]]
            src_have = bool(src_reg._have_unitcell) if structural else None
            if name == "slice":
                _, r, kspec, cp = op[:4]
                t = regs[r]
                key = mk_key(kspec)
                snap = [None if a is None else np.array(a, copy=True) for a in arrays_of(t)[:4]]
                new = t[key] if (cp and op[-1] != "method") else t.slice(key, copy=cp)
                want = [None if a is None else a[key] for a in snap]
                for nm, got, w in zip(("xyz", "time", "unitcell_lengths", "unitcell_angles"), arrays_of(new)[:4], want):
                    if (got is None) != (w is None):
                        prop.append({"step": si, "kind": "field-presence", "field": nm})
                    elif got is not None:
                        w2 = np.asarray(w)
                        if w2.ndim == np.asarray(got).ndim - 1:
                            w2 = w2[np.newaxis]
                        if np.asarray(got).shape != w2.shape or not np.array_equal(np.asarray(got), w2):
                            prop.append({"step": si, "kind": "field-not-numpy-index", "field": nm})
            elif name == "join":
                _, r, others, chk = op[:4]
                dis = bool(len(op) > 5 and op[5])
                t = regs[r]
                os_ = [regs[o] for o in others]
                alls = [t] + os_
                want = None
                try:
                    want = expected_join(alls, dis)
                except Exception:  # noqa: BLE001   (empty operand: the implementation must raise as well)
                    want = None
                if dis and want is not None:
                    overlap.append({"step": si, "trim": want["trim"], "margin": want["margin"]})
                if len(os_) == 1 and chk and not dis and (len(op) > 4 and op[4] == "plus"):
                    new = t + os_[0]
                elif len(os_) == 1:
                    new = t.join(os_[0], check_topology=chk, discard_overlapping_frames=dis)
                else:
                    new = t.join(os_, check_topology=chk, discard_overlapping_frames=dis)
                check_join(prop, si, new, want, t)
            elif name == "mdjoin":
                alls = [regs[r] for r in op[1]]
                dis = bool(len(op) > 2 and op[2])
                try:
                    want = expected_join(alls, dis)
                except Exception:  # noqa: BLE001
                    want = None
                if dis and want is not None:
                    overlap.append({"step": si, "trim": want["trim"], "margin": want["margin"]})
                new = md.join(alls, discard_overlapping_frames=dis)
                check_join(prop, si, new, want, alls[0])
            elif name == "stack":
                t, o = regs[op[1]], regs[op[2]]
                new = t.stack(o)
                if not np.array_equal(new.xyz, np.hstack((t._xyz, o._xyz))):
                    prop.append({"step": si, "kind": "field-not-numpy-hstack", "field": "xyz"})
                if not np.array_equal(new.time, t._time):
                    prop.append({"step": si, "kind": "field-not-left-operand", "field": "time"})
                for nm in ("_unitcell_lengths", "_unitcell_angles"):
                    a, b = getattr(new, nm), getattr(t, nm)
                    if (a is None) != (b is None) or (a is not None and not np.array_equal(a, b)):
                        prop.append({"step": si, "kind": "field-not-left-operand", "field": nm})
            elif name == "atom_slice":
                _, r, idx, inplace = op
                t = regs[r]
                snap = np.array(t._xyz, copy=True)
                tsnap = np.array(t._time, copy=True)
                out = t.atom_slice([int(i) for i in idx], inplace=inplace)
                if inplace:
                    if out is not t:
                        prop.append({"step": si, "kind": "inplace-returned-other-object"})
                else:
                    new = out
                if not np.array_equal(out.xyz, snap[:, [int(i) for i in idx]]):
                    prop.append({"step": si, "kind": "field-not-numpy-index", "field": "xyz(atoms)"})
                if not np.array_equal(out.time, tsnap):
                    prop.append({"step": si, "kind": "field-not-numpy-index", "field": "time"})
                if t._have_unitcell:
                    for nm in ("_unitcell_lengths", "_unitcell_angles"):
                        if getattr(out, nm) is None or not np.array_equal(getattr(out, nm), getattr(t, nm)):
                            prop.append({"step": si, "kind": "field-not-numpy-index", "field": nm})
            elif name == "remove_solvent":
                _, r, inplace = op
                tsnap = np.array(regs[r]._time, copy=True)
                out = regs[r].remove_solvent(inplace=inplace)
                if not inplace:
                    new = out
                if not np.array_equal(out.time, tsnap) or np.asarray(out.time).dtype != tsnap.dtype:
                    prop.append({"step": si, "kind": "field-not-numpy-index", "field": "time"})
            elif name == "restrict_atoms":
                # deprecated alias of atom_slice (same model operation); its default is inplace=True
                _, r, idx, inplace = op
                t = regs[r]
                snap = np.array(t._xyz, copy=True)
                tsnap_r = np.array(t._time, copy=True)
                out = t.restrict_atoms([int(i) for i in idx], inplace=inplace) if not inplace or (si % 2) else \
                    t.restrict_atoms([int(i) for i in idx])
                if inplace:
                    if out is not t:
                        prop.append({"step": si, "kind": "inplace-returned-other-object"})
                else:
                    new = out
                if not np.array_equal(out.xyz, snap[:, [int(i) for i in idx]]):
                    prop.append({"step": si, "kind": "field-not-numpy-index", "field": "xyz(atoms)"})
                if not np.array_equal(out.time, tsnap_r):
                    prop.append({"step": si, "kind": "field-not-numpy-index", "field": "time"})
            elif name == "image":
                # ["image", r, "whole" | "image", inplace]: make_molecules_whole / image_molecules.  What the kernel computes
                # is not modelled: the coordinates it leaves are recorded as a fresh data source (see coq/Traj/Extra.v)
                _, r, which, inplace = op
                t = regs[r]
                if t._have_unitcell and not (len(t._time) == t.n_frames and len(t._unitcell_lengths) == t.n_frames
                                             and len(t._unitcell_angles) == t.n_frames and t.n_atoms >= 1
                                             and t._topology is not None and t._topology.n_atoms == t.n_atoms):
                    steps.append("NoReg")          # outside the modelled domain (the C kernels would index out of bounds)
                    continue
                hashes = [snapshot_full(x) for x in regs]
                if which == "whole":
                    out = t.make_molecules_whole(inplace=inplace)
                else:
                    out = t.image_molecules(inplace=inplace, anchor_molecules=t.topology.find_molecules()[:1])
                if inplace:
                    if out is not t:
                        prop.append({"step": si, "kind": "inplace-returned-other-object"})
                else:
                    new = out
                    if [snapshot_full(x) for x in regs] != hashes:
                        prop.append({"step": si, "kind": "copying-call-modified-a-trajectory", "op": name + ":" + which})
                if out.xyz.shape != t.xyz.shape or not np.array_equal(out.time, t.time):
                    prop.append({"step": si, "kind": "field-not-numpy-index", "field": "shape/time"})
                sources[nsrc] = {"xyz": np.array(out._xyz, copy=True)}
                nsrc += 1
            elif name == "smooth":
                _, r, inplace = op
                t = regs[r]
                hashes = [snapshot_full(x) for x in regs]
                out = t.smooth(3, order=1, inplace=inplace)
                if inplace:
                    out = t
                else:
                    new = out
                    if [snapshot_full(x) for x in regs] != hashes:
                        prop.append({"step": si, "kind": "copying-call-modified-a-trajectory", "op": name})
                sources[nsrc] = {"xyz": np.array(out._xyz, copy=True)}
                nsrc += 1
            elif name == "observe":
                # ["observe", r, observer name]: an analysis / save call in the middle of a history must leave EVERY
                # trajectory object bit-identical (arrays, dtypes, array identities, cache, flags, topology)
                _, r, oname = op
                hashes = [snapshot_full(x) for x in regs]
                status = run_observer(md, regs[r], oname, case.get("tmp", "."))
                observed.append([si, oname, status])
                after = [snapshot_full(x) for x in regs]
                if after != hashes:
                    prop.append({"step": si, "kind": "observer-modified-a-trajectory", "observer": oname,
                                 "registers": [i for i, (a, b) in enumerate(zip(hashes, after)) if a != b]})
            elif name == "center":
                regs[op[1]].center_coordinates(mass_weighted=bool(op[2]))
            elif name == "superpose":
                regs[op[1]].superpose(regs[op[2]], frame=int(op[3]))
            elif name == "read_cell":
                bad = cell_getters_consistent(md, regs[op[1]], (op[2],) if len(op) > 2 else ("vectors", "volumes", "lengths", "angles"))
                if bad:
                    prop.append({"step": si, "kind": "cell-getters-inconsistent", "op": name, "detail": bad, "register": op[1]})
            elif name == "set_xyz_new":
                _, r, m, natoms = op
                a = gen_xyz(seed, nsrc, m, natoms)
                snap = a.copy()
                regs[r].xyz = relayout(a, seed, nsrc) if case.get("layouts", True) else a
                sources[nsrc] = {"xyz": snap}
                nsrc += 1
            elif name == "set_xyz_share":
                regs[op[1]].xyz = regs[op[2]].xyz
            elif name == "set_time_new":
                r, m = op[1], op[2]
                a = gen_time(seed, nsrc, m, op[3] if len(op) > 3 else True)
                regs[r].time = a
                sources[nsrc] = {"time": a.copy()}
                nsrc += 1
            elif name == "set_time_share":
                regs[op[1]].time = regs[op[2]].time
            elif name in ("set_lengths", "set_angles"):
                _, r, m = op
                attr = "unitcell_lengths" if name == "set_lengths" else "unitcell_angles"
                if m is None:
                    setattr(regs[r], attr, None)
                else:
                    a = gen_lengths(seed, nsrc, m) if name == "set_lengths" else gen_angles(seed, nsrc, m)
                    setattr(regs[r], attr, relayout(a, seed, nsrc) if case.get("layouts", True) else a)
                    sources[nsrc] = {("len" if name == "set_lengths" else "ang"): a.copy()}
                    nsrc += 1
            elif name == "set_vectors":
                r, m = op[1], op[2]
                if m is None:
                    regs[r].unitcell_vectors = None
                elif (len(op) > 3 and op[3]) or m == 0:
                    # all-zero (or empty) vectors mean "no cell"; no data source is consumed (as in the model)
                    regs[r].unitcell_vectors = np.zeros((m, 3, 3), dtype=np.float32)
                else:
                    a = gen_vectors(seed, nsrc, m)
                    regs[r].unitcell_vectors = a
                    sources[nsrc] = {"vec": a.copy()}
                    nsrc += 1
            else:
                raise RuntimeError("unknown op %s" % name)
            steps.append("ok")
            if case.get("check_cell_every_step"):
                for ri, tt in enumerate(regs + ([new] if new is not None else [])):
                    bad = cell_getters_consistent(md, tt, ("vectors", "volumes", "lengths", "angles"))
                    if bad:
                        prop.append({"step": si, "kind": "cell-getters-inconsistent", "op": name, "detail": bad, "register": ri})
                        break
            if structural:
                res_t = new if new is not None else src_reg
                if bool(res_t._have_unitcell) != src_have:
                    prop.append({"step": si, "kind": "cell-presence-changed", "op": name})
                if name in ("join", "mdjoin", "atom_slice", "remove_solvent") and new is not None and \
                        (new._unitcell_lengths is None) != (new._unitcell_angles is None):
                    prop.append({"step": si, "kind": "half-set-cell-produced", "op": name})
            if new is not None:
                regs.append(new)
                # ---- model-free sharing oracle
                exempt_xyz = (name == "slice" and not op[3])
                if not exempt_xyz:
                    for a in before_arrays:
                        if np.shares_memory(new._xyz, a):
                            prop.append({"step": si, "kind": "result-xyz-shares-memory-with-input", "op": name})
                            break
                strict = (name == "slice" and op[3]) or name in ("join", "mdjoin") or \
                    name in ("atom_slice", "remove_solvent", "restrict_atoms", "image")
                if strict:
                    hit = None
                    for fi, a in enumerate(arrays_of(new)):
                        if a is None:
                            continue
                        for b in before_arrays:
                            if np.shares_memory(a, b):
                                hit = ("xyz", "time", "unitcell_lengths", "unitcell_angles", "rmsd_traces")[fi]
                    if hit is None and (top_objects(new._topology) & before_tops):
                        hit = "topology"
                    if hit is not None:
                        prop.append({"step": si, "kind": "result-shares-mutable-data", "op": name, "field": hit})
                if name == "stack" and (top_objects(new._topology) & before_tops):
                    prop.append({"step": si, "kind": "stack-topology-shares-objects-with-an-input", "op": name})
                ln = {len(a) for a in arrays_of(new)[:4] if a is not None}
                if len(ln) > 1:
                    prop.append({"step": si, "kind": "fields-differ-in-length", "op": name})
        except Exception as e:  # noqa: BLE001
            steps.append(errclass(e))
            del regs[n_before:]

    # ---- dump
    arrays = []
    out_regs = []
    tops = []
    for i, t in enumerate(regs):
        arrs = arrays_of(t)
        for k, a in enumerate(arrs):
            if a is not None:
                arrays.append((5 * i + k, np.asarray(a)))
        top = t._topology
        tops.append(id(top))
        chains = [[int(a.name[1:]) for a in c.atoms] for c in top.chains] if top is not None else None
        tr = t._rmsd_traces
        out_regs.append({
            "xyz": tolist(t._xyz), "shape": list(np.asarray(t._xyz).shape), "time": tolist(t._time),
            "len": tolist(t._unitcell_lengths), "ang": tolist(t._unitcell_angles), "chains": chains,
            "traces": None if tr is None else np.atleast_1d(np.asarray(tr, dtype=np.float64)).tolist(),
            "traces_ndim": None if tr is None else int(np.asarray(tr).ndim),
            "tdef": bool(t._time_default_to_arange), "cache": cache_state(t), "rmsd_diff": rmsd_probe(md, t),
            "cell": cell_obs(t),
        })
    share = []
    for x in range(len(arrays)):
        for y in range(x + 1, len(arrays)):
            if np.shares_memory(arrays[x][1], arrays[y][1]):
                share.append([arrays[x][0], arrays[y][0]])
    same_top = [[i, j] for i in range(len(regs)) for j in range(i + 1, len(regs)) if tops[i] == tops[j]]
    return {"steps": steps, "regs": out_regs, "share": share, "same_top": same_top, "prop": prop, "overlap": overlap,
            "observed": observed,
            "sources": {str(s): {k: v.tolist() for k, v in d.items()} for s, d in sources.items()},
            "masses": masses}


def snapshot(t):
    import hashlib
    h = hashlib.sha256()
    for a in arrays_of(t)[:4]:
        h.update(b"N" if a is None else np.ascontiguousarray(a).tobytes() + str(np.asarray(a).shape).encode() + str(np.asarray(a).dtype).encode())
    top = t._topology
    desc = [(c.index, r.index, r.name, r.resSeq, a.index, a.name, a.element.symbol) for c in top.chains for r in c.residues for a in r.atoms]
    desc.append(sorted((b[0].index, b[1].index) for b in top.bonds))
    h.update(repr(desc).encode())
    return h.hexdigest()


def snapshot_full(t):
    """everything an observer could change: bytes, dtype, shape, layout and identity of the five arrays, the flag, the
    identity and the content of the topology"""
    import hashlib
    h = hashlib.sha256()
    for a in arrays_of(t):
        if a is None:
            h.update(b"N")
        else:
            b = np.asarray(a)
            h.update(np.ascontiguousarray(b).tobytes() + repr((b.shape, str(b.dtype), b.strides, b.flags.writeable, id(a))).encode())
    h.update(repr((bool(t._time_default_to_arange), id(t._topology))).encode())
    top = t._topology
    if top is not None:
        desc = [(c.index, r.index, r.name, r.resSeq, a.index, a.name, a.element.symbol, a.serial) for c in top.chains
                for r in c.residues for a in r.atoms]
        desc.append([(b[0].index, b[1].index) for b in top.bonds])
        h.update(repr(desc).encode())
    return h.hexdigest()


SMALL_OBSERVERS = {
    "compute_distances": lambda md, t, tmp: md.compute_distances(t, [[0, t.n_atoms - 1]]),
    "compute_distances(periodic=False)": lambda md, t, tmp: md.compute_distances(t, [[0, t.n_atoms - 1]], periodic=False),
    "compute_distances(opt=False)": lambda md, t, tmp: md.compute_distances(t, [[0, t.n_atoms - 1]], opt=False),
    "compute_displacements": lambda md, t, tmp: md.compute_displacements(t, [[0, t.n_atoms - 1]]),
    "compute_angles": lambda md, t, tmp: md.compute_angles(t, [[0, 1, 2]]),
    "compute_dihedrals": lambda md, t, tmp: md.compute_dihedrals(t, [[0, 1, 2, 3]]),
    "compute_rg": lambda md, t, tmp: md.compute_rg(t),
    "compute_center_of_mass": lambda md, t, tmp: md.compute_center_of_mass(t),
    "compute_center_of_geometry": lambda md, t, tmp: md.compute_center_of_geometry(t),
    "compute_inertia_tensor": lambda md, t, tmp: md.compute_inertia_tensor(t),
    "compute_gyration_tensor": lambda md, t, tmp: md.compute_gyration_tensor(t),
    "compute_contacts": lambda md, t, tmp: md.compute_contacts(t, scheme="closest"),
    "compute_neighbors": lambda md, t, tmp: md.compute_neighbors(t, 2.0, [0]),
    "compute_neighborlist": lambda md, t, tmp: md.compute_neighborlist(t, 2.0),
    "compute_rdf": lambda md, t, tmp: md.compute_rdf(t, [[0, t.n_atoms - 1]], r_range=(0.0, 2.0)),
    "density": lambda md, t, tmp: md.density(t),
    "shrake_rupley": lambda md, t, tmp: _sasa_unless_coincident(md, t),
    "compute_drid": lambda md, t, tmp: md.compute_drid(t),
    "find_closest_contact": lambda md, t, tmp: md.find_closest_contact(t, [0], [t.n_atoms - 1]),
    "rmsd(atom_indices)": lambda md, t, tmp: md.rmsd(t, t, 0, atom_indices=np.arange(t.n_atoms)),
    "lprmsd": lambda md, t, tmp: md.lprmsd(t, t, 0),
    "hash": lambda md, t, tmp: hash(t),
    "eq": lambda md, t, tmp: t == t,
    "str": lambda md, t, tmp: (str(t), repr(t), len(t), t.n_residues, t.n_chains),
    "timestep": lambda md, t, tmp: t.timestep,
    "unitcell_vectors": lambda md, t, tmp: t.unitcell_vectors,
    "unitcell_volumes": lambda md, t, tmp: t.unitcell_volumes,
    "openmm": lambda md, t, tmp: (t.openmm_positions(0), t.openmm_boxes(0)),
    "topology.to_dataframe": lambda md, t, tmp: t.topology.to_dataframe(),
    "topology.select": lambda md, t, tmp: t.topology.select("name A1 or resname HOH"),
    "topology.find_molecules": lambda md, t, tmp: t.topology.find_molecules(),
    "slice": lambda md, t, tmp: t[::-1],
    "slice(copy=False)": lambda md, t, tmp: t.slice(slice(None), copy=False),
    "join": lambda md, t, tmp: t.join(t, discard_overlapping_frames=True),
    "stack": lambda md, t, tmp: t.stack(t),
    "atom_slice": lambda md, t, tmp: t.atom_slice([0]),
    "remove_solvent": lambda md, t, tmp: t.remove_solvent(),
    "smooth(inplace=False)": lambda md, t, tmp: t.smooth(3, order=1),
    "make_molecules_whole(inplace=False)": lambda md, t, tmp: t.make_molecules_whole(),
    "image_molecules(inplace=False)": lambda md, t, tmp: t.image_molecules(anchor_molecules=t.topology.find_molecules()[:1]),
    "pickle": lambda md, t, tmp: __import__("pickle").dumps(t),
    "deepcopy": lambda md, t, tmp: _copy.deepcopy(t),
}
for _ext in ("h5", "pdb", "xtc", "trr", "dcd", "nc", "binpos", "mdcrd", "xyz", "lammpstrj", "gro", "rst7", "ncrst", "lh5",
             "pdb.gz", "dtr"):
    SMALL_OBSERVERS["save(." + _ext + ")"] = (lambda md, t, tmp, e=_ext: t.save(__import__("os").path.join(tmp, "obs." + e)))


def _sasa_unless_coincident(md, t):
    """sasa.cpp calls exit(1) when two atoms sit (virtually) on top of one another (r^2 < 1e-10 nm^2) -- e.g. after
    t.stack(t) -- which would take the whole runner down with it; such a state is refused here like any other
    refusal of an observer (refusing is not changing)."""
    x = np.asarray(t.xyz, dtype=np.float64)
    if x.shape[1] > 1:
        d2 = ((x[:, :, None, :] - x[:, None, :, :]) ** 2).sum(-1)
        d2[:, np.arange(x.shape[1]), np.arange(x.shape[1])] = 1.0
        if d2.min() < 1e-8:
            raise ValueError("coincident atoms: shrake_rupley would call exit()")
    return md.shrake_rupley(t)


def run_observer(md, t, name, tmp):
    try:
        SMALL_OBSERVERS[name](md, t, tmp)
        return "ok"
    except Exception as e:  # noqa: BLE001   (an observer may refuse a state; refusing is not changing)
        return "raised:" + errclass(e)


def run_observers(md, tmp):
    """'analysis and save functions leave their input bit-identical' -- tested, not proved.
    rmsd/rmsf/superpose/center_coordinates/image_molecules(inplace=True)/smooth(inplace=True) are documented as
    modifying their input and are not in the list."""
    import os
    ref = os.path.join(os.path.dirname(md.__file__), "..", "tests", "data", "frame0.h5")
    t = md.load(ref)[:6]
    t = t.atom_slice(t.topology.select("protein"))
    if t.unitcell_lengths is None:
        t.unitcell_lengths = np.full((t.n_frames, 3), 6.0, dtype=np.float32)
        t.unitcell_angles = np.full((t.n_frames, 3), 90.0, dtype=np.float32)
    pairs = np.array([[0, 5], [1, 9], [2, 17]])
    calls = {
        "compute_distances": lambda: md.compute_distances(t, pairs),
        "compute_distances(periodic=False)": lambda: md.compute_distances(t, pairs, periodic=False),
        "compute_displacements": lambda: md.compute_displacements(t, pairs),
        "compute_angles": lambda: md.compute_angles(t, np.array([[0, 1, 2], [3, 4, 5]])),
        "compute_dihedrals": lambda: md.compute_dihedrals(t, np.array([[0, 1, 2, 3]])),
        "compute_phi": lambda: md.compute_phi(t),
        "compute_psi": lambda: md.compute_psi(t),
        "compute_chi1": lambda: md.compute_chi1(t),
        "compute_omega": lambda: md.compute_omega(t),
        "compute_contacts": lambda: md.compute_contacts(t),
        "compute_rg": lambda: md.compute_rg(t),
        "compute_center_of_mass": lambda: md.compute_center_of_mass(t),
        "compute_center_of_geometry": lambda: md.compute_center_of_geometry(t),
        "compute_inertia_tensor": lambda: md.compute_inertia_tensor(t),
        "compute_gyration_tensor": lambda: md.compute_gyration_tensor(t),
        "principal_moments": lambda: md.principal_moments(t),
        "asphericity": lambda: md.asphericity(t),
        "acylindricity": lambda: md.acylindricity(t),
        "relative_shape_antisotropy": lambda: md.relative_shape_antisotropy(t),
        "shrake_rupley": lambda: md.shrake_rupley(t),
        "shrake_rupley(residue)": lambda: md.shrake_rupley(t, mode="residue"),
        "compute_dssp": lambda: md.compute_dssp(t),
        "baker_hubbard": lambda: md.baker_hubbard(t),
        "kabsch_sander": lambda: md.kabsch_sander(t),
        "wernet_nilsson": lambda: md.wernet_nilsson(t),
        "compute_neighbors": lambda: md.compute_neighbors(t, 0.5, np.array([0, 1])),
        "compute_neighborlist": lambda: md.compute_neighborlist(t, 0.5),
        "compute_drid": lambda: md.compute_drid(t),
        "compute_rdf": lambda: md.compute_rdf(t, pairs, r_range=(0.0, 1.0)),
        "density": lambda: md.density(t),
        "lprmsd": lambda: md.lprmsd(t, t, 0),
        "rmsd(atom_indices)": lambda: md.rmsd(t, t, 0, atom_indices=np.arange(10)),
        "find_closest_contact": lambda: md.find_closest_contact(t, [0, 1], [20, 21]),
        "compute_nematic_order": lambda: md.compute_nematic_order(t, indices="residues"),
        "make_molecules_whole": lambda: t.make_molecules_whole(inplace=False),
        "image_molecules": lambda: t.image_molecules(inplace=False),
        "smooth": lambda: t.smooth(3, inplace=False),
        "unitcell_vectors": lambda: t.unitcell_vectors,
        "unitcell_volumes": lambda: t.unitcell_volumes,
        "openmm_boxes": lambda: t.openmm_boxes(0),
        "topology.to_dataframe": lambda: t.topology.to_dataframe(),
        "topology.to_bondgraph": lambda: t.topology.to_bondgraph(),
        "topology.find_molecules": lambda: t.topology.find_molecules(),
        "topology.select": lambda: t.topology.select("backbone and resid 0 to 3"),
        "hash": lambda: hash(t),
        "str": lambda: str(t),
        "slice": lambda: t[1:4],
        "join": lambda: t.join(t),
        "stack": lambda: t.stack(t),
        "atom_slice": lambda: t.atom_slice([0, 1, 2]),
        "remove_solvent": lambda: t.remove_solvent(),
    }
    for ext in ("h5", "pdb", "xtc", "trr", "dcd", "nc", "netcdf", "binpos", "mdcrd", "xyz", "lammpstrj", "gro",
                "rst7", "ncrst", "lh5", "pdb.gz", "dtr"):
        calls["save(." + ext + ")"] = (lambda e=ext: t.save(os.path.join(tmp, "o." + e)))
    res = {}
    for nm, fn in calls.items():
        before = snapshot(t), snapshot_full(t)
        try:
            fn()
            st = "ok"
        except Exception as e:  # noqa: BLE001
            st = "raised:" + errclass(e)
        after = snapshot(t), snapshot_full(t)
        res[nm] = {"status": st, "unchanged": before == after}
    # the same calls on a trajectory that carries the RMSD cache (centred) and integer default times
    t.center_coordinates()
    for nm, fn in calls.items():
        before = snapshot(t), snapshot_full(t)
        try:
            fn()
            st = "ok"
        except Exception as e:  # noqa: BLE001
            st = "raised:" + errclass(e)
        after = snapshot(t), snapshot_full(t)
        res[nm + " [centred, cache present]"] = {"status": st, "unchanged": before == after}
    return res


def main():
    payload = json.load(sys.stdin)
    import mdtraj as md
    import tempfile
    import shutil
    d0 = tempfile.mkdtemp(prefix="c03obsh-", dir=".")
    try:
        out = {"cases": [run_case(md, dict(c, tmp=d0)) for c in payload.get("cases", [])]}
    finally:
        shutil.rmtree(d0, ignore_errors=True)
    if payload.get("observers"):
        d = tempfile.mkdtemp(prefix="c03obs-", dir=".")
        try:
            out["observers"] = run_observers(md, d)
        finally:
            shutil.rmtree(d, ignore_errors=True)
    print(json.dumps(out))


if __name__ == "__main__":
    main()
