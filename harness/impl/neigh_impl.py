"""Implementation side of C10: md.compute_neighbors / md.compute_neighborlist on generated frames.

stdin : {"cases":[case..]} with
   case = {"api":"nb"|"nl", "xyz":[[ix,iy,iz]..] (integers, unit 2^-10 nm),
           "cell": null | {"lengths":[ia,ib,ic] (unit 2^-10 nm), "angles":[alpha,beta,gamma] (degrees, float)},
           "c": integer cutoff (unit 2^-10 nm), "periodic": bool,
           "query":[..], "hay":[..]|null   (api nb only)}
stdout: last line JSON {"out":[{"box":[[9 integers]], "K":k, "res":..., "err":null|class name,
                                "cd":{"missing":[[i,j]..],"spurious":[[i,j]..],"band":n}}..]}

"box": the float32 unit-cell matrix the kernels receive (Trajectory.unitcell_vectors), as exact
integers in unit 2^-K nm (K >= 10), so that the Coq model and the exact oracle see the very same cell.
"cd": agreement with md.compute_distances(periodic=...) on the same frame: pairs it puts below
cutoff-1e-5 that are not reported, pairs above cutoff+1e-5 that are reported.
"""
import json
import sys
import warnings
from fractions import Fraction

import numpy as np

warnings.filterwarnings("ignore")
import mdtraj as md  # noqa: E402

G = 1024.0
EPS = 1e-5


def make_traj(case):
    xyz = np.array(case["xyz"], dtype=np.float64).reshape(-1, 3) / G
    n = xyz.shape[0]
    top = md.Topology()
    ch = top.add_chain()
    res = top.add_residue("X", ch)
    for _ in range(n):
        top.add_atom("C", md.element.carbon, res)
    t = md.Trajectory(xyz.astype(np.float32).reshape(1, n, 3), top)
    if case.get("cell"):
        t.unitcell_lengths = np.array([[v / G for v in case["cell"]["lengths"]]], dtype=np.float32)
        t.unitcell_angles = np.array([case["cell"]["angles"]], dtype=np.float32)
    return t


def exact_box(t):
    uv = t.unitcell_vectors
    if uv is None:
        return None, 10
    m = np.asarray(uv, dtype=np.float32)[0]
    fr = [[Fraction(float(x)) for x in row] for row in m]
    K = 10
    for row in fr:
        for x in row:
            K = max(K, x.denominator.bit_length() - 1)
    return [[int(x * (1 << K)) for x in row] for row in fr], K


def run_case(case):
    out = {"box": None, "K": 10, "res": None, "err": None, "cd": None}
    t = make_traj(case)
    out["box"], out["K"] = exact_box(t)
    c = case["c"] / G
    periodic = bool(case.get("periodic", True))
    n = t.n_atoms
    try:
        if case["api"] == "nb":
            hay = case.get("hay")
            r = md.compute_neighbors(t, c, np.array(case["query"], dtype=int),
                                     None if hay is None else np.array(hay, dtype=int), periodic=periodic)
            assert len(r) == 1
            res = [int(x) for x in r[0]]
            out["res"] = res
            hayl = list(range(n)) if hay is None else list(hay)
            q = list(case["query"])
            pairs = np.array([(i, j) for i in sorted(set(hayl)) for j in sorted(set(q)) if i != j], dtype=int).reshape(-1, 2)
            miss, spur, band = [], [], 0
            if len(pairs):
                d = md.compute_distances(t, pairs, periodic=periodic)[0]
                dmin = {}
                for (i, j), dd in zip(pairs.tolist(), d.tolist()):
                    if i not in dmin or dd < dmin[i][0]:
                        dmin[i] = (dd, j)
                rs = set(res)
                for i, (dd, j) in dmin.items():
                    if dd < c - EPS and i not in rs:
                        miss.append([i, j])
                    elif dd > c + EPS and i in rs:
                        spur.append([i, j])
                    elif abs(dd - c) <= EPS:
                        band += 1
            out["cd"] = {"missing": miss[:20], "spurious": spur[:20], "band": band, "n_missing": len(miss),
                         "n_spurious": len(spur)}
        else:
            r = md.compute_neighborlist(t, c, periodic=periodic)
            res = [[int(x) for x in a] for a in r]
            out["res"] = res
            miss, spur, band = [], [], 0
            if n >= 2:
                iu = np.triu_indices(n, 1)
                pairs = np.stack([iu[1], iu[0]], axis=1)          # (i, j) with j < i
                d = md.compute_distances(t, pairs, periodic=periodic)[0]
                listed = np.zeros((n, n), dtype=bool)
                for i, a in enumerate(res):
                    if len(a):
                        listed[i, np.array(a, dtype=int)] = True
                li = listed[pairs[:, 0], pairs[:, 1]]
                m = np.nonzero((d < c - EPS) & ~li)[0]
                s = np.nonzero((d > c + EPS) & li)[0]
                band = int(np.count_nonzero(np.abs(d - c) <= EPS))
                miss = pairs[m].tolist()
                spur = pairs[s].tolist()
            out["cd"] = {"missing": miss[:20], "spurious": spur[:20], "band": band, "n_missing": len(miss),
                         "n_spurious": len(spur)}
    except ValueError as e:
        out["err"] = "ValueError"
        out["msg"] = str(e)[:200]
    except Exception as e:  # noqa: BLE001
        out["err"] = type(e).__name__
        out["msg"] = str(e)[:200]
    return out


def main():
    import resource
    try:  # a runaway allocation inside a kernel must fail fast, not exhaust the machine
        resource.setrlimit(resource.RLIMIT_AS, (6 << 30, 6 << 30))
    except (ValueError, OSError):
        pass
    payload = json.load(sys.stdin)
    outs = [run_case(c) for c in payload["cases"]]
    print(json.dumps({"out": outs}))


if __name__ == "__main__":
    main()
