"""Implementation side of C10: md.compute_neighbors / md.compute_neighborlist on generated frames.

stdin : {"cases":[case..]} with
   case = {"api":"nb"|"nl", "xyz":[[ix,iy,iz]..] (integers, unit 2^-10 nm),
           "cell": null | {"lengths":[ia,ib,ic] (unit 2^-10 nm), "angles":[alpha,beta,gamma] (degrees, float)},
           "c": integer cutoff (unit 2^-10 nm), "periodic": bool,
           "query":[..], "hay":[..]|null   (api nb only)}
stdout: last line JSON {"out":[{"box":[[9 integers]], "K":k, "res":..., "err":null|class name,
                                "cd":{"missing":[[i,j]..],"spurious":[[i,j]..],"band":n}}..]}

"box": the float32 unit-cell matrix the kernels receive (Trajectory.unitcell_vectors), as exact
integers in unit 2^-K nm (K >= 10), so that the Coq model and the exact oracle see the very same cell.
"cd": agreement with md.compute_distances(periodic=...) on the same frame: pairs it puts below
cutoff-1e-5 that are not reported, pairs above cutoff+1e-5 that are reported.
"""
import json
import sys
import warnings
from fractions import Fraction

import numpy as np

warnings.filterwarnings("ignore")
import mdtraj as md  # noqa: E402

G = 1024.0
EPS = 1e-5


def make_traj(case):
    xyz = np.array(case["xyz"], dtype=np.float64).reshape(-1, 3) / G
    n = xyz.shape[0]
    top = md.Topology()
    ch = top.add_chain()
    res = top.add_residue("X", ch)
    for _ in range(n):
        top.add_atom("C", md.element.carbon, res)
    t = md.Trajectory(xyz.astype(np.float32).reshape(1, n, 3), top)
    if case.get("cell"):
        t.unitcell_lengths = np.array([[v / G for v in case["cell"]["lengths"]]], dtype=np.float32)
        t.unitcell_angles = np.array([case["cell"]["angles"]], dtype=np.float32)
    return t


def make_traj_multi(subs):
    """one trajectory whose frames are the (equally sized) sub-cases, each with its own unit cell"""
    xyz = np.array([c["xyz"] for c in subs], dtype=np.float64).reshape(len(subs), -1, 3) / G
    n = xyz.shape[1]
    top = md.Topology()
    ch = top.add_chain()
    res = top.add_residue("X", ch)
    for _ in range(n):
        top.add_atom("C", md.element.carbon, res)
    t = md.Trajectory(xyz.astype(np.float32), top)
    if subs[0].get("cell"):
        t.unitcell_lengths = np.array([[v / G for v in c["cell"]["lengths"]] for c in subs], dtype=np.float32)
        t.unitcell_angles = np.array([c["cell"]["angles"] for c in subs], dtype=np.float32)
    return t


def exact_box(t, frame=0):
    uv = t.unitcell_vectors
    if uv is None:
        return None, 10
    m = np.asarray(uv, dtype=np.float32)[frame]
    fr = [[Fraction(float(x)) for x in row] for row in m]
    K = 10
    for row in fr:
        for x in row:
            K = max(K, x.denominator.bit_length() - 1)
    return [[int(x * (1 << K)) for x in row] for row in fr], K


def run_case(case, t=None, frame=0):
    """one search on one frame; with t given: frame `frame` of that (multi-frame, per-frame cells) trajectory"""
    out = {"box": None, "K": 10, "res": None, "err": None, "cd": None}
    if t is None:
        t = make_traj(case)
    out["box"], out["K"] = exact_box(t, frame)
    c = case["c"] / G
    periodic = bool(case.get("periodic", True))
    n = t.n_atoms
    try:
        if case["api"] == "nb":
            hay = case.get("hay")
            r = md.compute_neighbors(t, c, np.array(case["query"], dtype=int),
                                     None if hay is None else np.array(hay, dtype=int), periodic=periodic)
            assert len(r) == t.n_frames
            res = [int(x) for x in r[frame]]
            out["res"] = res
            hayl = list(range(n)) if hay is None else list(hay)
            q = list(case["query"])
            pairs = np.array([(i, j) for i in sorted(set(hayl)) for j in sorted(set(q)) if i != j], dtype=int).reshape(-1, 2)
            miss, spur, band = [], [], 0
            if len(pairs):
                d = md.compute_distances(t, pairs, periodic=periodic)[frame]
                dmin = {}
                for (i, j), dd in zip(pairs.tolist(), d.tolist()):
                    if i not in dmin or dd < dmin[i][0]:
                        dmin[i] = (dd, j)
                rs = set(res)
                for i, (dd, j) in dmin.items():
                    if dd < c - EPS and i not in rs:
                        miss.append([i, j])
                    elif dd > c + EPS and i in rs:
                        spur.append([i, j])
                    elif abs(dd - c) <= EPS:
                        band += 1
            out["cd"] = {"missing": miss[:20], "spurious": spur[:20], "band": band, "n_missing": len(miss),
                         "n_spurious": len(spur)}
        else:
            r = md.compute_neighborlist(t, c, frame=frame, periodic=periodic)
            res = [[int(x) for x in a] for a in r]
            out["res"] = res
            miss, spur, band = [], [], 0
            if n >= 2:
                iu = np.triu_indices(n, 1)
                pairs = np.stack([iu[1], iu[0]], axis=1)          # (i, j) with j < i
                d = md.compute_distances(t, pairs, periodic=periodic)[frame]
                listed = np.zeros((n, n), dtype=bool)
                for i, a in enumerate(res):
                    if len(a):
                        listed[i, np.array(a, dtype=int)] = True
                li = listed[pairs[:, 0], pairs[:, 1]]
                m = np.nonzero((d < c - EPS) & ~li)[0]
                s = np.nonzero((d > c + EPS) & li)[0]
                band = int(np.count_nonzero(np.abs(d - c) <= EPS))
                miss = pairs[m].tolist()
                spur = pairs[s].tolist()
            out["cd"] = {"missing": miss[:20], "spurious": spur[:20], "band": band, "n_missing": len(miss),
                         "n_spurious": len(spur)}
    except ValueError as e:
        out["err"] = "ValueError"
        out["msg"] = str(e)[:200]
    except Exception as e:  # noqa: BLE001
        out["err"] = type(e).__name__
        out["msg"] = str(e)[:200]
    return out


def run_apicall(case):
    """one whole call on a multi-frame trajectory: every frame of compute_neighbors, or compute_neighborlist with an
    explicit frame argument (negative / out of range included); index arguments in several container types.
    -> {"boxes": per frame exact cell in ONE unit 2^-K | None, "K", "res": per-frame lists | rows, "err"}"""
    out = {"boxes": None, "K": 10, "res": None, "err": None}
    try:
        frames = case["frames"]
        xyz = np.array(frames, dtype=np.float64).reshape(len(frames), -1, 3) / G
        n = xyz.shape[1]
        top = md.Topology()
        ch = top.add_chain()
        res = top.add_residue("X", ch)
        for _ in range(n):
            top.add_atom("C", md.element.carbon, res)
        t = md.Trajectory(xyz.astype(np.float32), top)
        if case.get("cells"):
            t.unitcell_lengths = np.array([[v / G for v in c["lengths"]] for c in case["cells"]], dtype=np.float32)
            t.unitcell_angles = np.array([c["angles"] for c in case["cells"]], dtype=np.float32)
            bk = [exact_box(t, f) for f in range(t.n_frames)]
            K = max(k for _b, k in bk)
            out["boxes"] = [[[v << (K - k) for v in row] for row in b] for b, k in bk]
            out["K"] = K

        def conv(idx):
            if idx is None:
                return None
            ty = case.get("idx_type", "int64")
            if ty == "list":
                return list(idx)
            if ty == "tuple":
                return tuple(idx)
            return np.array(idx, dtype={"int32": np.int32, "int64": np.int64}[ty])
        c = case["c"] / G
        periodic = bool(case.get("periodic", True))
        if case["api"] == "nb":
            kw = {} if case.get("hay_omitted") else {"haystack_indices": conv(case.get("hay"))}
            if case.get("periodic_omitted"):
                r = md.compute_neighbors(t, c, conv(case["query"]), **kw)
            else:
                r = md.compute_neighbors(t, c, conv(case["query"]), periodic=periodic, **kw)
            out["res"] = [[int(x) for x in a] for a in r]
            out["dtypes"] = sorted({str(a.dtype) for a in r})
        else:
            if case.get("frame_omitted"):
                r = md.compute_neighborlist(t, c, periodic=periodic)
            else:
                r = md.compute_neighborlist(t, c, frame=case["frame"], periodic=periodic)
            out["res"] = [[int(x) for x in a] for a in r]
    except Exception as e:  # noqa: BLE001
        out["err"] = type(e).__name__
        out["msg"] = str(e)[:200]
    return out


def main():
    import resource
    try:  # a runaway allocation inside a kernel must fail fast, not exhaust the machine
        resource.setrlimit(resource.RLIMIT_AS, (6 << 30, 6 << 30))
    except (ValueError, OSError):
        pass
    payload = json.load(sys.stdin)
    outs = []
    for c in payload["cases"]:
        if c.get("apicall"):
            outs.append(run_apicall(c))
        elif c.get("seq") is None:
            outs.append(run_case(c))
        elif c.get("mode") == "traj":      # ONE trajectory with a different cell in every frame
            t = make_traj_multi(c["seq"])
            outs.append({"seq_out": [run_case(sub, t=t, frame=f) for f, sub in enumerate(c["seq"])]})
        else:                              # consecutive calls in one process, one single-frame trajectory each
            outs.append({"seq_out": [run_case(sub) for sub in c["seq"]]})
    print(json.dumps({"out": outs}))


if __name__ == "__main__":
    main()
