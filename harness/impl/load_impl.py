"""Implementation side of C02: partial loads through mdtraj's public API on real files.

stdin : {"workers":int, "cases":[case..], "probe_trr":bool}
        case = {"fmt","kind":"load|load_frame|iterload|load_list","Ts":[T..],"chunk","stride","skip",
                "frame","ai":[..]|null,"limit":int,"isolate":bool,
                "n_atoms":int (default 4), "cell":bool (default true: the file carries a unit cell)}
stdout: last line JSON {"results":[obs..], "probe_trr":{...}}

File j of a case has T = Ts[j] frames with identifiers 10*j .. 10*j+T-1.  Frame id has
xyz[a] = ((id + 1), (a + 1), 0.5) * 0.1 nm, time id, cubic cell length id + 2 nm, so that a frame read
back identifies itself (and the atoms it holds) in every field.  Time and cell of a partially loaded
frame are compared with time and cell of the same frame in the full load of the same file (reference).

Every batch of cases runs in a forked child: a reader that corrupts the heap or crashes takes down only
the child; the case in flight is reported as {"err":"Crash"}.  Cases marked "isolate" get a child each.
(derived from harness/impl/cursor_impl.py)
"""
import json
import os
import signal
import sys
import warnings

import numpy as np

warnings.filterwarnings("ignore")
import mdtraj as md  # noqa: E402

TOPEXT = (".h5", ".hdf5", ".lh5", ".pdb", ".pdb.gz", ".gro", ".arc", ".hoomdxml", ".gsd")
N_ATOMS = 4


class Timeout(Exception):
    pass


def _alarm(signum, frame):
    raise Timeout()


ZSTYLES = ("zerocell", "zerotail")


def zero_frames(T, style):
    """frames (file positions) whose unit cell is stored with zero lengths: a stretch at the head / at the tail of the file"""
    if style == "zerocell":
        return range(0, (T + 1) // 2)
    if style == "zerotail":
        return range(T - T // 2, T) if T > 1 else range(0, 1)
    return range(0)


def make_traj(T, base, n_atoms, cell=True, style="mdtraj"):
    top = md.Topology()
    ch = top.add_chain()
    for a in range(n_atoms):
        res = top.add_residue("ALA", ch, resSeq=a + 1)
        top.add_atom("CA" if a % 2 == 0 else "CB", md.element.carbon, res)
    xyz = np.zeros((T, n_atoms, 3), dtype=np.float32)
    for i in range(T):
        for a in range(n_atoms):
            xyz[i, a] = ((base + i + 1) * 0.1, (a + 1) * 0.1, 0.05)
    t = md.Trajectory(xyz, top, time=np.arange(base, base + T, dtype=np.float32))
    if cell:
        ul = np.array([[base + i + 2.0] * 3 for i in range(T)], dtype=np.float32)
        for i in zero_frames(T, style):
            ul[i] = 0.0            # a box of zero size in SOME frames of the file (non-periodic stretch of a run)
        t.unitcell_lengths = ul
        t.unitcell_angles = np.full((T, 3), 90.0, dtype=np.float32)
    return t


def write_arc(path, T, base, n_atoms, cell=False):
    with open(path, "w") as fh:
        for i in range(T):
            fh.write("%6d  frame %d\n" % (n_atoms, base + i))
            if cell:
                L = (base + i + 2.0) * 10.0
                fh.write(" %12.6f %12.6f %12.6f %12.6f %12.6f %12.6f\n" % (L, L, L, 90.0, 90.0, 90.0))
            for a in range(n_atoms):
                fh.write("%6d  C%d %18.10f %18.10f %18.10f %5d\n" % (a + 1, a, (base + i + 1) * 1.0, (a + 1) * 1.0, 0.5, 1))


# ---- hand-written input files that use the legal freedom of the text formats (style != "mdtraj") -----------
def _perm(n_atoms, fid, style):
    """order in which the atom lines of frame fid are written (differs from frame to frame)"""
    idx = list(range(n_atoms))
    k = (fid * 3 + 1) % max(n_atoms, 1)
    idx = idx[k:] + idx[:k]
    if fid % 2 == 1:
        idx.reverse()
    return idx


def write_lammpstrj_hand(path, T, base, n_atoms, cell, style):
    # style "shuffled": ITEM: ATOMS id type x y z, atom lines in a different order in every frame
    # style "columns":  ITEM: ATOMS type q id vx xu yu zu (other column order, extra columns, unwrapped keywords), shuffled
    with open(path, "w") as fh:
        for i in range(T):
            fid = base + i
            L = (fid + 2.0) * 10.0
            fh.write("ITEM: TIMESTEP\n%d\nITEM: NUMBER OF ATOMS\n%d\nITEM: BOX BOUNDS pp pp pp\n" % (fid * 100, n_atoms))
            for _ in range(3):
                fh.write("%.6e %.6e\n" % (0.0, L))
            if style == "columns":
                fh.write("ITEM: ATOMS type q id vx xu yu zu\n")
            else:
                fh.write("ITEM: ATOMS id type x y z\n")
            for a in _perm(n_atoms, fid, style):
                x, y, z = (fid + 1) * 1.0, (a + 1) * 1.0, 0.5
                if style == "columns":
                    fh.write("1 -0.25 %d 0.125 %.5f %.5f %.5f\n" % (a + 1, x, y, z))
                else:
                    fh.write("%d 1 %.5f %.5f %.5f\n" % (a + 1, x, y, z))


def write_xyz_hand(path, T, base, n_atoms, cell, style):
    # comment lines of varying content (empty, text, numbers), leading blanks, other element symbols, an extra column
    comments = ["", "frame with a comment that is rather long and contains 3 numbers 1.0 2.0 3.0", "7", "  indented", "Lattice=\"1 0 0\""]
    with open(path, "w") as fh:
        for i in range(T):
            fid = base + i
            fh.write("  %d\n%s\n" % (n_atoms, comments[fid % len(comments)]))
            for a in range(n_atoms):
                sym = ["C", "N", "Xx", "O"][a % 4]
                fh.write("  %-3s %14.6f %12.6f %10.6f   %d\n" % (sym, (fid + 1) * 1.0, (a + 1) * 1.0, 0.5, a))


def write_gro_hand(path, T, base, n_atoms, cell, style):
    # non-sequential residue / atom numbers, velocities present, title with text before t=
    with open(path, "w") as fh:
        for i in range(T):
            fid = base + i
            fh.write("hand written, frame %d of a test t= %d.00000\n%5d\n" % (fid, fid, n_atoms))
            for a in range(n_atoms):
                fh.write("%5d%-5s%5s%5d%8.3f%8.3f%8.3f%8.4f%8.4f%8.4f\n" % (
                    (7 + 13 * a) % 100000, "LIG", "C%d" % a, (900 + 41 * a) % 100000, (fid + 1) * 0.1, (a + 1) * 0.1, 0.05,
                    0.1, -0.2, 0.3))
            L = fid + 2.0
            fh.write("%10.5f%10.5f%10.5f\n" % (L, L, L))


def write_pdb_hand(path, T, base, n_atoms, cell, style):
    # MODEL blocks, non-sequential serials and residue numbers, HETATM records, TER, optional CRYST1
    with open(path, "w") as fh:
        fh.write("REMARK   hand written test file\n")
        if cell:
            L = (base + 2.0) * 10.0
            fh.write("CRYST1%9.3f%9.3f%9.3f%7.2f%7.2f%7.2f P 1           1\n" % (L, L, L, 90.0, 90.0, 90.0))
        for i in range(T):
            fid = base + i
            fh.write("MODEL     %4d\n" % (i + 1))
            for a in range(n_atoms):
                rec = "HETATM" if a % 3 == 2 else "ATOM  "
                fh.write("%s%5d %-4s %3s %1s%4d    %8.3f%8.3f%8.3f%6.2f%6.2f          %2s\n" % (
                    rec, 10 + 7 * a, "C%d" % a, "LIG", "A", 5 + 11 * a, (fid + 1) * 1.0, (a + 1) * 1.0, 0.5, 1.0, 0.0, "C"))
            fh.write("TER\nENDMDL\n")
        fh.write("END\n")


def write_mdcrd_hand(path, T, base, n_atoms, cell, style):
    # style "title_empty": empty title line; "title_numeric": a title that looks like a line of coordinates
    title = "" if style == "title_empty" else "   1.000   2.000   3.000   4.000   5.000   6.000"
    with open(path, "w") as fh:
        fh.write(title + "\n")
        for i in range(T):
            fid = base + i
            vals = []
            for a in range(n_atoms):
                vals += [(fid + 1) * 1.0, (a + 1) * 1.0, 0.5]
            for j in range(0, len(vals), 10):
                fh.write("".join("%8.3f" % v for v in vals[j:j + 10]) + "\n")
            if cell:
                L = (fid + 2.0) * 10.0
                fh.write("%8.3f%8.3f%8.3f\n" % (L, L, L))


def n_free_of(n_atoms):
    """fixed-atom DCD: atoms 0 .. n_free-1 are free, the others fixed (their coordinates live in frame 0 only)"""
    return max(1, n_atoms // 2)


def write_dcd_fixed(path, T, base, n_atoms, cell, style):
    """A CHARMM/NAMD DCD with fixed atoms (header NAMNF > 0 + free-atom index block): frame 0 stores every atom,
    later frames only the free ones; dcdplugin reads them, mdtraj never writes them (after cursor_impl.py).
    Free atom a of frame fid sits at ((fid+1), (a+1), 0.5) A, a fixed atom at ((base+1), (a+1), 0.5) A in every frame."""
    import struct
    n_free = n_free_of(n_atoms)
    free = np.arange(n_free, dtype=np.int32)
    xyz = np.zeros((T, n_atoms, 3), dtype=np.float32)
    for i in range(T):
        for a in range(n_atoms):
            xyz[i, a] = ((base + i + 1) * 1.0 if a < n_free else (base + 1) * 1.0, (a + 1) * 1.0, 0.5)

    def rec(payload):
        mark = struct.pack("<i", len(payload))
        return mark + payload + mark

    ints = [0] * 20
    ints[0] = T
    ints[2] = 1
    ints[8] = n_atoms - n_free
    ints[10] = 1 if cell else 0
    ints[19] = 24
    block = bytearray(b"CORD" + struct.pack("<20i", *ints))
    block[4 + 36: 4 + 40] = struct.pack("<f", 1.0)
    out = [rec(bytes(block)), rec(struct.pack("<i", 1) + b"fixed atoms".ljust(80)), rec(struct.pack("<i", n_atoms))]
    if n_atoms - n_free > 0:
        out.append(rec((free + 1).astype("<i4").tobytes()))
    for f in range(T):
        sel = slice(None) if f == 0 else free
        if cell:
            L = (base + f + 2.0) * 10.0
            out.append(rec(struct.pack("<6d", L, 0.0, L, 0.0, 0.0, L)))
        for dd in range(3):
            out.append(rec(xyz[f, sel, dd].astype("<f4").tobytes()))
    with open(path, "wb") as fh:
        fh.write(b"".join(out))


HAND = {"dcd": write_dcd_fixed, "lammpstrj": write_lammpstrj_hand, "xyz": write_xyz_hand, "gro": write_gro_hand, "pdb": write_pdb_hand,
        "mdcrd": write_mdcrd_hand}

_made = {}


def make_file(fmt, T, base, n_atoms, d, cell=True, style="mdtraj"):
    key = (fmt, T, base, n_atoms, cell, style)
    if key in _made:
        return _made[key]
    tag = "" if style == "mdtraj" else "_" + style
    p = os.path.join(d, "f_%d_%d_%d_%d%s.%s" % (T, base, n_atoms, int(cell), tag, fmt))
    if not os.path.exists(p):
        if style != "mdtraj" and style not in ZSTYLES:
            HAND[fmt](p, T, base, n_atoms, cell, style)
        elif fmt == "hdf5":
            # the second registered extension of the HDF5 reader: same bytes as the .h5 file
            import shutil
            shutil.copyfile(make_file("h5", T, base, n_atoms, d, cell, style), p)
        elif fmt == "stk":
            # a DESRES "stk" file lists dtr directories, one per line
            with open(p, "w") as fh:
                fh.write(make_file("dtr", T, base, n_atoms, d, cell, style) + "\n")
        elif fmt == "arc":
            write_arc(p, T, base, n_atoms, cell)
        else:
            make_traj(T, base, n_atoms, cell, style).save(p)
    _made[key] = p
    return p


def top_path(n_atoms, d):
    p = os.path.join(d, "top_%d.pdb" % n_atoms)
    if not os.path.exists(p):
        make_traj(1, 0, n_atoms).save(p)
    return p


def frame_obs(t, ai, n_atoms, fixed=None):
    """per frame (id, flag): flag 1 = exactly the atoms ai, 0 = exactly all atoms; id -1 = not a frame we wrote.
    fixed = n_free for a fixed-atom DCD: atoms >= n_free must sit where frame 0 of their file has them"""
    xyz = np.asarray(t.xyz, dtype=float)
    out = []
    allatoms = list(range(n_atoms))
    for fr in xyz:
        if fr.ndim != 2 or fr.shape[0] == 0 or not np.all(np.isfinite(fr)) or np.any(np.abs(fr) > 1e6):
            out.append([-1, 0])        # empty / NaN / absurd values: a garbage frame (uninitialised buffer of a diverging reader)
            continue
        v = fr[0, 0] * 10.0 - 1.0
        r = int(round(v))
        ok = abs(v - r) < 0.02 and abs(fr[0, 2] - 0.05) < 0.002 and r >= 0
        av = fr[:, 1] * 10.0 - 1.0
        atoms = [int(round(x)) for x in av]
        exact = bool(np.all(np.abs(av - np.round(av)) < 0.02))
        if fixed is None:
            same = bool(np.all(np.abs(fr[:, 0] - fr[0, 0]) < 0.002))
        else:
            # the first atom identifies the frame (the generator always selects a free atom first)
            want = np.array([(r + 1) * 0.1 if a < fixed else (10 * (r // 10) + 1) * 0.1 for a in atoms])
            same = bool(np.all(np.abs(fr[:, 0] - want) < 0.002)) and bool(np.all(np.abs(fr[:, 2] - 0.05) < 0.002)) \
                and bool(atoms and atoms[0] < fixed)
        if not (ok and same and exact):
            out.append([-1, 0])
        elif ai is not None and atoms == list(ai):
            out.append([r, 1])
        elif atoms == allatoms:
            out.append([r, 0])
        else:
            out.append([-1, 0])
    return out


def top_atoms(t, fmt):
    if t.topology is None:
        return None
    names = [a.name for a in t.topology.atoms]
    if fmt == "arc" or (names and all(len(n) > 1 and n[0] == "C" and n[1:].isdigit() for n in names)):
        # files whose atoms are called C0, C1, ... (arc, hand-written gro / pdb with arbitrary residue numbers)
        return [int(n[1:]) if n[1:].isdigit() else -1 for n in names]
    return [a.residue.resSeq - 1 for a in t.topology.atoms]


def int_or(x, bad=-777):
    x = float(x)
    if not np.isfinite(x) or abs(x) > 1e9:
        return bad
    r = int(round(x))
    return r if abs(x - r) < 0.02 else bad


def traj_obs(t, fmt, ai, n_atoms, ref, fixed=None):
    fo = frame_obs(t, ai, n_atoms, fixed)
    tm = [int_or(x) for x in t.time]
    cell = [int_or(x[0] - 2.0) for x in t.unitcell_lengths] if t.unitcell_lengths is not None else None
    tbad, cbad = [], []
    for j, (i, _fl) in enumerate(fo):
        if i < 0 or ref is None or i not in ref:
            continue
        rt, rc = ref[i]
        if j >= len(tm) or tm[j] != rt:
            tbad.append([i, tm[j] if j < len(tm) else None, rt])
        got = None if cell is None else (cell[j] if j < len(cell) else None)
        if got != rc:
            cbad.append([i, got, rc])
    want = list(ai) if ai is not None else list(range(n_atoms))
    ta = top_atoms(t, fmt)
    flags = {fl for (i, fl) in fo if i >= 0}
    o = {"frames": fo, "time_bad": tbad[:3], "cell_bad": cbad[:3], "top_atoms": ta,
         "top_matches_xyz": (ta == want) if (flags == {1} or (flags == {0} and ai is None)) else
                            (ta == list(range(n_atoms))) if flags == {0} else None}
    return o


_ref = {}


def reference(fmt, T, base, n_atoms, d, cell=True, style="mdtraj"):
    """time and cell of every frame in the FULL load of the file (the right-hand side of C02)"""
    key = (fmt, T, base, n_atoms, cell, style)
    if key not in _ref:
        p = make_file(fmt, T, base, n_atoms, d, cell, style)
        if fmt == "hdf5":
            p = make_file("h5", T, base, n_atoms, d, cell, style)      # same bytes; md.load('x.hdf5') itself refuses (finding)
        kw = {} if ("." + fmt) in TOPEXT else {"top": top_path(n_atoms, d)}
        try:
            t = md.load(p, **kw)
            fo = frame_obs(t, None, n_atoms, n_free_of(n_atoms) if style == "fixed" else None)
            tm = [int_or(x) for x in t.time]
            cl = [int_or(x[0] - 2.0) for x in t.unitcell_lengths] if t.unitcell_lengths is not None else None
            r = {}
            for j, (i, _f) in enumerate(fo):
                if i >= 0:
                    r[i] = (tm[j], None if cl is None else cl[j])
            _ref[key] = r
        except Exception:
            _ref[key] = None
    return _ref[key]


def _setup(case, d, top_obj=None):
    n_atoms = int(case.get("n_atoms", N_ATOMS))
    cell = bool(case.get("cell", True))
    style = case.get("style", "mdtraj")
    fmt = case["fmt"]
    ai = case.get("ai")
    Ts = case["Ts"]
    bases = case.get("bases") or [10 * j for j in range(len(Ts))]
    paths = [make_file(fmt, T, bases[j], n_atoms, d, cell, style) for j, T in enumerate(Ts)]
    ref = {}
    seen = {}
    for j, T in enumerate(Ts):
        r = reference(fmt, T, bases[j], n_atoms, d, cell, style)
        if r is None:
            ref = None
            break
        for i in r:
            seen[i] = seen.get(i, 0) + 1
        ref.update(r)
    if ref is not None:
        # a frame identifier that occurs in two files (overlapping junction) has two legitimate times for the formats that
        # synthesise time: those frames are checked by the join oracle of the load_list kind instead
        ref = {i: v for i, v in ref.items() if seen[i] == 1}
    kw = {}
    if ("." + fmt) not in TOPEXT:
        kw["top"] = top_obj if top_obj is not None else top_path(n_atoms, d)
    if ai is not None:
        kw["atom_indices"] = list(ai)
    return fmt, ai, n_atoms, paths, ref, kw


def fixed_of(case):
    return n_free_of(int(case.get("n_atoms", N_ATOMS))) if case.get("style") == "fixed" else None


def _err(e, chunks):
    if isinstance(e, Timeout):
        return {"err": "Timeout", "chunks": chunks}
    if isinstance(e, NotImplementedError):
        return {"err": "NotImplementedError", "chunks": chunks}
    return {"err": type(e).__name__, "msg": str(e)[:160], "chunks": chunks}


def join_oracle(got, paths, kw, dk):
    """the last clause of C02 taken literally: md.load([f1..fk], **kw) == md.join([md.load(f, **kw) for f in ..]) in every
    field (bitwise: both sides are produced by the same readers)"""
    try:
        parts = [md.load(p, **kw) for p in paths]
        want = parts[0] if len(parts) == 1 else md.join(parts, check_topology=False, **dk)
    except BaseException as e:  # noqa
        if isinstance(e, (KeyboardInterrupt, SystemExit, Timeout)):
            raise
        return None           # the individual loads refuse: nothing to compare with (the Coq comparison judges the list load)
    bad = []
    if got.xyz.shape != want.xyz.shape or not np.array_equal(got.xyz, want.xyz, equal_nan=True):
        bad.append(["xyz", list(got.xyz.shape), list(want.xyz.shape)])
    if got.time.shape != want.time.shape or not np.array_equal(got.time, want.time, equal_nan=True):
        bad.append(["time", [float(x) for x in got.time[:12]], [float(x) for x in want.time[:12]]])
    for name in ("unitcell_lengths", "unitcell_angles"):
        a, b = getattr(got, name), getattr(want, name)
        if (a is None) != (b is None) or (a is not None and (a.shape != b.shape or not np.array_equal(a, b, equal_nan=True))):
            bad.append([name, None if a is None else [float(x) for x in a[:12, 0]], None if b is None else [float(x) for x in b[:12, 0]]])
    if (got.topology is None) != (want.topology is None) or (got.topology is not None and got.topology != want.topology):
        bad.append(["topology", str(got.topology), str(want.topology)])
    return bad or None


def list_fields(o, got, case, d):
    """time and cell of a list load, frame by frame, against the full loads of the individual files put together the way
    the property says (file order; with discard_overlapping_frames the LAST frame of the earlier file goes when it equals the
    first frame of the next).  Independent of md.join; covers the junction frames, whose identifiers occur in two files."""
    n_atoms = int(case.get("n_atoms", N_ATOMS))
    Ts = case["Ts"]
    bases = case.get("bases") or [10 * j for j in range(len(Ts))]
    stride = case.get("stride") or 1
    seq = []
    for j, T in enumerate(Ts):
        r = reference(case["fmt"], T, bases[j], n_atoms, d, bool(case.get("cell", True)), case.get("style", "mdtraj"))
        if r is None:
            return
        seg = [(i,) + tuple(r[i]) for i in range(bases[j], bases[j] + T, stride) if i in r]
        if case.get("discard") and seq and seg and seq[-1][0] == seg[0][0]:
            seq.pop()
        seq += seg
    if [i for i, _f in o["frames"]] != [x[0] for x in seq]:
        return                      # other frames than promised: reported through the Coq comparison
    tm = [int_or(x) for x in got.time]
    cell = [int_or(x[0] - 2.0) for x in got.unitcell_lengths] if got.unitcell_lengths is not None else None
    for j, (i, rt, rc) in enumerate(seq):
        if j >= len(tm) or tm[j] != rt:
            if [i, tm[j] if j < len(tm) else None, rt] not in o["time_bad"]:
                o["time_bad"].append([i, tm[j] if j < len(tm) else None, rt])
        gc = None if cell is None else (cell[j] if j < len(cell) else None)
        if gc != rc and [i, gc, rc] not in o["cell_bad"]:
            o["cell_bad"].append([i, gc, rc])
    o["time_bad"] = o["time_bad"][:3]
    o["cell_bad"] = o["cell_bad"][:3]


def run_case(case, d, top_obj=None):
    if case["kind"] == "history":
        return run_history(case, d)
    fmt, ai, n_atoms, paths, ref, kw = _setup(case, d, top_obj)
    kind = case["kind"]
    fx = fixed_of(case)
    chunks = []
    try:
        signal.alarm(15)
        if kind == "load":
            if case.get("stride") is not None:
                kw["stride"] = case["stride"]
            if case.get("frame") is not None:
                kw["frame"] = case["frame"]
            return {"traj": traj_obs(md.load(paths[0], **kw), fmt, ai, n_atoms, ref, fx)}
        if kind == "load_frame":
            return {"traj": traj_obs(md.load_frame(paths[0], case["frame"], **kw), fmt, ai, n_atoms, ref, fx)}
        if kind == "iterload":
            limit = case["limit"]
            for ch in md.iterload(paths[0], chunk=case["chunk"], stride=case["stride"], skip=case["skip"], **kw):
                chunks.append(traj_obs(ch, fmt, ai, n_atoms, ref, fx))
                if len(chunks) > limit:
                    return {"err": "NonTermination", "chunks": chunks}
            return {"chunks": chunks}
        if kind == "load_list":
            if case.get("stride") is not None:
                kw["stride"] = case["stride"]
            dk = {"discard_overlapping_frames": True} if case.get("discard") else {}
            got = md.load(paths, **kw, **dk)
            o = {"traj": traj_obs(got, fmt, ai, n_atoms, ref, fx)}
            o["join_bad"] = join_oracle(got, paths, kw, dk)
            list_fields(o["traj"], got, case, d)
            return o
        raise AssertionError(kind)
    except BaseException as e:  # noqa
        if isinstance(e, (KeyboardInterrupt, SystemExit)):
            raise
        return _err(e, chunks)
    finally:
        signal.alarm(0)


def run_history(case, d):
    """a sequence of partial loads that share ONE Topology object (md.load(top=<object>)): steps are ordinary
    cases; events = ["run", j] (step j to completion) | ["start", j] (create the iterload generator of step j) |
    ["next", j] (take one chunk) | ["drop", j] (abandon the generator).  Returns one observation per step."""
    import gc
    n_atoms = int(case.get("n_atoms", N_ATOMS))
    top_obj = md.load(top_path(n_atoms, d)).topology
    steps = case["steps"]
    obs = [None] * len(steps)
    gens = {}
    for ev, j in case["events"]:
        st = steps[j]
        try:
            signal.alarm(15)
            if ev == "run":
                obs[j] = run_case(st, d, top_obj)
            elif ev == "start":
                fmt, ai, na, paths, ref, kw = _setup(st, d, top_obj)
                gens[j] = (md.iterload(paths[0], chunk=st["chunk"], stride=st["stride"], skip=st["skip"], **kw), fmt, ai, na, ref)
                obs[j] = {"chunks": [], "exhausted": False}
            elif ev == "next":
                if j in gens and not obs[j].get("exhausted") and "err" not in obs[j]:
                    g, fmt, ai, na, ref = gens[j]
                    try:
                        ch = next(g)
                        obs[j]["chunks"].append(traj_obs(ch, fmt, ai, na, ref, fixed_of(st)))
                    except StopIteration:
                        obs[j]["exhausted"] = True
            elif ev == "drop":
                g = gens.pop(j, None)
                del g
                gc.collect()
        except BaseException as e:  # noqa
            if isinstance(e, (KeyboardInterrupt, SystemExit)):
                raise
            r = _err(e, (obs[j] or {}).get("chunks", []))
            r["exhausted"] = False
            obs[j] = r
        finally:
            signal.alarm(0)
    return {"steps": obs, "stale_subset_override": "subset" in top_obj.__dict__}


def child(cases, idxs, d, wfd):
    signal.signal(signal.SIGALRM, _alarm)
    with os.fdopen(wfd, "w") as out:
        for i in idxs:
            out.write("S %d\n" % i)
            out.flush()
            r = run_case(cases[i], d)
            out.write("R %d %s\n" % (i, json.dumps(r)))
            out.flush()
    os._exit(0)


def run_stream(cases, idxs, d, results):
    """run cases[idxs] in forked children; restart after a crash"""
    todo = list(idxs)
    while todo:
        rfd, wfd = os.pipe()
        pid = os.fork()
        if pid == 0:
            os.close(rfd)
            try:
                child(cases, todo, d, wfd)
            finally:
                os._exit(1)
        os.close(wfd)
        started = None
        with os.fdopen(rfd) as inp:
            for line in inp:
                if line.startswith("S "):
                    started = int(line.split()[1])
                elif line.startswith("R "):
                    _r, i, js = line.split(" ", 2)
                    results[int(i)] = json.loads(js)
                    started = None
        _pid, status = os.waitpid(pid, 0)
        done = {i for i in todo if results[i] is not None}
        if started is not None and results[started] is None:
            results[started] = {"err": "Crash", "status": status, "chunks": []}
            done.add(started)
        elif os.WIFSIGNALED(status) or (os.WIFEXITED(status) and os.WEXITSTATUS(status) != 0):
            # died outside a case (e.g. at exit): attribute to the last case of the batch
            last = [i for i in todo if results[i] is not None]
            if last:
                results[last[-1]].setdefault("post_crash", status)
            if not done:
                results[todo[0]] = {"err": "Crash", "status": status, "chunks": []}
                done.add(todo[0])
        todo = [i for i in todo if i not in done]


def probe_trr(d):
    """TRR read(stride>1, atom_indices=proper subset): the throw-away buffer has n_atoms_to_read atoms
    but read_trr writes n_atoms: heap overflow.  Run it in a child and see whether glibc notices."""
    p = make_file("trr", 6, 0, N_ATOMS, d)
    top = top_path(N_ATOMS, d)
    pid = os.fork()
    if pid == 0:
        try:
            devnull = os.open(os.devnull, os.O_WRONLY)
            os.dup2(devnull, 2)
            for _ in range(40):
                md.load(p, top=top, stride=2, atom_indices=[0])
                list(md.iterload(p, top=top, chunk=2, stride=3, atom_indices=[1]))
            import gc
            gc.collect()
            junk = [np.empty(k % 64 + 1, dtype=np.float32) for k in range(4000)]
            del junk
        except BaseException:
            os._exit(3)
        # leave through normal interpreter shutdown so that every cached buffer is freed
        sys.stdout = open(os.devnull, "w")
        sys.exit(0)
    _pid, status = os.waitpid(pid, 0)
    return {"signaled": os.WIFSIGNALED(status), "signal": os.WTERMSIG(status) if os.WIFSIGNALED(status) else None,
            "exit": os.WEXITSTATUS(status) if os.WIFEXITED(status) else None}


def main():
    req = json.load(sys.stdin)
    d = os.getcwd()
    cases = req["cases"]
    # create files and references up front (parent) so that children only read
    flat = []
    for c in cases:
        flat += c["steps"] if c.get("kind") == "history" else [c]
    for c in flat:
        for j, T in enumerate(c["Ts"]):
            b = (c.get("bases") or [10 * jj for jj in range(len(c["Ts"]))])[j]
            try:
                make_file(c["fmt"], T, b, int(c.get("n_atoms", N_ATOMS)), d, bool(c.get("cell", True)), c.get("style", "mdtraj"))
            except Exception as e:  # noqa
                sys.stderr.write("cannot write %s T=%d: %r\n" % (c["fmt"], T, e))
                continue
            reference(c["fmt"], T, b, int(c.get("n_atoms", N_ATOMS)), d, bool(c.get("cell", True)), c.get("style", "mdtraj"))
        top_path(int(c.get("n_atoms", N_ATOMS)), d)
    top_path(N_ATOMS, d)
    results = [None] * len(cases)
    iso = [i for i, c in enumerate(cases) if c.get("isolate")]
    rest = [i for i, c in enumerate(cases) if not c.get("isolate")]
    workers = max(1, int(req.get("workers", 4)))
    # parallel streams: fork one supervisor per stream, each writes its results to a file
    streams = [rest[w::workers] for w in range(workers)]
    pids = []
    for w, idxs in enumerate(streams):
        if not idxs:
            continue
        pid = os.fork()
        if pid == 0:
            try:
                res = [None] * len(cases)
                run_stream(cases, idxs, d, res)
                with open(os.path.join(d, "stream_%d.json" % w), "w") as fh:
                    json.dump({str(i): res[i] for i in idxs}, fh)
                os._exit(0)
            finally:
                os._exit(1)
        pids.append((w, pid, idxs))
    for i in iso:
        run_stream(cases, [i], d, results)
    for w, pid, idxs in pids:
        os.waitpid(pid, 0)
        try:
            with open(os.path.join(d, "stream_%d.json" % w)) as fh:
                part = json.load(fh)
            for k, v in part.items():
                results[int(k)] = v
        except Exception as e:  # noqa
            for i in idxs:
                if results[i] is None:
                    results[i] = {"err": "HarnessStreamLost", "msg": repr(e), "chunks": []}
    out = {"results": results}
    if req.get("probe_trr"):
        out["probe_trr"] = probe_trr(d)
    sys.stdout.write("\n" + json.dumps(out) + "\n")


if __name__ == "__main__":
    main()
