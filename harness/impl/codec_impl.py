"""Implementation side of C01: build trajectories from exact float32 bit patterns, save them through
mdtraj's public API in every requested format, hand back (a) the bytes/text of the files, (b) what an
independent reader (PyTables, netCDF4, struct) extracts from the binary containers, (c) what mdtraj's own
low-level reader and md.load return.  Every float crosses the process boundary as its IEEE bit pattern
(an integer), never as a decimal string, so the harness compares exact values.

stdin : {"trajs": [{"n_atoms", "xyz": [[u32]*3n]*T, "time": [u32]*T | null,
                    "cell": null | {"lengths": [[u32]*3]*T, "angles": [[u32]*3]*T},
                    "saves": [{"sid", "ext", "opts": {...}}]}]}
stdout: last line JSON {"results": [{"sid", ...}], "mem": [per trajectory in-memory arrays]}
"""
import base64
import gzip
import json
import os
import shutil
import struct
import sys
import warnings

import numpy as np

warnings.filterwarnings("ignore")
import mdtraj as md  # noqa: E402

ATOM_NAMES = [("N", "nitrogen"), ("CA", "carbon"), ("C", "carbon")]


def f32(bits):
    return np.array(bits, dtype=np.uint32).view(np.float32)


def bits32(a):
    return np.ascontiguousarray(a, dtype=np.float32).view(np.uint32).reshape(-1).tolist()


def bits64(a):
    return np.ascontiguousarray(a, dtype=np.float64).view(np.uint64).reshape(-1).tolist()


def anybits(a):
    """(kind, bits) for a float array of either width, without changing its values."""
    a = np.asarray(a)
    if a.dtype == np.float32:
        return {"w": 32, "b": bits32(a), "shape": list(a.shape)}
    if a.dtype == np.float64:
        return {"w": 64, "b": bits64(a), "shape": list(a.shape)}
    return {"w": 64, "b": bits64(a.astype(np.float64)), "shape": list(a.shape), "cast_from": str(a.dtype)}


def make_top(n_atoms, chains=None):
    """One chain of ALA residues (3 atoms each) by default.  With `chains` (list of chain ids, None = unlabelled):
    atom a belongs to chain a * len(chains) // n_atoms (contiguous blocks, every chain non-empty when
    n_atoms >= len(chains)); a residue starts at every chain start and after every third atom.  Atom names depend on
    the atom index only."""
    top = md.Topology()
    if not chains:
        chains = [None]
    objs = [top.add_chain() if cid is None else top.add_chain(chain_id=cid) for cid in chains]
    res, prev, k, nres = None, None, 0, 0
    for a in range(n_atoms):
        c = a * len(chains) // n_atoms
        if c != prev or k == 3:
            nres += 1
            res = top.add_residue("ALA", objs[c], resSeq=nres)
            prev, k = c, 0
        name, el = ATOM_NAMES[a % 3]
        top.add_atom(name, getattr(md.element, el), res)
        k += 1
    return top


def make_traj(tj, d="."):
    """Build the trajectory; with a "history" the object is first used the way a long-lived trajectory is
    (saved, getters evaluated, periodic distances computed) with an initial cell, and only then given its
    current cell through one of the public ways of assigning it.  Everything saved afterwards must hold the
    CURRENT cell."""
    n = tj["n_atoms"]
    T = len(tj["xyz"])
    xyz = f32(tj["xyz"]).reshape(T, n, 3)
    top = make_top(n, tj.get("chains"))
    time = None if tj.get("time") is None else f32(tj["time"]).astype(np.float64)
    kw = {}
    hist = tj.get("history")
    cell = hist["initial_cell"] if hist else tj.get("cell")
    if cell:
        kw["unitcell_lengths"] = f32(cell["lengths"]).reshape(T, 3)
        kw["unitcell_angles"] = f32(cell["angles"]).reshape(T, 3)
    # how the object came to hold its time stamps (the stamps themselves are tj["time"] in every case)
    th = tj.get("time_hist") if time is not None else None
    if th in (None, "direct"):
        t = md.Trajectory(xyz.copy(), top, time=time, **kw)
    elif th == "reassign":
        t = md.Trajectory(xyz.copy(), top, time=time + 1000.0, **kw)
        t.time = time.copy()
    else:                                   # built without time, time assigned afterwards
        t = md.Trajectory(xyz.copy(), top, **kw)
        t.time = time.copy()
        if th == "slice":
            t = t[:]
        elif th == "join" and T >= 2:
            k = T // 2
            t = t[:k].join(t[k:])
        elif th == "stack_slice":
            t = t.slice(list(range(T)), copy=True)
    if not hist:
        return t
    for k, st in enumerate(hist["steps"]):
        if st["op"] == "save":
            p = os.path.join(d, "hist%d%s" % (k, st["ext"]))
            try:
                t.save(p)
            except Exception:  # noqa: BLE001  a refused earlier save is part of an ordinary history
                pass
            if os.path.isdir(p):
                shutil.rmtree(p)
            elif os.path.exists(p):
                os.remove(p)
        elif st["op"] == "vectors":
            _ = t.unitcell_vectors
        elif st["op"] == "volumes":
            _ = t.unitcell_volumes
        elif st["op"] == "distances" and n >= 2:
            md.compute_distances(t, [[0, 1]], periodic=True)
    L = f32(tj["cell"]["lengths"]).reshape(T, 3)
    A = f32(tj["cell"]["angles"]).reshape(T, 3)
    via = hist["set_via"]
    if via == "lengths_angles":
        t.unitcell_lengths = L
        t.unitcell_angles = A
    elif via == "vectors":
        t.unitcell_vectors = md.Trajectory(xyz.copy(), top, unitcell_lengths=L, unitcell_angles=A).unitcell_vectors
    elif via == "inplace":
        t.unitcell_lengths[:] = L
        t.unitcell_angles[:] = A
    elif via == "inplace_frame":
        for i in range(T):
            t.unitcell_lengths[i, :] = L[i]
            t.unitcell_angles[i, :] = A[i]
    else:
        raise ValueError(via)
    return t


def current_vectors(t):
    """box vectors of the CURRENT lengths/angles, computed on a fresh object (no state of t involved)"""
    if t.unitcell_lengths is None:
        return None
    f = md.Trajectory(t.xyz[:, :1, :].copy(), make_top(1), unitcell_lengths=np.array(t.unitcell_lengths, copy=True),
                      unitcell_angles=np.array(t.unitcell_angles, copy=True))
    return f.unitcell_vectors


def err(e):
    return {"cls": type(e).__name__, "msg": str(e)[:300]}


# ----------------------------------------------------------------------------- independent readers
def raw_h5(path):
    import tables
    out = {}
    with tables.open_file(path, "r") as fh:
        out["conventions"] = str(getattr(fh.root._v_attrs, "conventions", ""))
        out["convention_version"] = str(getattr(fh.root._v_attrs, "conventionVersion", ""))
        for name in ("coordinates", "time", "cell_lengths", "cell_angles"):
            if hasattr(fh.root, name):
                node = getattr(fh.root, name)
                out[name] = anybits(node[:])
                out[name]["units"] = str(node.attrs.units) if "units" in node.attrs._v_attrnames else None
    return out


def raw_nc(path):
    import netCDF4
    out = {}
    with netCDF4.Dataset(path, "r") as ds:
        ds.set_auto_mask(False)
        ds.set_auto_scale(False)
        out["conventions"] = str(getattr(ds, "Conventions", ""))
        out["convention_version"] = str(getattr(ds, "ConventionVersion", ""))
        out["dims"] = {k: len(v) for k, v in ds.dimensions.items()}
        out["labels"] = {k: b"".join(np.asarray(ds.variables[k][:]).reshape(-1).tolist()).decode("latin-1")
                         for k in ("spatial", "cell_spatial") if k in ds.variables}
        out["extra_attrs"] = {name: sorted(a for a in ds.variables[name].ncattrs() if a != "units")
                              for name in ("coordinates", "time", "cell_lengths", "cell_angles") if name in ds.variables}
        for name in ("coordinates", "time", "cell_lengths", "cell_angles"):
            if name in ds.variables:
                v = ds.variables[name]
                out[name] = anybits(np.asarray(v[:]))
                out[name]["units"] = str(getattr(v, "units", None))
                out[name]["dims"] = list(v.dimensions)
    return out


class XDR:
    def __init__(self, data):
        self.d = data
        self.i = 0

    def eof(self):
        return self.i >= len(self.d)

    def u32(self, n=1):
        v = struct.unpack(">%dI" % n, self.d[self.i:self.i + 4 * n])
        self.i += 4 * n
        return list(v)

    def i32(self, n=1):
        v = struct.unpack(">%di" % n, self.d[self.i:self.i + 4 * n])
        self.i += 4 * n
        return list(v)

    def skip(self, n):
        self.i += n


def raw_trr(path):
    """GROMACS trn: header (magic 1993, version string, 13 ints, t, lambda) then box/vir/pres/x/v/f."""
    data = open(path, "rb").read()
    x = XDR(data)
    frames = []
    while not x.eof():
        magic, slen = x.i32(2)
        (n,) = x.u32()
        version = data[x.i:x.i + n].decode("latin-1")
        x.skip((n + 3) // 4 * 4)
        ir, e, box, vir, pres, top, sym, xs, vs, fs, natoms, step, nre = x.i32(13)
        fsz = (box // 9) if box else (xs // (3 * natoms))
        if fsz == 4:
            tb, lam = x.u32(2)
            w = 32
        else:
            tb, lam = struct.unpack(">2Q", data[x.i:x.i + 16])
            x.skip(16)
            w = 64

        def arr(nbytes):
            k = nbytes // fsz
            if fsz == 4:
                return x.u32(k)
            v = list(struct.unpack(">%dQ" % k, data[x.i:x.i + 8 * k]))
            x.skip(8 * k)
            return v
        fr = {"magic": magic, "natoms": natoms, "step": step, "w": w, "time": tb, "lambda": lam, "slen": slen,
              "version": version, "sizes": [ir, e, box, vir, pres, top, sym, xs, vs, fs], "nre": nre, "box": arr(box)}
        arr(vir)
        arr(pres)
        fr["x"] = arr(xs)
        fr["v_size"] = vs
        fr["f_size"] = fs
        arr(vs)
        arr(fs)
        frames.append(fr)
    return {"frames": frames}


def raw_dcd(path):
    """CHARMM/NAMD DCD: Fortran records; per frame [6 doubles unit cell] X[n] Y[n] Z[n] float32."""
    data = open(path, "rb").read()
    pos = 0

    def rec():
        nonlocal pos
        (n,) = struct.unpack("<i", data[pos:pos + 4])
        body = data[pos + 4:pos + 4 + n]
        (m,) = struct.unpack("<i", data[pos + 4 + n:pos + 8 + n])
        assert n == m, "bad fortran record"
        pos += 8 + n
        return body
    hdr = rec()
    assert hdr[:4] == b"CORD"
    icntrl = struct.unpack("<20i", hdr[4:84])
    nset, has_cell, charmm = icntrl[0], icntrl[10], icntrl[19]
    title = rec()
    (ntitle,) = struct.unpack("<i", title[:4])
    natom_rec = rec()
    (natoms,) = struct.unpack("<i", natom_rec[:4])
    header = {"hdr_len": len(hdr), "istart": icntrl[1], "nsavc": icntrl[2], "nfixed": icntrl[8],
              "delta_bits": struct.unpack("<I", hdr[4 + 36:4 + 40])[0], "fourdims": icntrl[11], "charmm_version": charmm,
              "ntitle": ntitle, "title_len": len(title), "natom_rec_len": len(natom_rec),
              "nstep": icntrl[3],
              "unused_zero": all(v == 0 for k, v in enumerate(icntrl) if k in (4, 5, 6, 7, 12, 13, 14, 15, 16, 17, 18))}
    frames = []
    while pos < len(data):
        fr = {}
        if has_cell:
            fr["cell"] = list(struct.unpack("<6Q", rec()))
        xs = [list(struct.unpack("<%dI" % natoms, rec())) for _ in range(3)]
        fr["x"] = [xs[k][a] for a in range(natoms) for k in range(3)]
        frames.append(fr)
    return {"nset_header": nset, "natoms": natoms, "has_cell": int(has_cell), "frames": frames, "header": header,
            "trailing": len(data) - pos}


def raw_dtr(path):
    """DESRES trajectory directory: `timekeys` (magic DESK, frames_per_file, key record size, then per frame
    time / offset / size as big-endian 32-bit halves) and frame files holding one self-describing blob per frame
    (magic DESM; big-endian header, meta, typename, label blocks; scalar and field blocks in the writer's byte
    order, every item padded to 8 bytes; items with count <= 1 live in the scalar block)."""
    tk = open(os.path.join(path, "timekeys"), "rb").read()
    magic, fpf, krs = struct.unpack(">III", tk[:12])
    assert magic == 0x4445534B and krs == 24, "timekeys prologue"
    frames = []
    nrec = (len(tk) - 12) // krs
    for i in range(nrec):
        tlo, thi, olo, ohi, slo, shi = struct.unpack(">6I", tk[12 + krs * i:12 + krs * (i + 1)])
        off, size = (ohi << 32) | olo, (shi << 32) | slo
        fn = os.path.join(path, "frame%09d" % (i // fpf))
        with open(fn, "rb") as fh:
            fh.seek(off)
            blob = fh.read(size)
        h = struct.unpack(">24I", blob[:96])
        assert h[0] == 0x4445534D, "frame magic"
        size_header, endian, nlabels = h[4], h[12], h[13]
        s_meta, s_type, s_label, s_scalar, s_field = h[14], h[15], h[16], h[17], (h[19] << 32) | h[18]
        bo = "<" if endian == 1234 else ">"
        o_meta = size_header
        o_type = o_meta + s_meta
        o_label = o_type + s_type
        o_scalar = o_label + s_label
        o_field = o_scalar + s_scalar
        types = blob[o_type:o_type + s_type].split(b"\0")
        labels = blob[o_label:o_label + s_label].split(b"\0")
        ps, pf = o_scalar, o_field
        items = {}
        for k in range(nlabels):
            ty, es, clo, chi = struct.unpack(">4I", blob[o_meta + 16 * k:o_meta + 16 * (k + 1)])
            count = (chi << 32) | clo
            nb = es * count
            pad = (nb + 7) // 8 * 8
            if count <= 1:
                data, ps = blob[ps:ps + nb], ps + pad
            else:
                data, pf = blob[pf:pf + nb], pf + pad
            tname = types[ty].decode()
            lab = labels[k].decode()
            if tname == "float":
                items[lab] = {"w": 32, "b": list(struct.unpack(bo + "%dI" % count, data))}
            elif tname == "double":
                items[lab] = {"w": 64, "b": list(struct.unpack(bo + "%dQ" % count, data))}
            elif tname == "char":
                items[lab] = {"s": data.split(b"\0")[0].decode("latin-1")}
            else:
                items[lab] = {"type": tname, "count": count}
        frames.append({"key_time": (thi << 32) | tlo, "items": items, "frame_size": size})
    return {"frames_per_file": fpf, "frames": frames}


# ----------------------------------------------------------------------------- mdtraj's own low-level readers
def native_read(path, ext, n_atoms):
    """Numbers in the file's native units as mdtraj's file object returns them."""
    try:
        if ext in (".mdcrd", ".crd"):
            with md.formats.MDCRDTrajectoryFile(path, n_atoms=n_atoms) as f:
                xyz, box = f.read()
            return {"xyz": anybits(xyz), "box": None if box is None else anybits(box)}
    except Exception as e:  # noqa: BLE001
        return {"err": err(e)}
    return None


def loaded(u):
    return {"n_frames": int(u.n_frames), "n_atoms": int(u.n_atoms), "xyz": bits32(u.xyz),
            "time": bits64(u.time),
            "lengths": None if u.unitcell_lengths is None else bits32(u.unitcell_lengths),
            "angles": None if u.unitcell_angles is None else bits32(u.unitcell_angles)}


TEXT = (".mdcrd", ".crd", ".xyz", ".lammpstrj", ".gro", ".pdb", ".rst7")


def collect_files(d, base):
    out = {}
    for fn in sorted(os.listdir(d)):
        if not fn.startswith(base):
            continue
        p = os.path.join(d, fn)
        if os.path.isdir(p):
            out[fn] = {"dir": sorted(os.listdir(p))}
            continue
        raw = open(p, "rb").read()
        if fn.endswith(".gz"):
            try:
                raw = gzip.decompress(raw)
                zipped = True
            except Exception:  # noqa: BLE001
                zipped = False
            out[fn] = {"text": raw.decode("latin-1"), "gz": zipped}
        elif any(t in fn for t in TEXT):
            out[fn] = {"text": raw.decode("latin-1")}
        else:
            out[fn] = {"b64": base64.b64encode(raw).decode("ascii")}
    return out


def run_save(t, tj, sv, d):
    ext = sv["ext"]
    opts = dict(sv.get("opts") or {})
    base = "s%d" % sv["sid"]
    path = os.path.join(d, base + ext)
    res = {"sid": sv["sid"], "save_err": None}
    if "bfactors" in opts and opts["bfactors"] is not None:
        opts["bfactors"] = np.array(f32(opts["bfactors"]), dtype=np.float64).reshape(opts.pop("bf_shape"))
    try:
        t.save(path, **opts)
    except Exception as e:  # noqa: BLE001
        res["save_err"] = err(e)
        res["files"] = collect_files(d, base)
        return res
    files = collect_files(d, base)
    res["files"] = files
    # independent readers of the binary containers
    raw = {}
    try:
        if ext == ".h5":
            raw = raw_h5(path)
        elif ext in (".nc", ".netcdf", ".ncdf"):
            raw = raw_nc(path)
        elif ext == ".ncrst":
            raw = {fn: raw_nc(os.path.join(d, fn)) for fn in files}
        elif ext == ".trr":
            raw = raw_trr(path)
        elif ext == ".dcd":
            raw = raw_dcd(path)
        elif ext == ".dtr":
            raw = raw_dtr(path)
    except Exception as e:  # noqa: BLE001
        raw = {"err": err(e)}
    res["raw"] = raw
    res["native"] = native_read(path, ext, t.n_atoms)
    # load back through the public API
    lo = {}
    try:
        if ext in (".rst7", ".ncrst") and t.n_frames > 1:
            fn_load = md.load_restrt if ext == ".rst7" else md.load_ncrestrt
            lo = {"multi": {fn: loaded(fn_load(os.path.join(d, fn), top=t.topology)) for fn in sorted(files)}}
        else:
            lo = loaded(md.load(path, top=t.topology) if ext not in (".h5", ".pdb", ".pdb.gz", ".gro")
                        else md.load(path))
    except Exception as e:  # noqa: BLE001
        lo = {"err": err(e)}
    res["load"] = lo
    return res


def unit_factors(pairs):
    """the factor in_units_of multiplies with, for each (from, to): bit pattern of the Python float"""
    from mdtraj.utils.unit import in_units_of
    out = []
    for a, b in pairs:
        f = in_units_of(1.0, a, b)
        out.append({"from": a, "to": b, "type": type(f).__name__, "bits": bits64(np.array([f]))[0]})
    return out


def main():
    payload = json.load(sys.stdin)
    if payload.get("mode") == "units":
        print(json.dumps({"factors": unit_factors(payload["pairs"])}))
        return
    d = os.path.abspath("codec_files")
    os.makedirs(d, exist_ok=True)
    results, mem = [], []
    for tj in payload["trajs"]:
        t = make_traj(tj, d)
        uv = current_vectors(t)
        m = {"time": bits64(t.time),
             "lengths": None if t.unitcell_lengths is None else bits32(t.unitcell_lengths),
             "angles": None if t.unitcell_angles is None else bits32(t.unitcell_angles),
             "uv": None if uv is None else bits32(uv)}
        mem.append(m)
        for sv in tj["saves"]:
            results.append(run_save(t, tj, sv, d))
            for fn in os.listdir(d):
                p = os.path.join(d, fn)
                shutil.rmtree(p) if os.path.isdir(p) else os.remove(p)
    print(json.dumps({"results": results, "mem": mem}))


if __name__ == "__main__":
    main()
