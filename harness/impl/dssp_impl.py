"""Implementation side of C15 (DSSP).

stdin : {"repo": path of the mdtraj tree the shim must #include, "tmp": scratch dir,
         "shim": path of dssp_shim.cpp,
         "tables": [ {"n":int, "chain":[int], "missing":[bitmask], "frames":[{"hb":[[acc,..]..], "turn":[deg..]}]} ],
         "bridge_probe": [ {"n":..,"chain":..,"hb":..,"i":..,"j":..} ],
         "e2e": [ {"file": name in tests/data, "frame": int, "n_frames": int, "noise": float, "seed": int,
                   "delete": [[residue_index, atom_name], ...], "keep_residues": [lo, hi] | null,
                   "history": optional [ {"op":"call"} | {"op":"rename_atom","res":i,"old":s,"new":s} |
                                          {"op":"rename_residue","res":i,"name":s} ]  executed on ONE object } ]}
stdout: last line JSON {"tables": [[str per frame]], "bridge_probe":[int], "e2e":[{...}]}

Synthetic H-bond tables go through the shim (mdtraj's dssp() with kabsch_sander replaced, see the
header of dssp_shim.cpp).  End-to-end cases go through md.compute_dssp / md.kabsch_sander only; what is
returned besides mdtraj's answers is computed here from the topology and CA coordinates by
independent code: residues lacking N/CA/C/O, chain index per residue, kappa > 70 degrees.
"""
import ctypes
import json
import os
import subprocess
import sys
import warnings

import numpy as np

warnings.filterwarnings("ignore")


def build_shim(repo, shim, tmp):
    so = os.path.join(tmp, "dssp_shim.so")
    g = os.path.join(repo, "mdtraj", "geometry")
    cmd = ["g++", "-shared", "-fPIC", "-O1", "-w", "--std=c++11", "-msse2", "-mssse3",
           "-I" + os.path.join(g, "include"), "-I" + os.path.join(g, "src", "kernels"), "-I" + os.path.join(g, "src"),
           shim, "-o", so]
    r = subprocess.run(cmd, stdout=subprocess.PIPE, stderr=subprocess.STDOUT, text=True)
    if r.returncode != 0:
        raise RuntimeError("shim build failed:\n" + r.stdout[-3000:])
    return ctypes.CDLL(so)


def iarr(x):
    return np.ascontiguousarray(np.array(x, dtype=np.int32).ravel())


def ptr(a):
    return a.ctypes.data_as(ctypes.POINTER(ctypes.c_int))


def hb_slots(hb, n):
    out = np.full((n, 2), -1, dtype=np.int32)
    for d, accs in enumerate(hb):
        assert len(accs) <= 2
        for k, a in enumerate(accs):
            out[d, k] = a
    return out


def run_tables(lib, tables):
    res = []
    for t in tables:
        n = t["n"]
        F = len(t["frames"])
        hb = np.concatenate([hb_slots(fr["hb"], n).ravel() for fr in t["frames"]]).astype(np.int32)
        # synthetic energies (all below -0.5); "strength" per frame lets bonds weaken / strengthen over frames
        en = np.concatenate([np.full(2 * n, -float(fr.get("strength", 1.0)), dtype=np.float32) -
                             0.01 * np.tile(np.arange(2, dtype=np.float32), n) for fr in t["frames"]]).astype(np.float32)
        turn = iarr([fr["turn"] for fr in t["frames"]])
        chain = iarr(t["chain"])
        missing = iarr(t["missing"])
        out = ctypes.create_string_buffer(F * n + 1)
        nf = lib.shim_dssp(F, n, ptr(hb), en.ctypes.data_as(ctypes.POINTER(ctypes.c_float)), ptr(chain), ptr(missing), ptr(turn), out)
        assert nf == F
        s = out.raw[:F * n].decode("ascii")
        strings = [s[f * n:(f + 1) * n] for f in range(F)]
        if t.get("pylayer"):
            res.append({"c": strings, "py": run_pylayer(t, strings)})
        else:
            res.append({"c": strings})
    return res


def run_pylayer(t, strings):
    """dssp.py on top of a stubbed _geometry._dssp that returns `strings` (what mdtraj's dssp() produced for the
    synthetic table): exercises the simplified translation, the reshape and the 'NA' overlay with all 8 codes."""
    import mdtraj as md
    from mdtraj.geometry import dssp as dssp_mod
    n = t["n"]
    top = md.Topology()
    chains = {}
    for i in range(n):
        c = t["chain"][i]
        if c not in chains:
            chains[c] = top.add_chain()
        res = top.add_residue("ALA", chains[c])
        m = t["missing"][i]
        for bit, name, el in ((1, "N", md.element.nitrogen), (8, "CA", md.element.carbon),
                              (2, "C", md.element.carbon), (4, "O", md.element.oxygen)):
            if not (m & bit):
                top.add_atom(name, el, res)
        if m == 15:
            top.add_atom("OW", md.element.oxygen, res)
    F = len(strings)
    traj = md.Trajectory(np.zeros((F, top.n_atoms, 3), dtype=np.float32), top)
    seen = {}

    class Stub:
        @staticmethod
        def _dssp(xyz, nco, ca, pro, chain_ids):
            seen["chain"] = [int(x) for x in chain_ids]
            seen["skip"] = [int(min(int(a), int(b), int(c), int(d)) < 0) for (a, b, c), d in zip(nco.tolist(), ca.tolist())]
            seen["shape"] = list(xyz.shape)
            return "".join(strings)

    orig = dssp_mod._geometry
    dssp_mod._geometry = Stub()
    try:
        full = md.compute_dssp(traj, simplified=False)
        simp = md.compute_dssp(traj, simplified=True)
    finally:
        dssp_mod._geometry = orig
    args_ok = (seen.get("chain") == [sorted(set(t["chain"])).index(c) for c in t["chain"]]
               and seen.get("skip") == [int(m != 0) for m in t["missing"]] and seen.get("shape") == [F, top.n_atoms, 3])
    return {"full": [[str(x) for x in row] for row in full], "simp": [[str(x) for x in row] for row in simp],
            "args_ok": bool(args_ok), "shape": list(full.shape)}


def run_bridge_probe(lib, probes):
    res = []
    for p in probes:
        hb = hb_slots(p["hb"], p["n"]).ravel().astype(np.int32)
        res.append(int(lib.shim_test_bridge(p["i"], p["j"], p["n"], ptr(iarr(p["chain"])), ptr(hb))))
    return res


# ------------------------------------------------------------------------------------------ end to end
def kappa_flags(ca_xyz, have):
    """ca_xyz: (n,3) float64 with nan rows where CA is absent -> list of 1/0/None (None = within the
    guard band of 70 degrees or undefined)."""
    n = len(ca_xyz)
    out = [0] * n
    thr = np.radians(70.0)
    for i in range(2, n - 2):
        if not (have[i - 2] and have[i] and have[i + 2]):
            out[i] = 0          # never read by the model: the guard needs all three CA
            continue
        u = ca_xyz[i - 2] - ca_xyz[i]
        v = ca_xyz[i] - ca_xyz[i + 2]
        nu, nv = np.linalg.norm(u), np.linalg.norm(v)
        if nu < 1e-6 or nv < 1e-6:
            out[i] = None
            continue
        c = float(np.dot(u, v) / (nu * nv))
        k = np.arccos(max(-1.0, min(1.0, c)))
        out[i] = None if abs(k - thr) < 2e-3 else int(k > thr)
    return out


def run_e2e(cases, repo):
    import mdtraj as md
    res = []
    cache = {}
    for c in cases:
        path = os.path.join(repo, "tests", "data", c["file"])
        if path not in cache:
            cache[path] = md.load(path)
        t0 = cache[path][c.get("frame", 0) % cache[path].n_frames]
        if c.get("keep_residues"):
            lo, hi = c["keep_residues"]
            t0 = t0.atom_slice([a.index for a in t0.top.atoms if lo <= a.residue.index < hi])
        dele = {(r, nm) for r, nm in c.get("delete", [])}
        if dele:
            t0 = t0.atom_slice([a.index for a in t0.top.atoms if (a.residue.index, a.name) not in dele])
        F = c["n_frames"]
        rng = np.random.RandomState(c["seed"])
        n_atoms = t0.n_atoms
        # one extra leading frame of the same buffer: an out-of-range atom index -1 in frame 0 then reads
        # known data (see known finding C14 ks hydrogen position)
        big = np.zeros((F + 1, n_atoms, 3), dtype=np.float32)
        big[0] = t0.xyz[0] + 0.3
        for f in range(F):
            if c.get("schedule"):
                scale = c["noise"] * c["schedule"][f]
            else:
                scale = c["noise"] * (f + 1) / F if c.get("ramp") else c["noise"]
            big[f + 1] = t0.xyz[0] + rng.normal(0.0, 1.0, size=(n_atoms, 3)).astype(np.float32) * scale
        traj = md.Trajectory(big[1:], t0.topology)
        top = traj.topology

        def observe():
            """mdtraj's answers for the object as it is now + the facts recomputed independently from the current names"""
            full = md.compute_dssp(traj, simplified=False)
            simp = md.compute_dssp(traj, simplified=True)
            ks = md.kabsch_sander(traj)
            n = top.n_residues
            names = [[a.name for a in r.atoms] for r in top.residues]
            skip = [int(not all(x in nm for x in ("N", "CA", "C", "O"))) for nm in names]
            chain = [r.chain.index for r in top.residues]
            ca_idx = [next((a.index for a in r.atoms if a.name == "CA"), None) for r in top.residues]
            frames = []
            for f in range(F):
                m = ks[f].tocoo()
                hb = [[] for _ in range(n)]
                for acc, don in zip(m.row.tolist(), m.col.tolist()):
                    hb[don].append(acc)
                xyz = np.asarray(traj.xyz[f], dtype=np.float64)
                ca = np.array([xyz[i] if i is not None else [np.nan] * 3 for i in ca_idx])
                geom = kappa_flags(ca, [i is not None for i in ca_idx])
                frames.append({"hb": hb, "geom": geom, "full": [str(x) for x in full[f]],
                               "simp": [str(x) for x in simp[f]]})
            return {"n": n, "skip": skip, "chain": chain, "frames": frames,
                    "shape_full": list(full.shape), "shape_simp": list(simp.shape)}

        if c.get("history"):
            # calls interleaved with in-place renames on ONE Trajectory/Topology object
            snaps = []
            for st in c["history"]:
                if st["op"] == "call":
                    snaps.append(observe())
                elif st["op"] == "rename_atom":
                    r = top.residue(st["res"])
                    for a in r.atoms:
                        if a.name == st["old"]:
                            a.name = st["new"]
                            break
                elif st["op"] == "rename_residue":
                    top.residue(st["res"]).name = st["name"]
            res.append({"snapshots": snaps})
        else:
            res.append(observe())
    return res


def main():
    p = json.load(sys.stdin)
    out = {}
    if p.get("tables") or p.get("bridge_probe"):
        lib = build_shim(p["repo"], p["shim"], p["tmp"])
        lib.shim_dssp.restype = ctypes.c_int
        out["tables"] = run_tables(lib, p.get("tables", []))
        out["bridge_probe"] = run_bridge_probe(lib, p.get("bridge_probe", []))
    if p.get("e2e"):
        out["e2e"] = run_e2e(p["e2e"], p["repo"])
    print(json.dumps(out))


if __name__ == "__main__":
    main()
